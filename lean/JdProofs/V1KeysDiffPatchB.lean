/-
  JdProofs.V1KeysDiffPatchB — property C17 (v1 API `lib/`), SET + setkeys, strict strategy, in memory
  (target 2). Namespace `Jd.V1K`. Everything is about `Jd.V1.diffM`, `Jd.V1.patchM`, `Jd.V1.equals`.

  HOW THE v1 CODE TREATS SET KEYS (model `JdModel/V1`, read off /repo/lib): the metadata travel IN THE
  PATH: `Diff` writes `["set","setkeys=id,…"]` in front of a member object; `Patch` reads the metadata
  back from the path and does not know `"setkeys=…"`: the set keys are FORGOTTEN when patching
  (`pm_specK`: the metadata read back are `[SET]` (+ MULTISET)). So
    * the diff pairs members by IDENTITY (`identOf m`: `hcombine (seed :: hashes of the key values
      present)` for objects, the hash code otherwise), sub-diffs same-identity OBJECT members and
      addresses the sub-diff through the PATH OBJECT (`pathObject`: the member restricted to the set
      keys; the member ITSELF when it has none of them);
    * the patch finds the member by the keyed lookup `patchKeyed`: the FIRST object member whose
      restriction TO THE KEYS OF THE PATH OBJECT hashes like the path object (`matchP`); a failure of
      the nested patch is DISCARDED (`v.patch(…); return s, nil`), no match is an error;
    * the set hunk `[…,{}]` and `Equals` work with FULL hash codes (`patchNode_set_leafK`).

  MAIN THEOREMS
    `v1_diff_patch_setkeys` : `KMode m ks` (SET present, `keysOf m = some ks`, `ks ≠ []`, no MERGE,
        precision 0; MULTISET may be present: SET wins); `a b`: `setDoc`, `DPL.memOK`; `KeysHyp m ks a b`;
        `FloatEq0`, `FloatLaws`:
          ∃ r, V1.patchM a (V1.diffM m a b) = .ok r ∧ V1.equals m r b = true ∧
               equivB [.set] r b = true ∧ V1.hashCode m r = V1.hashCode m b.
        No nested application fails (although a failure would be discarded): the frame lemma
        `patchAll_keyed_frame` runs the nested patches with `V1.patchAll`.
    `v1_diff_empty_iff_equals_setkeys` : same hypotheses, `V1.diffM m a b = [] ↔ V1.equals m a b = true`.
    `diffNode_nil_of_equivB_K` : equivalent documents have an EMPTY keyed diff (needs `hf`, `ib` only).
    `node_stepK` (the induction: every node, every path prefix; `StepK`), `set_stepK` (one array of
        keyed members against one array; `KeyedHyp`: the local hypotheses), `subs_apply` (the
        sub-diffs of the keyed members one after the other; `GInv`: the state of the array in
        between), `patchAll_keyed_frame`, `patchNode_keyed`, `patchKeyed_found`, `patchKeyed_none`,
        `keyed_hashes`, `patchSetLeaf_idents'` (the set leaf at the level of hash codes),
        `kvs_stepK`, `obj_resultK` (objects), `qr_of_hashes`.
    METHOD: port of the v2 proof JdProofs/DiffPatchKeys (part B) to the v1 functions; the diff side
        (`sub_origin`, `absent_of_removed`, `removed_of_absent`, `matched_of_present`,
        `parts_keys_nodup`) is re-proved for `V1.diffSetElems`; `DPK.equivB_trans_right`,
        `DPK.restrictKeys_congr` and the v1 object / scalar lemmas of V1SetDiffPatch are reused.

  HYPOTHESES `KeysHyp m ks a b` (all decidable: Bool checkers in file C) and why
    `hf  : V1S.HashFaithful m [.set] (subterms a ++ subterms b)`  equal V1 hash codes only for
          equivalent nodes (FNV collisions and the v1 pre-image aliases `[]` / `{}` / `""`). NEEDED for
          the `equivB` part: `Witness.alias_breaks_equivB`.
    `kd  : KeyedDistinct m (subterms a)`  in every array of `a` the object members have pairwise
          distinct identities. NEEDED: `Witness.duplicate_member_breaks`.
    `hk  : HasKey ks (subterms a)`  every object member of an array of `a` carries at least one set
          key. NEEDED on the model: `Witness.keyless_member_breaks` (on the Go library: through the
          text, `keyless_member_breaks_text` in file D; IN MEMORY the Go path object aliases the
          member and the run succeeds: see FINDINGS 4).
    `ksep: KindSepI m (subterms a) (subterms a ++ subterms b)`  no object has the identity of a
          non-object. A pure collision class (`hcombine` of a seeded list against an FNV hash): NOT
          KNOWN to be necessary in the sense of a concrete witness (none without a 64-bit collision).
    `ib  : IdentInj m (subterms b)`  in every array of `b`, members with the same identity have the
          same hash code. NEEDED: `Witness.target_duplicate_breaks`.
    `pf  : PathFaithful m ks (subterms a)`  among the object members of one array of `a`, the keyed
          lookup for the path object of a member hits only members with that member's identity.
          NEEDED beyond collisions: `Witness.keytwin_breaks` (KF-C01-keytwin).
    `kt  : KeyTuple m ks (subterms a) (subterms b)`  two objects with the same identity have, key by
          key, values with the same hash code (and lack the same keys). NEEDED:
          `Witness.identperm_breaks` (KF-C01-identperm).
    `setDoc`, `memOK`, `FloatEq0`, `FloatLaws`: as in JdProofs/V1SetDiffPatch.
    NOT a hypothesis: "every member carries ALL the set keys"; "key values are scalars".

  FINDINGS (witnesses in file C, each satisfies every other hypothesis; replayed on /repo/lib)
    1. duplicate member in `a`: `Patch` succeeds on the FIRST bearer only, result not `Equals` (Go: same).
    2. identperm: `Patch` returns an ERROR (Go: same, "expected object with id … but found none").
    3. keytwin: the lookup hits a member with MORE keys, the nested failure is discarded, `Patch`
       succeeds and returns the document UNCHANGED, not `Equals` (Go: same).
    4. member with none of the keys: the path object is the whole member; after the first hunk it
       matches nothing: ERROR. On Go this is what happens after `Render`/`ReadDiffString`; IN MEMORY
       `pathObject` returns the member map ITSELF (an alias), `Patch` mutates it in place and the
       run succeeds: the model's `patchM a (diffM m a b)` (the diff applied as a VALUE;
       `V1.diffPatchShared` claims "the diff no longer aliases the members") does not reproduce the
       in-memory run for such members — a model inaccuracy outside `HasKey`, reported.
    5. same identity twice in an array of `b`: result not `Equals` (Go: same).

  NOT PROVED: precision ≠ 0. (MULTISET + setkeys: file E; MERGE together with setkeys: file F.)
-/
import JdProofs.V1KeysDiffPatchA

namespace Jd.V1K
open Jd Jd.Spec
open Jd.SetDP (Ok Within)
open Jd.V1P (shift ap)
open Jd.DPL (aput)
open Jd.V1S (metaItems pm NM)

/-! # Part 2. SET + setkeys, strict strategy, in memory -/

/-! ## 2.0 the metadata; what the patch code reads back from the path -/

/-- SET together with set keys (at least one key), no MERGE, precision 0 or absent; MULTISET may be
    present as well (v1 `dispatch` gives SET priority). Decidable. -/
structure KMode (m : V1.Metas) (ks : List String) : Prop where
  set : V1.hasSet m = true
  keys : V1.keysOf m = some ks
  nonempty : ks.isEmpty = false
  noMerge : V1.hasMerge m = false
  prec0 : V1.precOf m = 0

theorem KMode.single (k : String) (r : List String) : KMode [.set, .setkeys (k :: r)] (k :: r) :=
  ⟨rfl, rfl, rfl, rfl, rfl⟩

theorem sk_ne_set (x : String) : (("setkeys=" ++ x) == "set") = false := by
  rw [beq_eq_false_iff_ne]
  intro h; have := congrArg String.toList h; simp at this

theorem sk_ne_mset (x : String) : (("setkeys=" ++ x) == "multiset") = false := by
  rw [beq_eq_false_iff_ne]
  intro h; have := congrArg String.toList h; simp at this

theorem sk_ne_merge (x : String) : (("setkeys=" ++ x) == "MERGE") = false := by
  rw [beq_eq_false_iff_ne]
  intro h; have := congrArg String.toList h; simp at this

section PM
variable {m : V1.Metas} {ks : List String}

theorem KMode.tag (K : KMode m ks) : V1.dispatchTag m = .set := by
  simp [V1.dispatchTag, K.set]

/-- the metadata the patch code reads back from the path of a keyed hunk: the set keys are FORGOTTEN
    (`"setkeys=…"` is not a metadata string the patch code knows) -/
theorem pm_specK (K : KMode m ks) :
    V1.hasSet (pm m) = true ∧ V1.keysOf (pm m) = none ∧ V1.precOf (pm m) = 0 ∧
      V1.dispatchTag (pm m) = .set := by
  cases h2 : V1.hasMset m <;>
    simp [pm, metaItems, K.set, K.keys, h2, V1.metaOfItems, V1.setkeysString, sk_ne_set,
      sk_ne_mset, sk_ne_merge, V1.hasSet, V1.keysOf, V1.precOf, V1.dispatchTag]

theorem pm_hash (K : KMode m ks) : V1.hashCode (pm m) = V1.hashCode m := by
  funext x
  exact V1S.hashCode_congr (by rw [(pm_specK K).2.2.2, K.tag]) x

theorem pm_equals (K : KMode m ks) : V1.equals (pm m) = V1.equals m := by
  funext x y
  exact V1S.equals_congr (by rw [(pm_specK K).2.2.2, K.tag]) (by rw [(pm_specK K).2.2.1, K.prec0])
    x y

theorem pm_ident (K : KMode m ks) : V1.identOf (pm m) = V1.hashCode m := by
  funext x
  rw [V1S.identOf_eq_hashCode (pm_specK K).2.1, pm_hash K]

theorem nm_metaK (K : KMode m ks) (r old new : List Json) :
    NM { path := .arr .raw (metaItems m) :: r, old := old, new := new } := by
  cases h2 : V1.hasMset m <;>
    simp [NM, V1.liftPath, V1.pathIsMerge, metaItems, K.set, K.keys, h2, V1.setkeysString,
      sk_ne_merge]

theorem pathNext_keyed (K : KMode m ks) (po : List (String × Json)) (rest : List Json) :
    V1.pathNext (V1.liftPath (.arr .raw (metaItems m) :: .obj po :: rest))
      = (.node (.obj po), pm m, V1.liftPath rest) := by
  have h1 := (pm_specK K).1
  simp only [V1.pathNext, V1.liftPath, List.map_cons, V1.pathNextAux, List.nil_append]
  show (V1.PElem.node (Json.obj po), (if (!V1.hasSet (pm m) && !V1.hasMset (pm m)) = true
    then pm m ++ [V1.Meta.set] else pm m), _) = _
  rw [h1]; rfl

/-- the test of the keyed lookup of `jsonSet.patch`: the member restricted to the keys of the path
    object hashes like the path object -/
def matchP (m : V1.Metas) (po : List (String × Json)) : Json → Bool
  | .obj kz => V1.hashCode m (.obj (restrictKeys kz po)) == V1.hashCode m (.obj po)
  | _ => false

theorem pathIdent_pm (K : KMode m ks) (kz po : List (String × Json)) :
    (V1.pathIdent (pm m) kz po == V1.identObj (pm m) po) = matchP m po (.obj kz) := by
  have hk := (pm_specK K).2.1
  simp only [V1.pathIdent, V1.identObj, hk, Option.getD_none, List.contains_nil, Bool.or_false,
    pm_hash K, matchP, restrictKeys]

/-- the keyed lookup finds the first member that passes its test and patches it in place; an
    error of the nested call is DISCARDED -/
theorem patchKeyed_found (K : KMode m ks) (po : List (String × Json)) (rest : V1.PPath)
    (hleaf : V1.pathIsLeaf rest = false)
    (old new : List Json) (kvs : List (String × Json)) (post : List Json)
    (hm : matchP m po (.obj kvs) = true) :
    ∀ (pre acc : List Json), (∀ z ∈ pre, matchP m po z = false) →
      V1.patchKeyed (pm m) (V1.identObj (pm m) po) po rest old new acc (pre ++ .obj kvs :: post) =
        match V1.patchNode false (.obj kvs) rest old new with
        | .ok v' => .ok (.arr .set (acc ++ pre ++ v' :: post))
        | .err => .ok (.arr .set (acc ++ pre ++ .obj kvs :: post))
        | .panic => .panic
  | [], acc, _ => by
    rw [V1.patchKeyed.eq_def]
    simp only [List.nil_append, List.append_nil]
    rw [pathIdent_pm K, if_pos hm, hleaf]
    cases V1.patchNode false (.obj kvs) rest old new <;> simp
  | z :: pre, acc, hp => by
    have hz : matchP m po z = false := hp z List.mem_cons_self
    have ih := patchKeyed_found K po rest hleaf old new kvs post hm pre (acc ++ [z])
      (fun w hw => hp w (List.mem_cons_of_mem _ hw))
    rw [V1.patchKeyed.eq_def]
    simp only [List.cons_append]
    cases z with
    | obj kz =>
      simp only []
      rw [pathIdent_pm K, hz]
      simp only [Bool.false_eq_true, if_false]
      rw [ih]
      simp [List.append_assoc]
    | _ =>
      simp only []
      rw [ih]
      simp [List.append_assoc]

/-- no member passes the test: the keyed hunk is an ERROR -/
theorem patchKeyed_none (K : KMode m ks) (po : List (String × Json)) (rest : V1.PPath)
    (old new : List Json) :
    ∀ (xs acc : List Json), (∀ z ∈ xs, matchP m po z = false) →
      V1.patchKeyed (pm m) (V1.identObj (pm m) po) po rest old new acc xs = .err
  | [], acc, _ => by rw [V1.patchKeyed.eq_def]
  | z :: r, acc, hp => by
    have hz : matchP m po z = false := hp z List.mem_cons_self
    have ih := patchKeyed_none K po rest old new r (acc ++ [z])
      (fun w hw => hp w (List.mem_cons_of_mem _ hw))
    rw [V1.patchKeyed.eq_def]
    cases z with
    | obj kz =>
      simp only []
      rw [pathIdent_pm K, hz]
      simp only [Bool.false_eq_true, if_false]
      exact ih
    | _ => exact ih

/-- a strict hunk whose path starts with a keyed element, addressed to an array -/
theorem patchNode_keyed_eq (K : KMode m ks) (t : Tag) (ht : t = .raw ∨ t = .set)
    (po : List (String × Json)) (e : Json) (rest : List Json) (old new : List Json)
    (xs : List Json) :
    V1.patchNode false (.arr t xs)
        (V1.liftPath (.arr .raw (metaItems m) :: .obj po :: e :: rest)) old new =
      V1.patchKeyed (pm m) (V1.identObj (pm m) po) po (V1.liftPath (e :: rest)) old new [] xs := by
  rw [V1.patchNode.eq_def]
  have he : V1.effTag (pm m) t = .set := by
    rcases ht with rfl | rfl <;> simp [V1.effTag, (pm_specK K).2.2.2]
  simp only [pathNext_keyed K, he]
  simp [V1.liftPath, V1.pathIsLeaf]

theorem patchNode_keyed (K : KMode m ks) (t : Tag) (ht : t = .raw ∨ t = .set)
    (po : List (String × Json)) (e : Json) (rest : List Json)
    (hleaf : V1.pathIsLeaf (V1.liftPath (e :: rest)) = false) (old new : List Json)
    (pre : List Json) (kvs : List (String × Json)) (post : List Json)
    (hpre : ∀ z ∈ pre, matchP m po z = false) (hm : matchP m po (.obj kvs) = true) :
    V1.patchNode false (.arr t (pre ++ .obj kvs :: post))
        (V1.liftPath (.arr .raw (metaItems m) :: .obj po :: e :: rest)) old new =
      match V1.patchNode false (.obj kvs) (V1.liftPath (e :: rest)) old new with
      | .ok v' => .ok (.arr .set (pre ++ v' :: post))
      | .err => .ok (.arr .set (pre ++ .obj kvs :: post))
      | .panic => .panic := by
  rw [patchNode_keyed_eq K t ht, patchKeyed_found K po _ hleaf old new kvs post hm pre [] hpre]
  simp

end PM

/-! ## 2.1 frame lemma: hunks below a keyed member that do not touch the set keys -/

/-- hunks whose path starts with an object key outside the set keys -/
def KeyFree (ks : List String) (D : V1.VDiff) : Prop :=
  ∀ h ∈ D, ∃ k rest, h.path = .str k :: rest ∧ k ∉ ks

theorem KeyFree.nm {ks : List String} {D : V1.VDiff} (h : KeyFree ks D) : ∀ h' ∈ D, NM h' := by
  intro h' hh
  obtain ⟨k, rest, e, _⟩ := h h' hh
  simp [NM, e, V1.liftPath, V1.pathIsMerge]

/-- the test only looks at the members under the keys of the path object -/
theorem matchP_congr {m : V1.Metas} {po kvs kvs' : List (String × Json)}
    (hs : keysSorted kvs = true) (hs' : keysSorted kvs' = true)
    (h : ∀ k, (alookup k po).isSome = true → alookup k kvs' = alookup k kvs) :
    matchP m po (.obj kvs') = matchP m po (.obj kvs) := by
  simp only [matchP, DPK.restrictKeys_congr hs hs' h]

/-- a sequence of such hunks, addressed through the keyed path element to the array, acts on the
    member alone; the member keeps its values under the set keys, hence is found again each time -/
theorem patchAll_keyed_frame {m : V1.Metas} {ks : List String} (K : KMode m ks)
    (po : List (String × Json)) (hpok : ∀ k, (alookup k po).isSome = true → k ∈ ks)
    (pre post : List Json) (hpre : ∀ z ∈ pre, matchP m po z = false) :
    ∀ (D : V1.VDiff), KeyFree ks D → ∀ (t : Tag), (t = .raw ∨ t = .set) →
      ∀ (kvs : List (String × Json)), keysSorted kvs = true → matchP m po (.obj kvs) = true →
      ∀ r, V1.patchAll (.obj kvs) D = .ok r →
      ∃ kvr t', r = .obj kvr ∧ keysSorted kvr = true ∧ (∀ k ∈ ks, alookup k kvr = alookup k kvs) ∧
        (t' = .raw ∨ t' = .set) ∧
        V1.patchAll (.arr t (pre ++ .obj kvs :: post))
            (D.map (shift [.arr .raw (metaItems m), .obj po]))
          = .ok (.arr t' (pre ++ r :: post))
  | [], _, t, ht, kvs, hs, _, r, hr => by
    simp only [V1P.patchAll_nil, Outcome.ok.injEq] at hr
    subst hr
    exact ⟨kvs, t, rfl, hs, fun _ _ => rfl, ht, by simp [V1P.patchAll_nil]⟩
  | h :: D, hD, t, ht, kvs, hs, hm, r, hr => by
    obtain ⟨k, rest, hpath, hkn⟩ := hD h List.mem_cons_self
    have hnm : NM h := hD.nm h List.mem_cons_self
    obtain ⟨hp0, ho0, hn0⟩ := h
    simp only at hpath
    subst hpath
    have hsh : ({ path := .str k :: rest, old := ho0, new := hn0 } : V1.Hunk)
        = shift [.str k] { path := rest, old := ho0, new := hn0 } := rfl
    rw [V1S.patchAll_cons _ _ _ hnm, hsh, V1P.ap_key] at hr
    cases hv : ap ((alookup k kvs).getD .void) { path := rest, old := ho0, new := hn0 } with
    | err => rw [hv] at hr; cases hr
    | panic => rw [hv] at hr; cases hr
    | ok v =>
      rw [hv] at hr
      simp only [Outcome.bind_ok] at hr
      have hs1 := DPL.keysSorted_aput k v kvs hs
      have hl1 : ∀ j ∈ ks, alookup j (aput k v kvs) = alookup j kvs := by
        intro j hj
        exact DPL.alookup_aput_ne (fun e : j = k => hkn (e ▸ hj)) v kvs
      have hl2 : ∀ j, (alookup j po).isSome = true →
          alookup j (aput k v kvs) = alookup j kvs := fun j hj => hl1 j (hpok j hj)
      have hm1 : matchP m po (.obj (aput k v kvs)) = true := by
        rw [matchP_congr hs hs1 hl2]; exact hm
      obtain ⟨kvr, t', e1, e2, e3, e4, e5⟩ := patchAll_keyed_frame K po hpok pre post
        hpre D (fun h' hh' => hD h' (List.mem_cons_of_mem _ hh')) .set (Or.inr rfl)
        (aput k v kvs) hs1 hm1 r hr
      refine ⟨kvr, t', e1, e2, fun j hj => by rw [e3 j hj, hl1 j hj], e4, ?_⟩
      have hnm2 : NM (shift [.arr .raw (metaItems m), .obj po]
          { path := .str k :: rest, old := ho0, new := hn0 }) := nm_metaK K _ _ _
      rw [List.map_cons, V1S.patchAll_cons _ _ _ hnm2]
      have hap : ap (.arr t (pre ++ .obj kvs :: post))
          (shift [.arr .raw (metaItems m), .obj po]
            { path := .str k :: rest, old := ho0, new := hn0 })
          = .ok (.arr .set (pre ++ .obj (aput k v kvs) :: post)) := by
        have hleaf : V1.pathIsLeaf (V1.liftPath (.str k :: rest)) = false := by
          simp [V1.liftPath, V1.pathIsLeaf]
        show V1.patchNode false _ (V1.liftPath (.arr .raw (metaItems m) :: .obj po :: .str k :: rest))
          ho0 hn0 = _
        rw [patchNode_keyed K t ht po (.str k) rest hleaf ho0 hn0 pre kvs post hpre hm]
        have := V1P.ap_key kvs k { path := rest, old := ho0, new := hn0 }
        rw [hv] at this
        simp only [ap, shift, List.cons_append, List.nil_append, Outcome.bind_ok] at this
        rw [this]
      rw [hap]
      simp only [Outcome.bind_ok]
      exact e5

/-! ## 2.2 what one node of the diff has to achieve; objects -/

/-- the result is the target: for the library's `Equals`, it has the target's hash code (members of
    arrays read as sets are compared by hash code), and for the advertised equivalence `equivB` -/
def QR1 (m : V1.Metas) (o : Opts) (r b : Json) : Prop :=
  V1.equals m r b = true ∧ V1.hashCode m r = V1.hashCode m b ∧ equivB o r b = true

/-- the hunks of the diff of two nodes are hunks below the path, none announces the merge
    strategy, they apply to the source in sequence (`V1.patchAll`: the library's patch loop), the
    result is the target; and for two objects that agree on the set keys (same keys present, values
    with the same hash codes) the hunks do not touch the set keys -/
def StepK (m : V1.Metas) (o : Opts) (ks : List String) (a b : Json) (p : List Json) : Prop :=
  ∃ D r, V1.diffNode m false a b p = D.map (shift p) ∧ (∀ h ∈ D, NM h) ∧
    V1.patchAll a D = .ok r ∧ QR1 m o r b ∧
    (∀ kvs kvs', a = .obj kvs → b = .obj kvs' →
      (∀ k ∈ ks, (alookup k kvs).map (V1.hashCode m) = (alookup k kvs').map (V1.hashCode m)) →
      KeyFree ks D)

theorem obj_resultK {m : V1.Metas} {o : Opts} {cur kvs' : List (String × Json)}
    (hs : keysSorted cur = true) (hs' : keysSorted kvs' = true)
    (h : ∀ k, match alookup k kvs' with
      | none => alookup k cur = none
      | some v' => ∃ z, alookup k cur = some z ∧ QR1 m o z v') :
    QR1 m o (.obj cur) (.obj kvs') := by
  obtain ⟨r1, r2⟩ := V1S.obj_result (m := m) (o := o) hs hs' (fun k => by
    have hk := h k
    cases hl : alookup k kvs' with
    | none => rw [hl] at hk; exact hk
    | some v' =>
      rw [hl] at hk
      obtain ⟨z, hz, hq⟩ := hk
      exact ⟨z, hz, hq.2.2, hq.1⟩)
  refine ⟨r2, ?_, r1⟩
  have hlen : cur.length = kvs'.length := by
    simp only [V1.equals, Bool.and_eq_true, beq_iff_eq] at r2; exact r2.1
  let R : Json → Json → Bool := fun x y => V1.hashCode m x == V1.hashCode m y
  have key : AllLook R cur kvs' := by
    intro k z hm
    have hz := alookup_of_mem hs hm
    have := h k
    cases hl : alookup k kvs' with
    | none => rw [hl] at this; simp [this] at hz
    | some v' =>
      rw [hl] at this
      obtain ⟨z', hz', hr⟩ := this
      rw [hz] at hz'
      cases hz'
      exact ⟨v', rfl, by simp [R, hr.2.1]⟩
  have hflip := AllLook.flip hs hs' hlen key
  have hk : V1.hashKvs m cur = V1.hashKvs m kvs' :=
    V1S.hashKvs_congr m R cur kvs' hs hs' key hflip (fun k v v' _ _ e => by
      simpa [R] using e)
  simp only [V1.hashCode, hk]

/-- the first loop of `jsonObject.diff`: the members of the source in key order -/
theorem kvs_stepK (L : FloatLaws) (m : V1.Metas) (o : Opts) (kvs' : List (String × Json))
    (hb : Ok (.obj kvs')) (p : List Json) :
    ∀ (r : List (String × Json)),
      (∀ k v, (k, v) ∈ r → Ok v ∧ v.isVoid = false ∧
        ∀ v', alookup k kvs' = some v' → ∀ q, ∃ D0 r0,
          V1.diffNode m false v v' q = D0.map (shift q) ∧ (∀ h ∈ D0, NM h) ∧
          V1.patchAll v D0 = .ok r0 ∧ QR1 m o r0 v') →
      keysSorted r = true →
      ∀ cur, keysSorted cur = true → (∀ k v, (k, v) ∈ r → alookup k cur = some v) →
      ∃ D cur', V1.diffKvs m false p kvs' r = D.map (shift p) ∧ (∀ h ∈ D, NM h) ∧
        V1.patchAll (.obj cur) D = .ok (.obj cur') ∧ keysSorted cur' = true ∧
        (∀ k0, (∀ v, (k0, v) ∉ r) → alookup k0 cur' = alookup k0 cur) ∧
        (∀ k v, (k, v) ∈ r → match alookup k kvs' with
          | none => alookup k cur' = none
          | some v' => ∃ z, alookup k cur' = some z ∧ QR1 m o z v')
  | [], _, _, cur, hs, _ =>
    ⟨[], cur, by simp [V1P.diffKvs_nil], by simp, rfl, hs, fun _ _ => rfl, fun _ _ h => by cases h⟩
  | (k, v) :: r, hr, hsk, cur, hs, hcur => by
    obtain ⟨okv, hnv, ihv⟩ := hr k v List.mem_cons_self
    have hsk' := DPL.keysSorted_cons_iff.1 hsk
    have hx : alookup k cur = (if v.isVoid then none else some v) := by
      rw [hcur k v List.mem_cons_self, hnv]; rfl
    have hknr : ∀ w, (k, w) ∉ r := fun w hm => String.lt_irrefl k (hsk'.1 k w hm)
    have step : ∀ (D0 : V1.VDiff) (r0 : Json), (∀ h ∈ D0, NM h) →
        V1.patchAll v D0 = .ok r0 →
        ((r0 = .void ∧ alookup k kvs' = none) ∨
          ∃ v', alookup k kvs' = some v' ∧ QR1 m o r0 v') →
        ∃ D cur', D0.map (shift (p ++ [.str k])) ++ V1.diffKvs m false p kvs' r =
            D.map (shift p) ∧ (∀ h ∈ D, NM h) ∧
          V1.patchAll (.obj cur) D = .ok (.obj cur') ∧ keysSorted cur' = true ∧
          (∀ k0, (∀ v_1, (k0, v_1) ∉ (k, v) :: r) → alookup k0 cur' = alookup k0 cur) ∧
          (∀ k_1 v_1, (k_1, v_1) ∈ (k, v) :: r → match alookup k_1 kvs' with
            | none => alookup k_1 cur' = none
            | some v' => ∃ z, alookup k_1 cur' = some z ∧ QR1 m o z v') := by
      intro D0 r0 hD0 hr0 hres
      obtain ⟨cur1, g1, g2, g3, g4⟩ := V1S.patchAll_key_frame D0 hD0 k cur v hs hx r0 hr0
      obtain ⟨Dr, cur', f0, f0', f1, f2, f3, f4⟩ := kvs_stepK L m o kvs' hb p r
        (fun k1 v1 hm => hr k1 v1 (List.mem_cons_of_mem _ hm)) hsk'.2 cur1 g2 (fun k1 v1 hm => by
          have hne : k1 ≠ k := fun e => String.lt_irrefl k (e ▸ hsk'.1 k1 v1 hm)
          rw [g3 k1 hne]
          exact hcur k1 v1 (List.mem_cons_of_mem _ hm))
      refine ⟨D0.map (shift [.str k]) ++ Dr, cur', ?_, ?_, ?_, f2, ?_, ?_⟩
      · rw [f0, List.map_append, List.map_map]
        congr 1
        apply List.map_congr_left
        intro h _
        simp [V1S.shift_shift]
      · intro h hh
        rcases List.mem_append.1 hh with hh | hh
        · obtain ⟨h0, _, rfl⟩ := List.mem_map.1 hh
          exact V1S.nm_shift_str k h0
        · exact f0' h hh
      · rw [V1S.patchAll_append_ok _ _ _ _ g1]
        exact f1
      · intro k0 hk0
        have hne : k0 ≠ k := fun e => hk0 v (e ▸ List.mem_cons_self)
        rw [f3 k0 (fun w hm => hk0 w (List.mem_cons_of_mem _ hm)), g3 k0 hne]
      · intro k1 v1 hm
        rcases List.mem_cons.1 hm with e | hm
        · cases e
          rw [f3 k hknr, g4]
          rcases hres with ⟨rfl, hlk⟩ | ⟨v', hlk, hres⟩
          · rw [hlk]; rfl
          · rw [hlk]
            have hnv' : r0.isVoid = false := by
              rw [V1S.equivB_isVoid hres.2.2]; exact (hb.lookup hlk).2
            exact ⟨r0, by rw [hnv']; rfl, hres⟩
        · exact f4 k1 v1 hm
    rw [V1P.diffKvs_cons]
    cases hlk : alookup k kvs' with
    | some v' =>
      obtain ⟨D0, r0, d1, d2, d3, d4⟩ := ihv v' hlk (p ++ [.str k])
      simp only []
      rw [d1]
      exact step D0 r0 d2 d3 (.inr ⟨v', hlk, d4⟩)
    | none =>
      simp only []
      have h1 : V1.patchAll v [{ path := [], old := v.nodeList, new := [] }] = .ok .void :=
        V1S.patch_replace L okv [] (by simp)
      have := step [{ path := [], old := v.nodeList, new := [] }] .void
        (fun h hm => by simp only [List.mem_singleton] at hm; subst hm; exact V1S.nm_nil _ _)
        h1 (.inl ⟨rfl, hlk⟩)
      simpa [shift] using this

/-! ## 2.3 the set leaf, at the level of hash codes -/


theorem MapInv_mono {mm : V1.Metas} {E E' : List Json} {am : List (UInt64 × Json)}
    (hI : V1S.MapInv mm E am) (h : ∀ x ∈ E, x ∈ E') : V1S.MapInv mm E' am :=
  ⟨hI.1, fun p hp => ⟨h _ (hI.2 p hp).1, (hI.2 p hp).2⟩⟩

/-- the removal loop succeeds when each removed value is `Equals` to whatever the map holds under
    its identity -/
theorem setRemoveLoop_ok' {mm : V1.Metas} {E : List Json} :
    ∀ (rem : List Json) (am : List (UInt64 × Json)), V1S.MapInv mm E am →
      (∀ d ∈ E, ∀ v ∈ rem, V1.identOf mm d = V1.identOf mm v → V1.equals mm d v = true) →
      (∀ r ∈ rem, V1.identOf mm r ∈ hkeys am) → (rem.map (V1.identOf mm)).Nodup →
      ∃ am', V1.setRemoveLoop mm am rem = .ok am' ∧ V1S.MapInv mm E am' ∧
        ∀ h, h ∈ hkeys am' ↔ h ∈ hkeys am ∧ h ∉ rem.map (V1.identOf mm)
  | [], am, hI, _, _, _ => ⟨am, by simp [V1.setRemoveLoop], hI, by simp⟩
  | v :: r, am, hI, heq, hk, hn => by
    have hkv : V1.identOf mm v ∈ hkeys am := hk v (by simp)
    simp only [List.map_cons, List.nodup_cons] at hn
    cases hg : hmapGet (V1.identOf mm v) am with
    | none => exact absurd hkv (hmapGet_none.1 hg)
    | some d =>
      have hd := hI.2 _ (hmapGet_some hg)
      have he : V1.equals mm d v = true := heq d hd.1 v (by simp) hd.2
      have hk' : ∀ r' ∈ r, V1.identOf mm r' ∈ hkeys (hmapErase (V1.identOf mm v) am) := by
        intro r' hr'
        rw [mem_hkeys_hmapErase _ _ _ hI.1]
        refine ⟨hk r' (by simp [hr']), ?_⟩
        intro e
        exact hn.1 (e ▸ List.mem_map_of_mem hr')
      obtain ⟨am', h1, h2, h3⟩ := setRemoveLoop_ok' r (hmapErase (V1.identOf mm v) am)
        (hI.erase _) (fun d hd v' hv' => heq d hd v' (by simp [hv'])) hk' hn.2
      refine ⟨am', ?_, h2, ?_⟩
      · simp [V1.setRemoveLoop, hg, he, h1]
      · intro h
        rw [h3, mem_hkeys_hmapErase _ _ _ hI.1]
        simp only [List.map_cons, List.mem_cons]
        grind

/-- the set leaf in terms of identities, without a global faithfulness hypothesis -/
theorem patchSetLeaf_idents' {mm : V1.Metas} {s remove add : List Json}
    (heq : ∀ d ∈ s, ∀ v ∈ remove, V1.identOf mm d = V1.identOf mm v → V1.equals mm d v = true)
    (hall : ∀ r ∈ remove, V1.identOf mm r ∈ s.map (V1.identOf mm))
    (hn : (remove.map (V1.identOf mm)).Nodup) :
    ∃ ys, V1.patchSetLeaf mm s remove add = .ok (.arr .set ys) ∧
      (∀ y ∈ ys, y ∈ s ∨ y ∈ add) ∧
      ∀ h, h ∈ ys.map (V1.identOf mm) ↔
        (h ∈ s.map (V1.identOf mm) ∧ h ∉ remove.map (V1.identOf mm)) ∨
          h ∈ add.map (V1.identOf mm) := by
  have hI0 : V1S.MapInv mm s (V1S.buildMap mm s []) :=
    V1S.buildMap_inv s (V1S.MapInv.nil _ _) (fun v hv => hv)
  have hk0 : ∀ h, h ∈ hkeys (V1S.buildMap mm s []) ↔ h ∈ s.map (V1.identOf mm) := by
    intro h; rw [V1S.mem_hkeys_buildMap]; simp [hkeys]
  obtain ⟨am', h1, h2, h3⟩ := setRemoveLoop_ok' remove _ hI0 heq
    (fun r hr => by rw [hk0]; exact hall r hr) hn
  have hI2 : V1S.MapInv mm (s ++ add) (V1S.buildMap mm add am') :=
    V1S.buildMap_inv add (MapInv_mono h2 (fun x hx => by simp [hx])) (fun v hv => by simp [hv])
  refine ⟨_, by rw [V1S.patchSetLeaf_eq, h1], ?_, ?_⟩
  · intro y hy
    obtain ⟨p, hp, rfl⟩ := List.mem_map.1 hy
    rcases V1S.mem_buildMap add am' ((ksort_perm _).mem_iff.1 hp) with h' | h'
    · rcases V1S.mem_buildMap s [] (V1S.setRemoveLoop_sub remove _ _ h1 p h') with h'' | h''
      · simp at h''
      · exact Or.inl h''
    · exact Or.inr h'
  · intro h
    rw [V1S.values_idents hI2, mem_hkeys_ksort, V1S.mem_hkeys_buildMap, h3, hk0]

/-- the set hunk on an array: the leaf case of `jsonSet.patch`, with the metadata READ FROM THE
    PATH (no set keys: members are told apart by their full hash codes) -/
theorem patchNode_set_leafK {m : V1.Metas} {ks : List String} (K : KMode m ks) (t : Tag)
    (ht : t = .raw ∨ t = .set) (xs old new : List Json) :
    V1.patchNode false (.arr t xs) (V1.liftPath [.arr .raw (metaItems m), .obj []]) old new =
      V1.patchSetLeaf (pm m) xs old new := by
  rw [V1.patchNode.eq_def]
  have he : V1.effTag (pm m) t = .set := by
    rcases ht with rfl | rfl <;> simp [V1.effTag, (pm_specK K).2.2.2]
  simp only [pathNext_keyed K, he]
  simp [V1.liftPath, V1.pathIsLeaf]

/-! ## 2.4 what the keyed set diff computes -/

section DiffSide
variable (m : V1.Metas) (mg : Bool) (p : List Json) (ys : List Json)

theorem dse_sub_cons (x : Json) (r : List Json) :
    ∀ kp ∈ V1.diffSetElems m mg p ys r, kp ∈ V1.diffSetElems m mg p ys (x :: r) := by
  intro kp hkp
  rw [dse_cons]
  split
  · exact hkp
  · split
    · exact List.mem_cons_of_mem _ hkp
    · split
      · exact List.mem_cons_of_mem _ hkp
      · exact hkp

/-- the key of every part is the identity of a member of the first array -/
theorem part_key_mem :
    ∀ (xs : List Json), ∀ kp ∈ V1.diffSetElems m mg p ys xs, kp.1 ∈ xs.map (V1.identOf m)
  | [], kp, h => by simp [dse_nil] at h
  | x :: r, kp, h => by
    have ih := part_key_mem r kp
    rw [dse_cons] at h
    simp only [List.map_cons, List.mem_cons]
    split at h
    · exact Or.inr (ih h)
    · split at h
      · rcases List.mem_cons.1 h with rfl | h
        · exact Or.inl rfl
        · exact Or.inr (ih h)
      · split at h
        · rcases List.mem_cons.1 h with rfl | h
          · exact Or.inl rfl
          · exact Or.inr (ih h)
        · exact Or.inr (ih h)

/-- the parts of a set diff have pairwise different keys -/
theorem parts_keys_nodup :
    ∀ (xs : List Json), ((V1.diffSetElems m mg p ys xs).map (·.1)).Nodup
  | [] => by simp [dse_nil]
  | x :: r => by
    have ih := parts_keys_nodup r
    rw [dse_cons]
    split
    · exact ih
    · next hc =>
      have hc' : V1.identOf m x ∉ r.map (V1.identOf m) := by simpa using hc
      have hnew : V1.identOf m x ∉ (V1.diffSetElems m mg p ys r).map (·.1) := by
        intro hm
        obtain ⟨kp, hkp, e⟩ := List.mem_map.1 hm
        exact hc' (e ▸ part_key_mem m mg p ys r kp hkp)
      split
      · simp only [List.map_cons, List.nodup_cons]; exact ⟨hnew, ih⟩
      · split
        · simp only [List.map_cons, List.nodup_cons]; exact ⟨hnew, ih⟩
        · exact ih

/-- where a sub-diff comes from -/
theorem sub_origin :
    ∀ (xs : List Json) (h : UInt64) (d : V1.VDiff),
      (h, V1.SetPart.sub d) ∈ V1.diffSetElems m mg p ys xs →
      ∃ kvs kvs', Json.obj kvs ∈ xs ∧ Json.obj kvs' ∈ ys ∧ h = V1.identOf m (.obj kvs) ∧
        V1.identOf m (.obj kvs') = V1.identOf m (.obj kvs) ∧
        d = V1.diffNode m mg (.obj kvs) (.obj kvs') (V1.appendIndex p (V1.pathObject m kvs) m)
  | [], h, d, hm => by simp [dse_nil] at hm
  | x :: r, h, d, hm => by
    have lift : (h, V1.SetPart.sub d) ∈ V1.diffSetElems m mg p ys r →
        ∃ kvs kvs', Json.obj kvs ∈ x :: r ∧ Json.obj kvs' ∈ ys ∧ h = V1.identOf m (.obj kvs) ∧
          V1.identOf m (.obj kvs') = V1.identOf m (.obj kvs) ∧
          d = V1.diffNode m mg (.obj kvs) (.obj kvs')
            (V1.appendIndex p (V1.pathObject m kvs) m) := fun hh => by
      obtain ⟨kvs, kvs', h1, h2⟩ := sub_origin r h d hh
      exact ⟨kvs, kvs', List.mem_cons_of_mem _ h1, h2⟩
    rw [dse_cons] at hm
    split at hm
    · exact lift hm
    · split at hm
      · rcases List.mem_cons.1 hm with he | hm
        · simp at he
        · exact lift hm
      · next y e =>
        split at hm
        · rcases List.mem_cons.1 hm with he | hm
          · simp only [Prod.mk.injEq, V1.SetPart.sub.injEq] at he
            obtain ⟨hy, hyi⟩ := V1S.identLookup_some e
            exact ⟨_, _, List.mem_cons_self, hy, he.1, hyi, he.2⟩
          · exact lift hm
        · exact lift hm

/-- every identity of the first array that is absent from the second yields a removed member -/
theorem removed_of_absent :
    ∀ (xs : List Json) (h : UInt64), h ∈ xs.map (V1.identOf m) → h ∉ ys.map (V1.identOf m) →
      ∃ z, (h, V1.SetPart.removed z) ∈ V1.diffSetElems m mg p ys xs
  | [], h, hx, _ => by simp at hx
  | x :: r, h, hx, hy => by
    by_cases hr : h ∈ r.map (V1.identOf m)
    · obtain ⟨z, hz⟩ := removed_of_absent r h hr hy
      exact ⟨z, dse_sub_cons m mg p ys x r _ hz⟩
    · have hxe : h = V1.identOf m x := by
        simp only [List.map_cons, List.mem_cons] at hx
        rcases hx with e | e
        · exact e
        · exact absurd e hr
      subst hxe
      refine ⟨x, ?_⟩
      rw [dse_cons, if_neg (by simpa using hr), V1S.identLookup_none.2 hy]
      exact List.mem_cons_self

/-- a removed member has an identity that is absent from the second array -/
theorem absent_of_removed :
    ∀ (xs : List Json) (h : UInt64) (z : Json),
      (h, V1.SetPart.removed z) ∈ V1.diffSetElems m mg p ys xs →
      z ∈ xs ∧ h = V1.identOf m z ∧ h ∉ ys.map (V1.identOf m)
  | [], h, z, hm => by simp [dse_nil] at hm
  | x :: r, h, z, hm => by
    have ih := absent_of_removed r h z
    have lift : (h, V1.SetPart.removed z) ∈ V1.diffSetElems m mg p ys r →
        z ∈ x :: r ∧ h = V1.identOf m z ∧ h ∉ ys.map (V1.identOf m) := fun hh =>
      ⟨List.mem_cons_of_mem _ (ih hh).1, (ih hh).2⟩
    rw [dse_cons] at hm
    split at hm
    · exact lift hm
    · split at hm
      · next e =>
        rcases List.mem_cons.1 hm with he | hm
        · simp only [Prod.mk.injEq, V1.SetPart.removed.injEq] at he
          obtain ⟨rfl, rfl⟩ := he
          exact ⟨List.mem_cons_self, rfl, V1S.identLookup_none.1 e⟩
        · exact lift hm
      · split at hm
        · rcases List.mem_cons.1 hm with he | hm
          · simp at he
          · exact lift hm
        · exact lift hm

/-- an identity present in both arrays: its LAST bearers on either side are the pair the set diff
    compares -/
theorem matched_of_present :
    ∀ (xs : List Json) (h : UInt64), h ∈ xs.map (V1.identOf m) → h ∈ ys.map (V1.identOf m) →
      ∃ x ∈ xs, ∃ y ∈ ys, V1.identOf m x = h ∧ V1.identOf m y = h ∧
        ∀ kvs kvs', x = .obj kvs → y = .obj kvs' →
          (h, V1.SetPart.sub (V1.diffNode m mg (.obj kvs) (.obj kvs')
              (V1.appendIndex p (V1.pathObject m kvs) m))) ∈ V1.diffSetElems m mg p ys xs
  | [], h, hx, _ => by simp at hx
  | x :: r, h, hx, hy => by
    by_cases hr : h ∈ r.map (V1.identOf m)
    · obtain ⟨x', hx', y', hy', e1, e2, hc⟩ := matched_of_present r h hr hy
      exact ⟨x', List.mem_cons_of_mem _ hx', y', hy', e1, e2, fun kvs kvs' ex ey =>
        dse_sub_cons m mg p ys x r _ (hc kvs kvs' ex ey)⟩
    · have hxe : h = V1.identOf m x := by
        simp only [List.map_cons, List.mem_cons] at hx
        rcases hx with e | e
        · exact e
        · exact absurd e hr
      subst hxe
      cases e : V1.identLookup m (V1.identOf m x) ys with
      | none => exact absurd hy (V1S.identLookup_none.1 e)
      | some y =>
        obtain ⟨hym, hyi⟩ := V1S.identLookup_some e
        refine ⟨x, List.mem_cons_self, y, hym, rfl, hyi, ?_⟩
        intro kvs kvs' ex ey
        subst ex ey
        rw [dse_cons, if_neg (by simpa using hr), e]
        exact List.mem_cons_self

end DiffSide

theorem identOf_nonobj (m : V1.Metas) {x : Json} (h : x.isObj = false) :
    V1.identOf m x = V1.hashCode m x := by
  cases x <;> simp_all [V1.identOf, Json.isObj]

/-! ## 2.5 one array read as a set of keyed members: the diff, then the patch -/

/-- the path object of a keyed member that carries at least one set key: the member restricted to
    the set keys (`jsonObject.pathObject`) -/
def pathObjK (ks : List String) (kvs : List (String × Json)) : List (String × Json) :=
  kvs.filter (fun kv => ks.contains kv.1)

theorem pathObject_eq {m : V1.Metas} {ks : List String} (K : KMode m ks)
    (kvs : List (String × Json)) (h : (pathObjK ks kvs).isEmpty = false) :
    V1.pathObject m kvs = pathObjK ks kvs := by
  unfold pathObjK at h
  simp only [V1.pathObject, K.keys, K.nonempty, Bool.false_eq_true, if_false, h, pathObjK]

theorem pathObjK_lookup (ks : List String) (kvs : List (String × Json)) (j : String) :
    alookup j (pathObjK ks kvs) = if ks.contains j then alookup j kvs else none :=
  Merge.alookup_filter (fun k => ks.contains k) j kvs

theorem pathObjK_keys (ks : List String) (kvs : List (String × Json)) (k : String)
    (h : (alookup k (pathObjK ks kvs)).isSome = true) : k ∈ ks := by
  rw [pathObjK_lookup] at h
  by_cases hk : k ∈ ks
  · exact hk
  · simp [hk] at h

theorem matchP_self (m : V1.Metas) (ks : List String) {kvs : List (String × Json)}
    (hs : keysSorted kvs = true) : matchP m (pathObjK ks kvs) (.obj kvs) = true := by
  have e : restrictKeys kvs (pathObjK ks kvs) = pathObjK ks kvs := by
    show kvs.filter _ = kvs.filter _
    apply List.filter_congr
    intro kv hkv
    rw [pathObjK_lookup, alookup_of_mem hs hkv]
    cases ks.contains kv.1 <;> rfl
  simp [matchP, e]

/-- the local hypotheses of the keyed set step on the two arrays (`node_stepK` derives them from
    the hypotheses of the main theorem) -/
structure KeyedHyp (m : V1.Metas) (o : Opts) (ks : List String) (xs ys : List Json) : Prop where
  sortedA : ∀ kvs, Json.obj kvs ∈ xs → keysSorted kvs = true
  hasKey : ∀ kvs, Json.obj kvs ∈ xs → (pathObjK ks kvs).isEmpty = false
  kd : ((xs.filter Json.isObj).map (V1.identOf m)).Nodup
  ksA : ∀ x ∈ xs, ∀ x' ∈ xs, V1.identOf m x = V1.identOf m x' → x.isObj = x'.isObj
  ksAB : ∀ x ∈ xs, ∀ y ∈ ys, V1.identOf m x = V1.identOf m y → x.isObj = y.isObj
  ib : ∀ y ∈ ys, ∀ y' ∈ ys, V1.identOf m y = V1.identOf m y' → V1.hashCode m y = V1.hashCode m y'
  pf : ∀ kvs kz, Json.obj kvs ∈ xs → Json.obj kz ∈ xs →
    matchP m (pathObjK ks kvs) (.obj kz) = true → V1.identOf m (.obj kz) = V1.identOf m (.obj kvs)
  hAA : ∀ x ∈ xs, ∀ x' ∈ xs, V1.hashCode m x = V1.hashCode m x' →
    V1.equals m x x' = true ∧ V1.identOf m x = V1.identOf m x'
  hAB : ∀ x ∈ xs, ∀ y ∈ ys, V1.hashCode m x = V1.hashCode m y → V1.identOf m x = V1.identOf m y
  eqAB : ∀ x ∈ xs, ∀ y ∈ ys, V1.hashCode m x = V1.hashCode m y → equivB o x y = true
  eqBB : ∀ y ∈ ys, ∀ y' ∈ ys, V1.hashCode m y = V1.hashCode m y' → equivB o y y' = true
  docB : ∀ y ∈ ys, DocOk y
  sub : ∀ kvs kvs', Json.obj kvs ∈ xs → Json.obj kvs' ∈ ys →
    V1.identOf m (.obj kvs') = V1.identOf m (.obj kvs) → ∀ q, ∃ D r,
      V1.diffNode m false (.obj kvs) (.obj kvs') q = D.map (shift q) ∧ KeyFree ks D ∧
      V1.patchAll (.obj kvs) D = .ok r ∧ QR1 m o r (.obj kvs')

/-- the state of the array while the sub-diffs of its keyed members are applied: `G` maps every
    member of the first array to what stands in its place; the members whose identity is in `done`
    have been turned into (something that is) the member of the second array with that identity -/
def GInv (m : V1.Metas) (o : Opts) (ks : List String) (xs ys : List Json) (G : Json → Json)
    (done : List UInt64) : Prop :=
  ∀ x ∈ xs, (G x = x ∧ (x.isObj = true → V1.identOf m x ∉ done)) ∨
    (∃ kvs kvr kvs', x = .obj kvs ∧ V1.identOf m x ∈ done ∧ G x = .obj kvr ∧
      keysSorted kvr = true ∧ (∀ k ∈ ks, alookup k kvr = alookup k kvs) ∧ Json.obj kvs' ∈ ys ∧
      V1.identOf m (.obj kvs') = V1.identOf m x ∧ QR1 m o (.obj kvr) (.obj kvs'))

def subKey (kp : UInt64 × V1.SetPart) : Option UInt64 :=
  match kp.2 with | .sub _ => some kp.1 | .removed _ => none

open Jd.DPK (nodup_map_inj nodup_map_of)

/-- object members have pairwise distinct identities: around one of them no other has its identity -/
theorem kd_splitG {f : Json → UInt64} {pre post : List Json} {x : Json}
    (kd : (((pre ++ x :: post).filter Json.isObj).map f).Nodup) (hx : x.isObj = true) :
    ∀ z ∈ pre ++ post, z.isObj = true → f z ≠ f x := by
  intro z hz hzo e
  simp only [List.filter_append, List.filter_cons, hx, if_true, List.map_append, List.map_cons] at kd
  rw [List.nodup_append] at kd
  obtain ⟨_, h2, h3⟩ := kd
  rw [List.nodup_cons] at h2
  rcases List.mem_append.1 hz with hz | hz
  · exact h3 _ (List.mem_map_of_mem (List.mem_filter.2 ⟨hz, hzo⟩)) _ List.mem_cons_self e
  · exact h2.1 (e ▸ List.mem_map_of_mem (List.mem_filter.2 ⟨hz, hzo⟩))

theorem subs_apply {m : V1.Metas} {o : Opts} {ks : List String} (K : KMode m ks)
    (xs ys : List Json) (p : List Json) (Hy : KeyedHyp m o ks xs ys) :
    ∀ (ps : List (UInt64 × V1.SetPart)),
      (∀ kp ∈ ps, kp ∈ V1.diffSetElems m false p ys xs) →
      (ps.map (·.1)).Nodup →
      ∀ (G : Json → Json) (done : List UInt64) (t : Tag), (t = .raw ∨ t = .set) →
      GInv m o ks xs ys G done → (∀ kp ∈ ps, kp.1 ∉ done) →
      ∃ D G' t', ps.flatMap V1S.subOf = D.map (shift p) ∧ (∀ h ∈ D, NM h) ∧
        (t' = .raw ∨ t' = .set) ∧
        V1.patchAll (.arr t (xs.map G)) D = .ok (.arr t' (xs.map G')) ∧
        GInv m o ks xs ys G' (done ++ ps.filterMap subKey)
  | [], _, _, G, done, t, ht, hG, _ =>
    ⟨[], G, t, rfl, by simp, ht, rfl, by simpa using hG⟩
  | (c, .removed z) :: ps, hps, hnd, G, done, t, ht, hG, hdone => by
    simp only [List.map_cons, List.nodup_cons] at hnd
    obtain ⟨D, G', t', e1, e2, e3, e4, e5⟩ := subs_apply K xs ys p Hy ps
      (fun kp h => hps kp (List.mem_cons_of_mem _ h)) hnd.2 G done t ht hG
      (fun kp h => hdone kp (List.mem_cons_of_mem _ h))
    have hf : List.filterMap subKey ((c, V1.SetPart.removed z) :: ps)
        = List.filterMap subKey ps := by
      rw [List.filterMap_cons]; rfl
    exact ⟨D, G', t', by simpa [V1S.subOf] using e1, e2, e3, e4, by rw [hf]; exact e5⟩
  | (c, .sub d) :: ps, hps, hnd, G, done, t, ht, hG, hdone => by
    simp only [List.map_cons, List.nodup_cons] at hnd
    obtain ⟨kvs, kvs', hx, hy, hc, hid, hdd⟩ :=
      sub_origin m false p ys xs c d (hps _ List.mem_cons_self)
    have hcd : c ∉ done := hdone _ List.mem_cons_self
    -- the member has not been touched yet
    have hGx : G (.obj kvs) = .obj kvs := by
      rcases hG _ hx with h | ⟨_, _, _, _, h, _⟩
      · exact h.1
      · exact absurd (hc ▸ h) hcd
    obtain ⟨pre0, post0, hsplit⟩ := List.append_of_mem hx
    have hsx := Hy.sortedA kvs hx
    have hkd := Hy.kd
    rw [hsplit] at hkd
    have hother := kd_splitG hkd (x := .obj kvs) rfl
    have hmem0 : ∀ z ∈ pre0 ++ post0, z ∈ xs := by
      intro z hz
      rw [hsplit]
      rcases List.mem_append.1 hz with h | h
      · exact List.mem_append.2 (Or.inl h)
      · exact List.mem_append.2 (Or.inr (List.mem_cons_of_mem _ h))
    -- no other member in the state of the array passes the test of the keyed lookup
    have hpok := pathObjK_keys ks kvs
    have hnomatch : ∀ z0 ∈ pre0 ++ post0, matchP m (pathObjK ks kvs) (G z0) = false := by
      intro z0 hz0
      have hz0x : z0 ∈ xs := hmem0 z0 hz0
      cases hmz : matchP m (pathObjK ks kvs) (G z0) with
      | false => rfl
      | true =>
        exfalso
        rcases hG z0 hz0x with h | ⟨kz, kvr, _, rfl, _, h2, h3, h4, _⟩
        · rw [h.1] at hmz
          cases z0 with
          | obj kz => exact hother _ hz0 rfl (Hy.pf kvs kz hx hz0x hmz)
          | _ => simp [matchP] at hmz
        · rw [h2, matchP_congr (Hy.sortedA kz hz0x) h3
            (fun k hk' => h4 k (hpok k hk'))] at hmz
          exact hother _ hz0 rfl (Hy.pf kvs kz hx hz0x hmz)
    have hself : matchP m (pathObjK ks kvs) (.obj kvs) = true := matchP_self m ks hsx
    have hpre : ∀ z ∈ pre0.map G, matchP m (pathObjK ks kvs) z = false := by
      intro z hz
      obtain ⟨z0, hz0, rfl⟩ := List.mem_map.1 hz
      exact hnomatch z0 (List.mem_append.2 (Or.inl hz0))
    -- the sub-diff of the member, and its application to the member
    have hpo : V1.pathObject m kvs = pathObjK ks kvs := pathObject_eq K kvs (Hy.hasKey kvs hx)
    obtain ⟨D0, r, q1, q2, q3, q4⟩ := Hy.sub kvs kvs' hx hy hid
      (p ++ [.arr .raw (metaItems m), .obj (pathObjK ks kvs)])
    obtain ⟨kvr, t1, f1, f2, f3, f4, f5⟩ := patchAll_keyed_frame K (pathObjK ks kvs)
      hpok (pre0.map G) (post0.map G) hpre D0 q2 t ht kvs hsx hself r q3
    -- the new state
    let G' : Json → Json := fun z => if z.isObj && V1.identOf m z == c then r else G z
    have hG'x : G' (.obj kvs) = r := by simp [G', Json.isObj, hc]
    have hG'o : ∀ z ∈ pre0 ++ post0, G' z = G z := by
      intro z hz
      simp only [G']
      split
      · next hcond =>
        simp only [Bool.and_eq_true, beq_iff_eq] at hcond
        exact absurd (hcond.2.trans hc) (hother z hz hcond.1)
      · rfl
    have hmapG' : xs.map G' = pre0.map G ++ r :: post0.map G := by
      rw [hsplit, List.map_append, List.map_cons, hG'x]
      congr 1
      · exact List.map_congr_left (fun z hz => hG'o z (List.mem_append.2 (Or.inl hz)))
      · congr 1
        exact List.map_congr_left (fun z hz => hG'o z (List.mem_append.2 (Or.inr hz)))
    have hmapG : xs.map G = pre0.map G ++ .obj kvs :: post0.map G := by
      rw [hsplit, List.map_append, List.map_cons, hGx]
    have hGinv' : GInv m o ks xs ys G' (done ++ [c]) := by
      intro z hz
      by_cases hcond : (z.isObj && V1.identOf m z == c) = true
      · simp only [Bool.and_eq_true, beq_iff_eq] at hcond
        have hzx : z = .obj kvs :=
          nodup_map_inj Hy.kd (List.mem_filter.2 ⟨hz, hcond.1⟩) (List.mem_filter.2 ⟨hx, rfl⟩)
            (hcond.2.trans hc)
        subst hzx
        refine Or.inr ⟨kvs, kvr, kvs', rfl, ?_, by rw [hG'x, f1], f2, f3, hy, hid, f1 ▸ q4⟩
        rw [← hc]; simp
      · have hGz : G' z = G z := by simp only [G']; rw [if_neg hcond]
        rw [hGz]
        rcases hG z hz with h | ⟨kz, kzr, kz', h1, h2, h3⟩
        · refine Or.inl ⟨h.1, fun hzo hm => ?_⟩
          rcases List.mem_append.1 hm with hm | hm
          · exact h.2 hzo hm
          · simp only [List.mem_singleton] at hm
            exact hcond (by simp [hzo, hm])
        · exact Or.inr ⟨kz, kzr, kz', h1, List.mem_append.2 (Or.inl h2), h3⟩
    obtain ⟨D, G'', t', e1, e2, e3, e4, e5⟩ := subs_apply K xs ys p Hy ps
      (fun kp h => hps kp (List.mem_cons_of_mem _ h)) hnd.2 G' (done ++ [c]) t1 f4 hGinv'
      (fun kp h hm => by
        rcases List.mem_append.1 hm with hm | hm
        · exact hdone kp (List.mem_cons_of_mem _ h) hm
        · simp only [List.mem_singleton] at hm
          exact hnd.1 (hm ▸ List.mem_map_of_mem (f := (·.1)) h))
    refine ⟨D0.map (shift [.arr .raw (metaItems m), .obj (pathObjK ks kvs)]) ++ D, G'', t',
      ?_, ?_, e3, ?_, ?_⟩
    · simp only [List.flatMap_cons, V1S.subOf, List.map_append, List.map_map]
      rw [← e1, hdd, hpo, V1S.appendIndex_eq, q1]
      congr 1
      apply List.map_congr_left
      intro h _
      simp [V1S.shift_shift]
    · intro h hh
      rcases List.mem_append.1 hh with hh | hh
      · obtain ⟨h0, hh0, rfl⟩ := List.mem_map.1 hh
        exact nm_metaK K _ _ _
      · exact e2 h hh
    · rw [hmapG, V1S.patchAll_append_ok _ _ _ _ f5, ← hmapG']
      exact e4
    · simpa [subKey, List.append_assoc] using e5

/-- after the sub-diffs: the hash codes of the members that stay, and of those that are added, are
    the hash codes of the members of the second array -/
theorem keyed_hashes {m : V1.Metas} {o : Opts} {ks : List String} {xs ys : List Json}
    (Hy : KeyedHyp m o ks xs ys) {G : Json → Json} {done : List UInt64} {rem add : List Json}
    (hG : GInv m o ks xs ys G done)
    (hS1 : ∀ x ∈ xs, ∀ y ∈ ys, V1.identOf m x = V1.identOf m y → x.isObj = true →
      V1.identOf m x ∈ done)
    (hR1 : ∀ z ∈ rem, z ∈ xs ∧ V1.identOf m z ∉ ys.map (V1.identOf m))
    (hR3 : ∀ x ∈ xs, V1.identOf m x ∉ ys.map (V1.identOf m) →
      V1.identOf m x ∈ rem.map (V1.identOf m))
    (hA1 : ∀ y ∈ add, y ∈ ys)
    (hA2 : ∀ y ∈ ys, V1.identOf m y ∉ xs.map (V1.identOf m) →
      V1.identOf m y ∈ add.map (V1.identOf m)) :
    ∀ c, ((c ∈ (xs.map G).map (V1.hashCode m) ∧ c ∉ rem.map (V1.hashCode m)) ∨
        c ∈ add.map (V1.hashCode m)) ↔ c ∈ ys.map (V1.hashCode m) := by
  intro c
  constructor
  · rintro (⟨hc, hnr⟩ | hc)
    · obtain ⟨z, hz, rfl⟩ := List.mem_map.1 hc
      obtain ⟨z0, hz0, rfl⟩ := List.mem_map.1 hz
      rcases hG z0 hz0 with h | ⟨kz, kzr, kz', _, _, h3, _, _, h6, _, h8⟩
      · rw [h.1] at hnr ⊢
        by_cases hin : V1.identOf m z0 ∈ ys.map (V1.identOf m)
        · obtain ⟨y, hy, e⟩ := List.mem_map.1 hin
          have hkind := Hy.ksAB z0 hz0 y hy e.symm
          cases hzo : z0.isObj with
          | true => exact absurd (hS1 z0 hz0 y hy e.symm hzo) (h.2 hzo)
          | false =>
            rw [hzo] at hkind
            refine List.mem_map.2 ⟨y, hy, ?_⟩
            rw [← identOf_nonobj m hkind.symm, ← identOf_nonobj m hzo, e]
        · exfalso
          obtain ⟨v, hv, e⟩ := List.mem_map.1 (hR3 z0 hz0 hin)
          have hvx := (hR1 v hv).1
          have hkind := Hy.ksA v hvx z0 hz0 e
          apply hnr
          refine List.mem_map.2 ⟨v, hv, ?_⟩
          cases hzo : z0.isObj with
          | true =>
            rw [hzo] at hkind
            rw [nodup_map_inj Hy.kd (List.mem_filter.2 ⟨hvx, hkind⟩)
              (List.mem_filter.2 ⟨hz0, hzo⟩) e]
          | false =>
            rw [hzo] at hkind
            rw [← identOf_nonobj m hkind, ← identOf_nonobj m hzo, e]
      · rw [h3]
        exact List.mem_map.2 ⟨_, h6, h8.2.1.symm⟩
    · obtain ⟨y, hy, rfl⟩ := List.mem_map.1 hc
      exact List.mem_map_of_mem (hA1 y hy)
  · intro hc
    obtain ⟨y, hy, rfl⟩ := List.mem_map.1 hc
    by_cases hin : V1.identOf m y ∈ xs.map (V1.identOf m)
    · left
      obtain ⟨x1, hx1, e⟩ := List.mem_map.1 hin
      have hkind := Hy.ksAB x1 hx1 y hy e
      cases hxo : x1.isObj with
      | false =>
        rw [hxo] at hkind
        have hh : V1.hashCode m x1 = V1.hashCode m y := by
          rw [← identOf_nonobj m hkind.symm, ← identOf_nonobj m hxo, e]
        have hGx : G x1 = x1 := by
          rcases hG x1 hx1 with h | ⟨kz, _, _, h1, _⟩
          · exact h.1
          · subst h1; simp [Json.isObj] at hxo
        constructor
        · refine List.mem_map.2 ⟨G x1, List.mem_map_of_mem hx1, ?_⟩
          rw [hGx, hh]
        · intro hm
          obtain ⟨v, hv, ev⟩ := List.mem_map.1 hm
          obtain ⟨hvx, hvn⟩ := hR1 v hv
          apply hvn
          rw [(Hy.hAA v hvx x1 hx1 (ev.trans hh.symm)).2, e]
          exact List.mem_map_of_mem hy
      | true =>
        have hd1 := hS1 x1 hx1 y hy e hxo
        rcases hG x1 hx1 with h | ⟨kz, kzr, kz', _, _, h3, _, _, h6, h7, h8⟩
        · exact absurd hd1 (h.2 hxo)
        · have hh : V1.hashCode m (.obj kz') = V1.hashCode m y := Hy.ib _ h6 y hy (h7.trans e)
          constructor
          · refine List.mem_map.2 ⟨G x1, List.mem_map_of_mem hx1, ?_⟩
            rw [h3, h8.2.1, hh]
          · intro hm
            obtain ⟨v, hv, ev⟩ := List.mem_map.1 hm
            obtain ⟨hvx, hvn⟩ := hR1 v hv
            apply hvn
            rw [Hy.hAB v hvx y hy ev]
            exact List.mem_map_of_mem hy
    · right
      obtain ⟨y', hy', e⟩ := List.mem_map.1 (hA2 y hy hin)
      exact List.mem_map.2 ⟨y', hy', Hy.ib y' (hA1 y' hy') y hy e⟩

theorem rem_keys_sublist (m : V1.Metas) :
    ∀ (ps : List (UInt64 × V1.SetPart)),
      (∀ h z, (h, V1.SetPart.removed z) ∈ ps → h = V1.identOf m z) →
      (((ps.filterMap V1S.remOf).map (V1.identOf m))).Sublist (ps.map (·.1))
  | [], _ => by simp
  | (h, .removed z) :: ps, H => by
    have ih := rem_keys_sublist m ps (fun h' z' hm => H h' z' (List.mem_cons_of_mem _ hm))
    have e : h = V1.identOf m z := H h z List.mem_cons_self
    simp only [List.filterMap_cons, V1S.remOf, List.map_cons, ← e]
    exact ih.cons_cons _
  | (h, .sub d) :: ps, H => by
    have ih := rem_keys_sublist m ps (fun h' z' hm => H h' z' (List.mem_cons_of_mem _ hm))
    simp only [List.filterMap_cons, V1S.remOf, List.map_cons]
    exact ih.cons _

/-- an array with the member hash codes of `ys` is `ys` read as a set -/
theorem qr_of_hashes {m : V1.Metas} (hd : V1.dispatchTag m = .set) {t : Tag}
    (ht : t = .raw ∨ t = .set) {zs ys : List Json}
    (h : ∀ c, c ∈ zs.map (V1.hashCode m) ↔ c ∈ ys.map (V1.hashCode m))
    (hin : ∀ z ∈ zs, ∃ y ∈ ys, equivB [.set] z y = true)
    (hcov : ∀ y ∈ ys, ∃ z ∈ zs, equivB [.set] z y = true) :
    QR1 m [.set] (.arr t zs) (.arr .raw ys) := by
  have he : V1.effTag m t = .set := by rcases ht with rfl | rfl <;> simp [V1.effTag, hd]
  have hraw : V1.effTag m .raw = .set := by simp [V1.effTag, hd]
  have key : hsort (hdedup (V1.hashList m zs)) = hsort (hdedup (V1.hashList m ys)) := by
    apply hsort_hdedup_ext
    intro c
    rw [V1S.hashList_eq_map, V1S.hashList_eq_map]
    exact h c
  refine ⟨?_, ?_, ?_⟩
  · simp only [V1.equals, he, V1.dispatch, hd, V1S.hashCode_arr_set, hcombine, key,
      beq_self_eq_true]
  · simp only [V1.hashCode, he, hraw, hcombine, key]
  · simp only [equivB, dispatchTag, Bool.and_eq_true, allIn_iff, allCovered_iff]
    exact ⟨hin, hcov⟩

/-- **one array of keyed members.** -/
theorem set_stepK (F : FloatEq0) {m : V1.Metas} {ks : List String} (K : KMode m ks)
    (xs ys : List Json) (p : List Json) (Hy : KeyedHyp m [.set] ks xs ys) :
    ∃ D r, V1.diffNode m false (.arr .raw xs) (.arr .raw ys) p = D.map (shift p) ∧
      (∀ h ∈ D, NM h) ∧ V1.patchAll (.arr .raw xs) D = .ok r ∧
      QR1 m [.set] r (.arr .raw ys) := by
  have hd := K.tag
  have hperm := ksort_perm (V1.diffSetElems m false p ys xs)
  have hps : ∀ kp ∈ ksort (V1.diffSetElems m false p ys xs),
      kp ∈ V1.diffSetElems m false p ys xs := fun kp h => hperm.mem_iff.1 h
  have hnd : ((ksort (V1.diffSetElems m false p ys xs)).map (·.1)).Nodup :=
    ((hperm.map (·.1)).nodup_iff).2 (parts_keys_nodup m false p ys xs)
  obtain ⟨D1, G, t1, e1, e2, e3, e4, e5⟩ := subs_apply K xs ys p Hy _ hps hnd id [] .raw
    (Or.inl rfl) (fun x _ => Or.inl ⟨rfl, fun _ h => by cases h⟩) (fun _ _ h => by cases h)
  rw [List.map_id] at e4
  rw [List.nil_append] at e5
  -- the removed and the added members
  have hR1 : ∀ z ∈ (ksort (V1.diffSetElems m false p ys xs)).filterMap V1S.remOf,
      z ∈ xs ∧ V1.identOf m z ∉ ys.map (V1.identOf m) := by
    intro z hz
    obtain ⟨⟨h, part⟩, hkp, e⟩ := List.mem_filterMap.1 hz
    cases part with
    | sub d => simp [V1S.remOf] at e
    | removed w =>
      simp only [V1S.remOf, Option.some.injEq] at e
      subst e
      obtain ⟨hw, rfl, hny⟩ := absent_of_removed m false p ys xs h w (hps _ hkp)
      exact ⟨hw, hny⟩
  have hR2 : (((ksort (V1.diffSetElems m false p ys xs)).filterMap V1S.remOf).map
      (V1.identOf m)).Nodup :=
    (rem_keys_sublist m _ (fun h z hm =>
      (absent_of_removed m false p ys xs h z (hps _ hm)).2.1)).nodup hnd
  have hR3 : ∀ x ∈ xs, V1.identOf m x ∉ ys.map (V1.identOf m) →
      V1.identOf m x ∈ ((ksort (V1.diffSetElems m false p ys xs)).filterMap V1S.remOf).map
        (V1.identOf m) := by
    intro x hx hn
    obtain ⟨z, hz⟩ := removed_of_absent m false p ys xs _ (List.mem_map_of_mem hx) hn
    have hzi := (absent_of_removed m false p ys xs _ z hz).2.1
    rw [hzi]
    exact List.mem_map_of_mem (List.mem_filterMap.2 ⟨_, hperm.mem_iff.2 hz, rfl⟩)
  obtain ⟨hA1, hA2'⟩ := V1S.setAdd_spec m xs ys
  have hA2 : ∀ y ∈ ys, V1.identOf m y ∉ xs.map (V1.identOf m) →
      V1.identOf m y ∈ (V1S.setAdd m xs ys).map (V1.identOf m) :=
    fun y hy hn => (hA2' _).2 ⟨List.mem_map_of_mem hy, hn⟩
  have hS1 : ∀ x ∈ xs, ∀ y ∈ ys, V1.identOf m x = V1.identOf m y → x.isObj = true →
      V1.identOf m x ∈ (ksort (V1.diffSetElems m false p ys xs)).filterMap subKey := by
    intro x hx y hy e hxo
    obtain ⟨x1, hx1, y1, hy1, i1, i2, hpart⟩ := matched_of_present m false p ys xs
      (V1.identOf m x) (List.mem_map_of_mem hx) (e ▸ List.mem_map_of_mem hy)
    have k1 : x1.isObj = true := (Hy.ksA x1 hx1 x hx i1).trans hxo
    have k2 : y1.isObj = true := (Hy.ksAB x1 hx1 y1 hy1 (i1.trans i2.symm)).symm.trans k1
    cases x1 with
    | obj kvs =>
      cases y1 with
      | obj kvs' =>
        exact List.mem_filterMap.2 ⟨_, hperm.mem_iff.2 (hpart kvs kvs' rfl rfl), rfl⟩
      | _ => simp [Json.isObj] at k2
    | _ => simp [Json.isObj] at k1
  have KC := keyed_hashes Hy e5 hS1 hR1 hR3 hA1 hA2
  -- what stands in the place of a member is equivalent to any target member with its hash code
  have hmemEq : ∀ z0 ∈ xs, ∀ y ∈ ys, V1.hashCode m (G z0) = V1.hashCode m y →
      equivB [.set] (G z0) y = true := by
    intro z0 hz0 y hy e
    rcases e5 z0 hz0 with h | ⟨_, _, kz', _, _, h3, _, _, h6, _, h8⟩
    · rw [h.1] at e ⊢
      exact Hy.eqAB z0 hz0 y hy e
    · rw [h3] at e ⊢
      exact DPK.equivB_trans_right F (o := [.set]) rfl rfl _ _ _ (Hy.docB _ h6) (Hy.docB y hy)
        h8.2.2 (Hy.eqBB _ h6 y hy (h8.2.1.symm.trans e))
  have hdiff := V1S.diffNode_set_set hd xs ys p
  rw [e1] at hdiff
  generalize (ksort (V1.diffSetElems m false p ys xs)).filterMap V1S.remOf = rem
    at hR1 hR2 hR3 KC hdiff
  generalize V1S.setAdd m xs ys = add at hA1 hA2 KC hdiff
  by_cases hemp : (rem.isEmpty && add.isEmpty) = true
  · rw [if_pos hemp, List.append_nil] at hdiff
    simp only [Bool.and_eq_true, List.isEmpty_iff] at hemp
    obtain ⟨rfl, rfl⟩ := hemp
    have KC' : ∀ c, c ∈ (xs.map G).map (V1.hashCode m) ↔ c ∈ ys.map (V1.hashCode m) := by
      intro c
      have := KC c
      simpa using this
    refine ⟨D1, _, hdiff, e2, e4, qr_of_hashes hd e3 KC' ?_ ?_⟩
    · intro z hz
      obtain ⟨z0, hz0, rfl⟩ := List.mem_map.1 hz
      obtain ⟨y, hy, e⟩ :=
        List.mem_map.1 ((KC' _).1 (List.mem_map_of_mem (f := V1.hashCode m) hz))
      exact ⟨y, hy, hmemEq z0 hz0 y hy e.symm⟩
    · intro y hy
      obtain ⟨z, hz, e⟩ :=
        List.mem_map.1 ((KC' _).2 (List.mem_map_of_mem (f := V1.hashCode m) hy))
      obtain ⟨z0, hz0, rfl⟩ := List.mem_map.1 hz
      exact ⟨_, hz, hmemEq z0 hz0 y hy e⟩
  · rw [if_neg hemp] at hdiff
    -- the leaf hunk
    have hfun : V1.identOf (pm m) = V1.hashCode m := pm_ident K
    have hGrem : ∀ v ∈ rem, G v = v := by
      intro v hv
      rcases e5 v (hR1 v hv).1 with h | ⟨_, _, kz', _, _, _, _, _, h6, h7, _⟩
      · exact h.1
      · exact absurd (h7 ▸ List.mem_map_of_mem h6) (hR1 v hv).2
    obtain ⟨zs, l1, l2, l3⟩ := patchSetLeaf_idents' (mm := pm m) (s := xs.map G)
      (remove := rem) (add := add)
      (by
        intro dd hdd v hv e
        rw [hfun] at e
        obtain ⟨z0, hz0, rfl⟩ := List.mem_map.1 hdd
        obtain ⟨hvx, hvn⟩ := hR1 v hv
        rw [pm_equals K]
        rcases e5 z0 hz0 with h | ⟨_, _, kz', _, _, h3, _, _, h6, _, h8⟩
        · rw [h.1] at e ⊢
          exact (Hy.hAA z0 hz0 v hvx e).1
        · exfalso
          apply hvn
          rw [h3, h8.2.1] at e
          rw [Hy.hAB v hvx _ h6 e.symm]
          exact List.mem_map_of_mem h6)
      (by
        intro v hv
        rw [hfun]
        refine List.mem_map.2 ⟨G v, List.mem_map_of_mem (hR1 v hv).1, ?_⟩
        rw [hGrem v hv])
      (by
        rw [hfun]
        exact nodup_map_of hR2 (fun a ha b hb e =>
          (Hy.hAA a (hR1 a ha).1 b (hR1 b hb).1 e).2))
    rw [hfun] at l3
    have KC' : ∀ c, c ∈ zs.map (V1.hashCode m) ↔ c ∈ ys.map (V1.hashCode m) :=
      fun c => by rw [l3 c]; exact KC c
    have hzsEq : ∀ z ∈ zs, ∀ y ∈ ys, V1.hashCode m z = V1.hashCode m y →
        equivB [.set] z y = true := by
      intro z hz y hy e
      rcases l2 z hz with h | h
      · obtain ⟨z0, hz0, rfl⟩ := List.mem_map.1 h
        exact hmemEq z0 hz0 y hy e
      · exact Hy.eqBB z (hA1 z h) y hy e
    have hnm : NM { path := [.arr .raw (metaItems m), .obj []], old := rem, new := add } :=
      nm_metaK K _ _ _
    refine ⟨D1 ++ [{ path := [.arr .raw (metaItems m), .obj []], old := rem, new := add }],
      .arr .set zs, ?_, ?_, ?_, qr_of_hashes hd (Or.inr rfl) KC' ?_ ?_⟩
    · rw [hdiff, V1S.appendIndex_eq]; simp [shift]
    · intro h hh
      rcases List.mem_append.1 hh with hh | hh
      · exact e2 h hh
      · simp only [List.mem_singleton] at hh; subst hh; exact hnm
    · rw [V1S.patchAll_append_ok _ _ _ _ e4]
      apply V1S.patchAll_single _ _ hnm
      show V1.patchNode false (.arr t1 (xs.map G))
        (V1.liftPath [.arr .raw (metaItems m), .obj []]) rem add = _
      rw [patchNode_set_leafK K t1 e3, l1]
    · intro z hz
      obtain ⟨y, hy, e⟩ :=
        List.mem_map.1 ((KC' _).1 (List.mem_map_of_mem (f := V1.hashCode m) hz))
      exact ⟨y, hy, hzsEq z hz y hy e.symm⟩
    · intro y hy
      obtain ⟨z, hz, e⟩ :=
        List.mem_map.1 ((KC' _).2 (List.mem_map_of_mem (f := V1.hashCode m) hy))
      exact ⟨z, hz, hzsEq z hz y hy e⟩

/-! ## 2.6 the hypotheses of the theorem (decidable), and the main induction -/

/-- the object members of the array node have pairwise distinct identities -/
def nodeKeyedDistinct (m : V1.Metas) : Json → Bool
  | .arr _ xs => decide (((xs.filter Json.isObj).map (V1.identOf m)).Nodup)
  | _ => true

/-- in every array node among `S` the object members have pairwise distinct identities: the array
    is a set of entities identified by their keys, none listed twice -/
def KeyedDistinct (m : V1.Metas) (S : List Json) : Prop := ∀ n ∈ S, nodeKeyedDistinct m n = true

/-- every object member of the array node carries at least one of the set keys -/
def nodeHasKey (ks : List String) : Json → Bool
  | .arr _ xs => xs.all fun x =>
    match x with
    | .obj kvs => !(pathObjK ks kvs).isEmpty
    | _ => true
  | _ => true

def HasKey (ks : List String) (S : List Json) : Prop := ∀ n ∈ S, nodeHasKey ks n = true

/-- among the object members of the array node, the keyed lookup of `jsonSet.patch` for the path
    object of a member hits only members with the identity of that member -/
def nodePathFaithful (m : V1.Metas) (ks : List String) : Json → Bool
  | .arr _ xs => xs.all fun x => xs.all fun z =>
    match x, z with
    | .obj kvs, .obj _ =>
      !(matchP m (pathObjK ks kvs) z) || V1.identOf m z == V1.identOf m x
    | _, _ => true
  | _ => true

def PathFaithful (m : V1.Metas) (ks : List String) (S : List Json) : Prop :=
  ∀ n ∈ S, nodePathFaithful m ks n = true

/-- two objects with the same identity have, key by key, values with the same hash code (and lack the
    same keys): the negation is the class of KF-C01-identperm (and of plain collisions of the identity) -/
def keyTupleOK (m : V1.Metas) (ks : List String) (x y : Json) : Bool :=
  match x, y with
  | .obj kvs, .obj kvs' =>
    V1.identOf m x != V1.identOf m y ||
      ks.all fun k => (alookup k kvs).map (V1.hashCode m) == (alookup k kvs').map (V1.hashCode m)
  | _, _ => true

def KeyTuple (m : V1.Metas) (ks : List String) (SA SB : List Json) : Prop :=
  ∀ x ∈ SA, ∀ y ∈ SB, keyTupleOK m ks x y = true

/-- no object has the identity of a non-object (a collision class) -/
def KindSepI (m : V1.Metas) (SA S : List Json) : Prop :=
  ∀ x ∈ SA, ∀ y ∈ S, V1.identOf m x = V1.identOf m y → x.isObj = y.isObj

/-- the members of one array node are told apart by their identities: two members with the same
    identity (the same values under the set keys) have the same hash code -/
def nodeIdentInj (m : V1.Metas) : Json → Bool
  | .arr _ xs =>
    xs.all fun x => xs.all fun x' =>
      V1.identOf m x != V1.identOf m x' || V1.hashCode m x == V1.hashCode m x'
  | _ => true

def IdentInj (m : V1.Metas) (S : List Json) : Prop := ∀ n ∈ S, nodeIdentInj m n = true

section Main
variable {m : V1.Metas} {ks : List String}

theorem k_hash (K : KMode m ks) : V1.hashCode m = V1.hashCode [.set] := by
  funext x; exact V1S.hashCode_congr (by rw [K.tag]; rfl) x

theorem k_equals (K : KMode m ks) : V1.equals m = V1.equals [.set] := by
  funext x y; exact V1S.equals_congr (by rw [K.tag]; rfl) (by rw [K.prec0]; rfl) x y

theorem M0 : V1S.Mode [.set] [.set] := V1S.SetMode.single.mode

theorem k_hf (K : KMode m ks) {S : List Json} (HF : V1S.HashFaithful m [.set] S) :
    V1S.HashFaithful [.set] [.set] S := by
  intro x hx y hy e
  rw [← k_hash K] at e
  exact HF x hx y hy e

/-- equivalent objects have the same identity under the set keys -/
theorem ident_eq_of_equivB (F : FloatEq0) (K : KMode m ks) {kvs kvs' : List (String × Json)}
    (ha : DocOk (.obj kvs)) (hb : DocOk (.obj kvs'))
    (h : equivB [.set] (.obj kvs) (.obj kvs') = true) :
    V1.identOf m (.obj kvs) = V1.identOf m (.obj kvs') := by
  have hs := ha.sorted
  have hs' := hb.sorted
  simp only [equivB, Bool.and_eq_true, beq_iff_eq, equivKvs_eq_lookAll, lookAll_iff] at h
  have hflip := AllLook.flip hs hs' h.1 h.2
  have key : ∀ l : List String, V1.identKeyHashes m kvs l = V1.identKeyHashes m kvs' l := by
    intro l
    induction l with
    | nil => rfl
    | cons k r ihr =>
      simp only [V1.identKeyHashes, ihr]
      cases e : alookup k kvs with
      | some v =>
        obtain ⟨v', hl, he⟩ := h.2 k v (mem_of_alookup e)
        rw [hl]
        simp only [k_hash K, V1S.equivB_hash_core F M0 v v' (ha.val (mem_of_alookup e))
          (hb.val (mem_of_alookup hl)) he]
      | none =>
        cases e' : alookup k kvs' with
        | none => rfl
        | some v' =>
          obtain ⟨v, hl, _⟩ := hflip k v' (mem_of_alookup e')
          rw [e] at hl
          cases hl
  simp only [V1.identOf, V1.identObj, K.keys, K.nonempty, key, Bool.false_eq_true, if_false]

/-- equal hash codes: `Equals`, equivalence, and the same identity -/
theorem hash_facts (F : FloatEq0) (K : KMode m ks) {S : List Json}
    (HF : V1S.HashFaithful m [.set] S) {x y : Json} (dx : DocOk x) (dy : DocOk y)
    (wx : Within S x) (wy : Within S y) (e : V1.hashCode m x = V1.hashCode m y) :
    V1.equals m x y = true ∧ V1.identOf m x = V1.identOf m y := by
  have heqv : equivB [.set] x y = true := HF x wx.self y wy.self e
  have heq : V1.equals m x y = true := by
    rw [k_equals K, V1S.equals_eq_equivB_of F M0 (k_hf K HF) dx dy wx wy]
    exact heqv
  refine ⟨heq, ?_⟩
  have hkind := DPK.equivB_isObj heqv
  cases x with
  | obj kvs =>
    cases y with
    | obj kvs' => exact ident_eq_of_equivB F K dx dy heqv
    | _ => simp [Json.isObj] at hkind
  | _ =>
    have hy : y.isObj = false := by rw [← hkind]; rfl
    rw [identOf_nonobj m rfl, identOf_nonobj m hy, e]

/-- members with the same identity in one array node of `SB` have the same hash code -/
theorem IdentInj.apply {SB : List Json} (h : IdentInj m SB) {t : Tag} {xs : List Json}
    (hn : Json.arr t xs ∈ SB) {x x' : Json} (hx : x ∈ xs) (hx' : x' ∈ xs)
    (e : V1.identOf m x = V1.identOf m x') : V1.hashCode m x = V1.hashCode m x' := by
  have := h _ hn
  simp only [nodeIdentInj, List.all_eq_true, Bool.or_eq_true, bne_iff_ne, ne_eq,
    beq_iff_eq] at this
  rcases this x hx x' hx' with h | h
  · exact absurd e h
  · exact h

/-- **equivalent documents have an EMPTY keyed diff** (SET + setkeys, strict strategy): among the
    nodes `S` equal hash codes only for equivalent nodes, in the arrays of the second document
    members with the same identity have the same hash code -/
theorem diffNode_nil_of_equivB_K (F : FloatEq0) (K : KMode m ks) {S SB : List Json}
    (HF : V1S.HashFaithful m [.set] S) (IB : IdentInj m SB) :
    ∀ a b, DocOk a → DocOk b → Within S a → Within S b → Within SB b →
      equivB [.set] a b = true → ∀ p, V1.diffNode m false a b p = [] := by
  have scalar : ∀ a b : Json, (∀ t xs, a ≠ .arr t xs) → (∀ kvs, a ≠ .obj kvs) →
      equivB [.set] a b = true → ∀ p, V1.diffNode m false a b p = [] := by
    intro a b h1 h2 h p
    rw [V1P.diffNode_scalar m a b h1 h2 p, V1S.diffCommon_nil_iff,
      ← V1S.equivB_scalar_equals (m := m) (o := [.set]) rfl K.prec0 h1 h2]
    exact h
  intro a
  induction a using jsonInd with
  | void => intro b _ _ _ _ _ h; exact scalar _ b (fun _ _ e => by cases e) (fun _ e => by cases e) h
  | null => intro b _ _ _ _ _ h; exact scalar _ b (fun _ _ e => by cases e) (fun _ e => by cases e) h
  | bool x => intro b _ _ _ _ _ h; exact scalar _ b (fun _ _ e => by cases e) (fun _ e => by cases e) h
  | num x => intro b _ _ _ _ _ h; exact scalar _ b (fun _ _ e => by cases e) (fun _ e => by cases e) h
  | str x => intro b _ _ _ _ _ h; exact scalar _ b (fun _ _ e => by cases e) (fun _ e => by cases e) h
  | arr t xs ih =>
    intro b ha hb wa wb wb' h p
    cases b with
    | arr t' ys =>
      have ht := ha.raw
      have ht' := hb.raw
      subst ht ht'
      simp only [equivB, dispatchTag, Bool.and_eq_true, allIn_iff, allCovered_iff] at h
      -- equivalent members have the same identity
      have hident : ∀ x ∈ xs, ∀ y ∈ ys, equivB [.set] x y = true →
          V1.identOf m x = V1.identOf m y := by
        intro x hx y hy e
        have hh : V1.hashCode m x = V1.hashCode m y := by
          rw [k_hash K]
          exact V1S.equivB_hash_core F M0 x y (ha.elem hx) (hb.elem hy) e
        exact (hash_facts F K HF (ha.elem hx) (hb.elem hy) (wa.elem hx) (wb.elem hy) hh).2
      have hperm := ksort_perm (V1.diffSetElems m false p ys xs)
      have hsubs : (ksort (V1.diffSetElems m false p ys xs)).flatMap V1S.subOf = [] := by
        rw [List.flatMap_eq_nil_iff]
        intro kp hkp
        have hkp' := hperm.mem_iff.1 hkp
        obtain ⟨c, part⟩ := kp
        cases part with
        | removed z => rfl
        | sub d =>
          obtain ⟨kvs, kvs', hx, hy', _, hid, hdd⟩ := sub_origin m false p ys xs c d hkp'
          obtain ⟨y, hy, e⟩ := h.1 _ hx
          have hiy : V1.identOf m y = V1.identOf m (.obj kvs') :=
            (hident _ hx y hy e).symm.trans hid.symm
          have hhy : V1.hashCode m y = V1.hashCode m (.obj kvs') :=
            IB.apply wb'.self hy hy' hiy
          have e2 : equivB [.set] y (.obj kvs') = true :=
            HF y (wb.elem hy).self _ (wb.elem hy').self hhy
          have e3 : equivB [.set] (.obj kvs) (.obj kvs') = true :=
            DPK.equivB_trans_right F (o := [.set]) rfl rfl _ _ _ (hb.elem hy) (hb.elem hy') e e2
          simp only [V1S.subOf, hdd]
          exact ih _ hx _ (ha.elem hx) (hb.elem hy') (wa.elem hx) (wb.elem hy')
            (fun z hz => wb' z (subterms_elem_sub hy' hz)) e3 _
      have hrem : (ksort (V1.diffSetElems m false p ys xs)).filterMap V1S.remOf = [] := by
        rw [List.eq_nil_iff_forall_not_mem]
        intro z hz
        obtain ⟨⟨c, part⟩, hkp, e⟩ := List.mem_filterMap.1 hz
        cases part with
        | sub d => simp [V1S.remOf] at e
        | removed w =>
          simp only [V1S.remOf, Option.some.injEq] at e
          subst e
          obtain ⟨hw, rfl, hny⟩ := absent_of_removed m false p ys xs c w (hperm.mem_iff.1 hkp)
          obtain ⟨y, hy, e⟩ := h.1 w hw
          exact hny (hident w hw y hy e ▸ List.mem_map_of_mem hy)
      have hadd : V1S.setAdd m xs ys = [] := by
        rw [List.eq_nil_iff_forall_not_mem]
        intro z hz
        obtain ⟨_, b2⟩ := V1S.setAdd_spec m xs ys
        obtain ⟨h1, h2⟩ := (b2 _).1 (List.mem_map_of_mem (f := V1.identOf m) hz)
        obtain ⟨y, hy, ey⟩ := List.mem_map.1 h1
        obtain ⟨x, hx, e⟩ := h.2 y hy
        apply h2
        rw [← ey, ← hident x hx y hy e]
        exact List.mem_map_of_mem hx
      rw [V1S.diffNode_set_set K.tag, hsubs, hrem, hadd]
      rfl
    | _ => simp [equivB] at h
  | obj kvs ih =>
    intro b ha hb wa wb wb' h p
    cases b with
    | obj kvs' =>
      have hs := ha.sorted
      have hs' := hb.sorted
      simp only [equivB, Bool.and_eq_true, beq_iff_eq, equivKvs_eq_lookAll, lookAll_iff] at h
      have hflip := AllLook.flip hs hs' h.1 h.2
      have hkv : ∀ r : List (String × Json), (∀ kv ∈ r, kv ∈ kvs) →
          V1.diffKvs m false p kvs' r = [] := by
        intro r
        induction r with
        | nil => intro _; exact V1P.diffKvs_nil m p kvs'
        | cons kv r ihr =>
          intro hsub
          obtain ⟨k, v⟩ := kv
          have hm1 : (k, v) ∈ kvs := hsub _ List.mem_cons_self
          obtain ⟨v', hl, he⟩ := h.2 k v hm1
          have hm2 := mem_of_alookup hl
          rw [V1P.diffKvs_cons, ihr (fun kv hh => hsub kv (List.mem_cons_of_mem _ hh)), hl]
          simp only [List.append_nil]
          exact ih k v hm1 v' (ha.val hm1) (hb.val hm2) (wa.val hm1) (wb.val hm2)
            (fun z hz => wb' z (subterms_val_sub hm2 hz)) he _
      rw [V1P.diffNode_obj_obj, hkv kvs (fun _ hh => hh),
        filter_added_nil (kvs := kvs) (kvs' := kvs') (fun k' v' hm' => by
          obtain ⟨w, hl, _⟩ := hflip k' v' hm'
          simp [hl])]
      rfl
    | _ => simp [equivB] at h

theorem qr_refl (F : FloatEq0) (L : FloatLaws) (K : KMode m ks) {S : List Json}
    (HF : V1S.HashFaithful m [.set] S) {b : Json} (hb : Ok b) (wb : Within S b) :
    QR1 m [.set] b b := by
  obtain ⟨e1, e2⟩ := V1S.refl_both F L M0 (k_hf K HF) hb wb
  exact ⟨by rw [k_equals K]; exact e2, rfl, e1⟩

theorem replace_stepK (F : FloatEq0) (L : FloatLaws) (K : KMode m ks) {S : List Json}
    (HF : V1S.HashFaithful m [.set] S)
    {a b : Json} (ha : Ok a) (hb : Ok b) (wb : Within S b)
    (hno : a.isObj = false ∨ b.isObj = false) (p : List Json) (addl : List Json)
    (hl : addl.length ≤ 1) (hs : Json.singleValue addl = b)
    (hdiff : V1.diffNode m false a b p = [{ path := p, old := a.nodeList, new := addl }]) :
    StepK m [.set] ks a b p := by
  refine ⟨[{ path := [], old := a.nodeList, new := addl }], b, ?_, ?_, ?_,
    qr_refl F L K HF hb wb, ?_⟩
  · rw [hdiff]; simp [shift]
  · intro h hh
    simp only [List.mem_singleton] at hh
    subst hh; exact V1S.nm_nil _ _
  · rw [V1S.patch_replace L ha addl hl, hs]
  · intro kvs kvs' e1 e2
    subst e1 e2
    simp [Json.isObj] at hno

theorem scalar_stepK (F : FloatEq0) (L : FloatLaws) (K : KMode m ks) {S : List Json}
    (HF : V1S.HashFaithful m [.set] S)
    {a b : Json} (h1 : ∀ t xs, a ≠ .arr t xs)
    (h2 : ∀ kvs, a ≠ .obj kvs) (ha : Ok a) (hb : Ok b) (wb : Within S b) (p : List Json) :
    StepK m [.set] ks a b p := by
  have hdf := V1P.diffNode_scalar m a b h1 h2 p
  have hao : a.isObj = false := by
    cases a with
    | obj kvs => exact absurd rfl (h2 kvs)
    | _ => rfl
  by_cases he : V1.equals m a b = true
  · have heqv : equivB [.set] a b = true := by
      rw [V1S.equivB_scalar_equals (m := m) (o := [.set]) rfl K.prec0 h1 h2]; exact he
    refine ⟨[], a, ?_, by simp, rfl,
      ⟨he, by rw [k_hash K]; exact V1S.equivB_hash_core F M0 a b ha.docOk hb.docOk heqv, heqv⟩, ?_⟩
    · rw [hdf]; simp [V1.diffCommon, he]
    · intro kvs _ e; exact absurd e (h2 kvs)
  · apply replace_stepK F L K HF ha hb wb (Or.inl hao) p b.nodeList
      (V1S.nodeList_length_le b) (V1S.singleValue_nodeList b)
    rw [hdf]; simp [V1.diffCommon, he]

/-- where the hunks of the first loop of `jsonObject.diff` come from -/
theorem diffKvs_origin (m : V1.Metas) (p : List Json) (kvs' : List (String × Json)) :
    ∀ (r : List (String × Json)) (h : V1.Hunk), h ∈ V1.diffKvs m false p kvs' r →
      ∃ k v, (k, v) ∈ r ∧
        match alookup k kvs' with
        | none => h.path = p ++ [.str k]
        | some v' => h ∈ V1.diffNode m false v v' (p ++ [.str k])
  | [], h, hm => by simp [V1P.diffKvs_nil] at hm
  | (k, v) :: r, h, hm => by
    rw [V1P.diffKvs_cons, List.mem_append] at hm
    rcases hm with hm | hm
    · refine ⟨k, v, List.mem_cons_self, ?_⟩
      cases hl : alookup k kvs' with
      | none =>
        rw [hl] at hm
        simp at hm
        simp [hm]
      | some v' => rw [hl] at hm; exact hm
    · obtain ⟨k0, v0, h1, h2⟩ := diffKvs_origin m p kvs' r h hm
      exact ⟨k0, v0, List.mem_cons_of_mem _ h1, h2⟩

/-- the hypotheses on the two documents (all decidable; see the header) -/
structure KeysHyp (m : V1.Metas) (ks : List String) (a0 b0 : Json) : Prop where
  hf : V1S.HashFaithful m [.set] (subterms a0 ++ subterms b0)
  kd : KeyedDistinct m (subterms a0)
  hk : HasKey ks (subterms a0)
  ksep : KindSepI m (subterms a0) (subterms a0 ++ subterms b0)
  ib : IdentInj m (subterms b0)
  pf : PathFaithful m ks (subterms a0)
  kt : KeyTuple m ks (subterms a0) (subterms b0)

theorem node_stepK (F : FloatEq0) (L : FloatLaws) (K : KMode m ks)
    {a0 b0 : Json} (H : KeysHyp m ks a0 b0) :
    ∀ a b, Ok a → Ok b → Within (subterms a0) a → Within (subterms b0) b →
      ∀ p, StepK m [.set] ks a b p := by
  have WA : ∀ {x : Json}, Within (subterms a0) x → Within (subterms a0 ++ subterms b0) x :=
    fun w z hz => List.mem_append.2 (Or.inl (w z hz))
  have WB : ∀ {x : Json}, Within (subterms b0) x → Within (subterms a0 ++ subterms b0) x :=
    fun w z hz => List.mem_append.2 (Or.inr (w z hz))
  intro a
  induction a using jsonInd with
  | void =>
    intro b ha hb _ wb p
    exact scalar_stepK F L K H.hf (fun _ _ e => by cases e) (fun _ e => by cases e) ha hb (WB wb) p
  | null =>
    intro b ha hb _ wb p
    exact scalar_stepK F L K H.hf (fun _ _ e => by cases e) (fun _ e => by cases e) ha hb (WB wb) p
  | bool x =>
    intro b ha hb _ wb p
    exact scalar_stepK F L K H.hf (fun _ _ e => by cases e) (fun _ e => by cases e) ha hb (WB wb) p
  | num x =>
    intro b ha hb _ wb p
    exact scalar_stepK F L K H.hf (fun _ _ e => by cases e) (fun _ e => by cases e) ha hb (WB wb) p
  | str x =>
    intro b ha hb _ wb p
    exact scalar_stepK F L K H.hf (fun _ _ e => by cases e) (fun _ e => by cases e) ha hb (WB wb) p
  | arr t xs ih =>
    intro b ha hb wa wb p
    have ht := ha.raw
    subst ht
    cases b with
    | arr t' ys =>
      have ht' := hb.raw
      subst ht'
      have Hy : KeyedHyp m [.set] ks xs ys := {
        sortedA := fun kvs hx => (ha.elem hx).sorted
        hasKey := by
          intro kvs hx
          have := H.hk _ wa.self
          simp only [nodeHasKey, List.all_eq_true] at this
          simpa using this _ hx
        kd := by
          have := H.kd _ wa.self
          simpa [nodeKeyedDistinct] using this
        ksA := fun x hx x' hx' e =>
          H.ksep x (wa.elem hx).self x' (List.mem_append.2 (Or.inl (wa.elem hx').self)) e
        ksAB := fun x hx y hy e =>
          H.ksep x (wa.elem hx).self y (List.mem_append.2 (Or.inr (wb.elem hy).self)) e
        ib := by
          intro y hy y' hy' e
          have := H.ib _ wb.self
          simp only [nodeIdentInj, List.all_eq_true, Bool.or_eq_true, bne_iff_ne, ne_eq,
            beq_iff_eq] at this
          rcases this y hy y' hy' with h | h
          · exact absurd e h
          · exact h
        pf := by
          intro kvs kz hx hz e
          have := H.pf _ wa.self
          simp only [nodePathFaithful, List.all_eq_true] at this
          have h2 := this _ hx _ hz
          simp only [Bool.or_eq_true, Bool.not_eq_true', beq_iff_eq] at h2
          rcases h2 with h2 | h2
          · rw [h2] at e; cases e
          · exact h2
        hAA := fun x hx x' hx' e => hash_facts F K H.hf (ha.elem hx).docOk (ha.elem hx').docOk
          (WA (wa.elem hx)) (WA (wa.elem hx')) e
        hAB := fun x hx y hy e => (hash_facts F K H.hf (ha.elem hx).docOk (hb.elem hy).docOk
          (WA (wa.elem hx)) (WB (wb.elem hy)) e).2
        eqAB := fun x hx y hy e => H.hf x (WA (wa.elem hx)).self y (WB (wb.elem hy)).self e
        eqBB := fun y hy y' hy' e => H.hf y (WB (wb.elem hy)).self y' (WB (wb.elem hy')).self e
        docB := fun y hy => (hb.elem hy).docOk
        sub := by
          intro kvs kvs' hx hy hid q
          obtain ⟨D, r, h1, h2, h3, h4, h5⟩ := ih _ hx _ (ha.elem hx) (hb.elem hy) (wa.elem hx)
            (wb.elem hy) q
          refine ⟨D, r, h1, h5 kvs kvs' rfl rfl (fun k hkk => ?_), h3, h4⟩
          have := H.kt _ (wa.elem hx).self _ (wb.elem hy).self
          simp only [keyTupleOK, Bool.or_eq_true, bne_iff_ne, ne_eq, List.all_eq_true,
            beq_iff_eq] at this
          rcases this with h | h
          · exact absurd hid.symm h
          · exact h k hkk }
      obtain ⟨D, r, h1, h2, h3, h4⟩ := set_stepK F K xs ys p Hy
      exact ⟨D, r, h1, h2, h3, h4, fun _ _ e => by cases e⟩
    | _ =>
      refine replace_stepK F L K H.hf ha hb (WB wb) (Or.inl rfl) p _
        (V1S.nodeList_length_le _) (V1S.singleValue_nodeList _) ?_
      rw [V1S.diffNode_arr_other (Or.inl K.tag) xs _ (fun _ _ e => by cases e) p]
      rfl
  | obj kvs ih =>
    intro b ha hb wa wb p
    cases b with
    | obj kvs' =>
      have hsa := ha.sorted
      have hsb := hb.sorted
      obtain ⟨D1, cur1, e1, m1, h1, hs1, hother1, hmem1⟩ := kvs_stepK L m [.set] kvs' hb p kvs
        (fun k v hm => ⟨(ha.val hm).1, (ha.val hm).2, fun v' hl q => by
          obtain ⟨D0, r0, d1, d2, d3, d4, _⟩ := ih k v hm v' (ha.val hm).1 (hb.lookup hl).1
            (wa.val hm) (wb.val (mem_of_alookup hl)) q
          exact ⟨D0, r0, d1, d2, d3, d4⟩⟩)
        hsa kvs hsa (fun k v hm => alookup_of_mem hsa hm)
      obtain ⟨cur2, h2, hs2, hother2, hmem2⟩ := V1S.patch_adds L
        (fun k => (alookup k kvs).isNone)
        kvs' hsb (fun k v hm => (hb.val hm).2) cur1 hs1 (fun k v' _ hP => by
          have hkn : alookup k kvs = none := by simpa using hP
          rw [hother1 k (fun v hm => by rw [alookup_of_mem hsa hm] at hkn; cases hkn), hkn])
      have hfin : ∀ k, match alookup k kvs' with
          | none => alookup k cur2 = none
          | some v' => ∃ z, alookup k cur2 = some z ∧ QR1 m [.set] z v' := by
        intro k
        cases hlk' : alookup k kvs' with
        | some v' =>
          simp only []
          have hm' := mem_of_alookup hlk'
          cases hlk : alookup k kvs with
          | none =>
            exact ⟨v', hmem2 k v' hm' (by simp [hlk]),
              qr_refl F L K H.hf (hb.val hm').1 (WB (wb.val hm'))⟩
          | some v =>
            have := hmem1 k v (mem_of_alookup hlk)
            rw [hlk'] at this
            obtain ⟨z, hz, hr⟩ := this
            refine ⟨z, ?_, hr⟩
            rw [hother2 k (fun _ _ => by simp [hlk]), hz]
        | none =>
          simp only []
          rw [hother2 k (fun v' hm => by rw [alookup_of_mem hsb hm] at hlk'; cases hlk')]
          cases hlk : alookup k kvs with
          | none =>
            rw [hother1 k (fun v hm => by rw [alookup_of_mem hsa hm] at hlk; cases hlk), hlk]
          | some v =>
            have := hmem1 k v (mem_of_alookup hlk)
            rw [hlk'] at this
            exact this
      have hdiff : V1.diffNode m false (.obj kvs) (.obj kvs') p =
          (D1 ++ (kvs'.filter (fun kv => (alookup kv.1 kvs).isNone)).map V1S.addHunk).map
            (shift p) := by
        rw [V1P.diffNode_obj_obj, e1, List.map_append, List.map_map]
        congr 1
      refine ⟨D1 ++ (kvs'.filter (fun kv => (alookup kv.1 kvs).isNone)).map V1S.addHunk,
        .obj cur2, hdiff, ?_, ?_, obj_resultK hs2 hsb hfin, ?_⟩
      · intro h hh
        rcases List.mem_append.1 hh with hh | hh
        · exact m1 h hh
        · obtain ⟨kv, _, rfl⟩ := List.mem_map.1 hh
          rfl
      · rw [V1S.patchAll_append_ok _ _ _ _ h1]
        exact h2
      · -- the hunks do not touch the set keys
        intro kvs0 kvs0' e1' e2' prem
        cases e1'
        cases e2'
        intro h' hh'
        have hin : shift p h' ∈ V1.diffNode m false (.obj kvs) (.obj kvs') p := by
          rw [hdiff]; exact List.mem_map_of_mem hh'
        have hpath : (shift p h').path = p ++ h'.path := rfl
        rw [V1P.diffNode_obj_obj, List.mem_append] at hin
        rcases hin with hin | hin
        · obtain ⟨k, v, hkv, hmatch⟩ := diffKvs_origin m p kvs' kvs _ hin
          have hlv : alookup k kvs = some v := alookup_of_mem hsa hkv
          have hkn : k ∉ ks := by
            intro hkk
            have hpr := prem k hkk
            rw [hlv] at hpr
            cases hl' : alookup k kvs' with
            | none => rw [hl'] at hpr; simp at hpr
            | some v' =>
              rw [hl'] at hpr hmatch
              simp only [Option.map_some, Option.some.injEq] at hpr
              have hv := (ha.val hkv).1
              have hv' := (hb.lookup hl').1
              have wv := wa.val hkv
              have wv' := wb.val (mem_of_alookup hl')
              have heqv : equivB [.set] v v' = true := H.hf v (WA wv).self v' (WB wv').self hpr
              have hnil : V1.diffNode m false v v' (p ++ [.str k]) = [] :=
                diffNode_nil_of_equivB_K F K H.hf H.ib v v' hv.docOk hv'.docOk (WA wv) (WB wv')
                  wv' heqv _
              simp only [hnil] at hmatch
              cases hmatch
          cases hl' : alookup k kvs' with
          | none =>
            rw [hl'] at hmatch
            simp only at hmatch
            rw [hpath] at hmatch
            have := List.append_cancel_left hmatch
            exact ⟨k, [], this, hkn⟩
          | some v' =>
            rw [hl'] at hmatch
            simp only at hmatch
            obtain ⟨D0, _, d1, _⟩ := ih k v hkv v' (ha.val hkv).1 (hb.lookup hl').1 (wa.val hkv)
              (wb.val (mem_of_alookup hl')) (p ++ [.str k])
            rw [d1] at hmatch
            obtain ⟨h0, _, e0⟩ := List.mem_map.1 hmatch
            have e0p : (shift (p ++ [.str k]) h0).path = (shift p h').path := by
              rw [e0]
            simp only [shift, List.append_assoc] at e0p
            have := List.append_cancel_left e0p
            exact ⟨k, h0.path, by simpa using this.symm, hkn⟩
        · obtain ⟨kv, hkv, e0⟩ := List.mem_map.1 hin
          have hkvf := List.mem_filter.1 hkv
          have hnone : alookup kv.1 kvs = none := by simpa using hkvf.2
          have hkn : kv.1 ∉ ks := by
            intro hkk
            have := prem kv.1 hkk
            rw [hnone, alookup_of_mem hsb hkvf.1] at this
            simp at this
          have e0p : (shift p h').path = p ++ [.str kv.1] := by rw [← e0]
          rw [hpath] at e0p
          exact ⟨kv.1, [], List.append_cancel_left e0p, hkn⟩
    | _ =>
      refine replace_stepK F L K H.hf ha hb (WB wb) (Or.inr rfl) p [_] (by simp) rfl ?_
      rw [V1P.diffNode_obj_other m kvs _ (fun _ e => by cases e) p]
      rfl

/-- **C17, SET + setkeys, strict strategy, in memory.** For documents as read from JSON text
    (`setDoc`, `memOK`), metadata `KMode m ks` (SET, at least one set key, no MERGE, precision 0),
    under the hypotheses `KeysHyp` (see the header): the hunks of `a.Diff(b, m...)` apply to `a` in
    sequence with the library's own patch code — no nested application fails, although the keyed
    branch of `jsonSet.patch` would discard such a failure —, and the result `Equals` `b` with the
    same metadata, is equivalent to `b` for the advertised equivalence (arrays as sets), and has
    the hash code of `b`. -/
theorem v1_diff_patch_setkeys (F : FloatEq0) (L : FloatLaws) (K : KMode m ks) (a b : Json)
    (ha : a.setDoc = true) (hb : b.setDoc = true)
    (ha' : DPL.memOK a = true) (hb' : DPL.memOK b = true) (H : KeysHyp m ks a b) :
    ∃ r, V1.patchM a (V1.diffM m a b) = .ok r ∧ V1.equals m r b = true ∧
      equivB [.set] r b = true ∧ V1.hashCode m r = V1.hashCode m b := by
  obtain ⟨D, r, e, _, h, h1, _⟩ := node_stepK F L K H a b ⟨ha, ha'⟩ ⟨hb, hb'⟩
    (fun _ hz => hz) (fun _ hz => hz) []
  refine ⟨r, ?_, h1.1, h1.2.2, h1.2.1⟩
  unfold V1.diffM V1.patchM
  rw [K.noMerge, e, V1S.shift_nil_map]
  exact h

/-- **C17, second half, SET + setkeys: the diff is empty exactly when `Equals` holds** (same
    hypotheses; the direction `Equals → empty` only uses `hf` and `ib`) -/
theorem v1_diff_empty_iff_equals_setkeys (F : FloatEq0) (L : FloatLaws) (K : KMode m ks)
    (a b : Json) (ha : a.setDoc = true) (hb : b.setDoc = true)
    (ha' : DPL.memOK a = true) (hb' : DPL.memOK b = true) (H : KeysHyp m ks a b) :
    V1.diffM m a b = [] ↔ V1.equals m a b = true := by
  constructor
  · intro hd
    obtain ⟨r, h1, h2, _⟩ := v1_diff_patch_setkeys F L K a b ha hb ha' hb' H
    rw [hd] at h1
    cases h1
    exact h2
  · intro he
    have wa : Within (subterms a ++ subterms b) a := fun z hz => List.mem_append.2 (Or.inl hz)
    have wb : Within (subterms a ++ subterms b) b := fun z hz => List.mem_append.2 (Or.inr hz)
    rw [k_equals K, V1S.equals_eq_equivB_of F M0 (k_hf K H.hf) (docOk_of_setDoc ha)
      (docOk_of_setDoc hb) wa wb] at he
    unfold V1.diffM
    rw [K.noMerge]
    exact diffNode_nil_of_equivB_K F K H.hf H.ib a b (docOk_of_setDoc ha) (docOk_of_setDoc hb)
      wa wb (fun _ hz => hz) he []

end Main

end Jd.V1K
