/-
  JdProofs.SubAfter — basic facts about `Jd.subAfter` (JdModel.Diff), the end block of Go's
  `jsonList.diffRest` for a sub-diff that took the place of the temporary hunk:

    "if len(d[0].Path) > len(path) { subdiff, don't touch } else if len(d) < 2 { d[0].After = after() }"

  `subAfter parent noAcc next sub` is `sub`, except when nothing was accumulated (`noAcc`), `sub` is
  exactly one hunk that removes or adds something and whose path is no longer than
  `parent.length + 1`: then that hunk receives `after := [next]`. Only the `after` field of that one
  hunk can change: paths, `remove`, `add`, `before`, `merge`, the number of hunks are unchanged.
-/
import JdModel

namespace Jd

/-- the condition under which `subAfter` rewrites the single hunk `h` -/
def subAfterFires (parent : Path) (noAcc : Bool) (h : Hunk) : Bool :=
  noAcc && (!h.remove.isEmpty || !h.add.isEmpty) && decide (h.path.length ≤ parent.length + 1)

theorem subAfter_nil (p : Path) (n : Bool) (x : Json) : subAfter p n x [] = [] := rfl

theorem subAfter_single (p : Path) (n : Bool) (x : Json) (h : Hunk) :
    subAfter p n x [h] = if subAfterFires p n h then [{ h with after := [x] }] else [h] := by
  simp only [subAfter, subAfterFires]
  congr

theorem subAfter_cons_cons (p : Path) (n : Bool) (x : Json) (h h' : Hunk) (d : Diff) :
    subAfter p n x (h :: h' :: d) = h :: h' :: d := rfl

/-- nothing accumulated is required -/
theorem subAfter_false (p : Path) (x : Json) (sub : Diff) : subAfter p false x sub = sub := by
  match sub with
  | [] => rfl
  | [h] => simp [subAfter_single, subAfterFires]
  | _ :: _ :: _ => rfl

/-- a genuine sub-diff (every hunk strictly below the element) is not touched -/
theorem subAfter_of_paths (p : Path) (n : Bool) (x : Json) (sub : Diff)
    (hp : ∀ h ∈ sub, p.length + 1 < h.path.length) : subAfter p n x sub = sub := by
  match sub, hp with
  | [], _ => rfl
  | [h], hp =>
    have := hp h List.mem_cons_self
    have e : decide (h.path.length ≤ p.length + 1) = false := by
      simp only [decide_eq_false_iff_not]; omega
    simp [subAfter_single, subAfterFires, e]
  | _ :: _ :: _, _ => rfl

/-- two hunks or more: not touched -/
theorem subAfter_of_length (p : Path) (n : Bool) (x : Json) (sub : Diff) (hl : sub.length ≠ 1) :
    subAfter p n x sub = sub := by
  match sub, hl with
  | [], _ => rfl
  | [h], hl => exact absurd rfl hl
  | _ :: _ :: _, _ => rfl

/-- the two possibilities -/
theorem subAfter_cases (p : Path) (n : Bool) (x : Json) (sub : Diff) :
    subAfter p n x sub = sub ∨
      ∃ h, sub = [h] ∧ subAfterFires p n h = true ∧ subAfter p n x sub = [{ h with after := [x] }] := by
  match sub with
  | [] => exact .inl rfl
  | [h] =>
    rw [subAfter_single]
    cases hf : subAfterFires p n h with
    | false => exact .inl (by simp)
    | true => exact .inr ⟨h, rfl, hf, by simp⟩
  | _ :: _ :: _ => exact .inl rfl

theorem subAfter_length (p : Path) (n : Bool) (x : Json) (sub : Diff) :
    (subAfter p n x sub).length = sub.length := by
  rcases subAfter_cases p n x sub with e | ⟨h, rfl, _, e⟩ <;> rw [e]
  rfl

theorem subAfter_isEmpty (p : Path) (n : Bool) (x : Json) (sub : Diff) :
    (subAfter p n x sub).isEmpty = sub.isEmpty := by
  rcases subAfter_cases p n x sub with e | ⟨h, rfl, _, e⟩ <;> rw [e]
  rfl

theorem subAfter_eq_nil_iff (p : Path) (n : Bool) (x : Json) (sub : Diff) :
    subAfter p n x sub = [] ↔ sub = [] := by
  rcases subAfter_cases p n x sub with e | ⟨h, rfl, _, e⟩ <;> rw [e]
  simp

/-- every projection of the hunks that does not look at `after` is unchanged -/
theorem subAfter_map_of {β} (f : Hunk → β) (hf : ∀ (h : Hunk) (a : List Json), f { h with after := a } = f h)
    (p : Path) (n : Bool) (x : Json) (sub : Diff) : (subAfter p n x sub).map f = sub.map f := by
  rcases subAfter_cases p n x sub with e | ⟨h, rfl, _, e⟩ <;> rw [e]
  simp [hf]

theorem subAfter_map_path (p : Path) (n : Bool) (x : Json) (sub : Diff) :
    (subAfter p n x sub).map (·.path) = sub.map (·.path) :=
  subAfter_map_of _ (fun _ _ => rfl) p n x sub

theorem subAfter_map_remove (p : Path) (n : Bool) (x : Json) (sub : Diff) :
    (subAfter p n x sub).map (·.remove) = sub.map (·.remove) :=
  subAfter_map_of _ (fun _ _ => rfl) p n x sub

theorem subAfter_map_add (p : Path) (n : Bool) (x : Json) (sub : Diff) :
    (subAfter p n x sub).map (·.add) = sub.map (·.add) :=
  subAfter_map_of _ (fun _ _ => rfl) p n x sub

theorem subAfter_map_before (p : Path) (n : Bool) (x : Json) (sub : Diff) :
    (subAfter p n x sub).map (·.before) = sub.map (·.before) :=
  subAfter_map_of _ (fun _ _ => rfl) p n x sub

theorem subAfter_map_merge (p : Path) (n : Bool) (x : Json) (sub : Diff) :
    (subAfter p n x sub).map (·.merge) = sub.map (·.merge) :=
  subAfter_map_of _ (fun _ _ => rfl) p n x sub

/-- a hunk of `subAfter … sub` is a hunk of `sub`, up to its `after` field (which is either unchanged
    or `[next]`) -/
theorem mem_subAfter {p : Path} {n : Bool} {x : Json} {sub : Diff} {h : Hunk}
    (hm : h ∈ subAfter p n x sub) :
    h ∈ sub ∨ ∃ h0, sub = [h0] ∧ subAfterFires p n h0 = true ∧ h = { h0 with after := [x] } := by
  rcases subAfter_cases p n x sub with e | ⟨h0, rfl, hf, e⟩ <;> rw [e] at hm
  · exact .inl hm
  · exact .inr ⟨h0, rfl, hf, by simpa using hm⟩

/-- a hunk of `subAfter … sub` agrees with a hunk of `sub` on everything but `after` -/
theorem mem_subAfter' {p : Path} {n : Bool} {x : Json} {sub : Diff} {h : Hunk}
    (hm : h ∈ subAfter p n x sub) :
    ∃ h0 ∈ sub, h.path = h0.path ∧ h.remove = h0.remove ∧ h.add = h0.add ∧ h.before = h0.before ∧
      h.merge = h0.merge ∧ (h.after = h0.after ∨ h.after = [x]) := by
  rcases mem_subAfter hm with hm | ⟨h0, rfl, _, rfl⟩
  · exact ⟨h, hm, rfl, rfl, rfl, rfl, rfl, .inl rfl⟩
  · exact ⟨h0, List.mem_cons_self, rfl, rfl, rfl, rfl, rfl, .inr rfl⟩

/-- `subAfter` commutes with prefixing the paths (the parent path is prefixed as well) -/
theorem subAfter_map_prefix (q p : Path) (n : Bool) (x : Json) (sub : Diff) :
    subAfter (q ++ p) n x (sub.map (fun h => { h with path := q ++ h.path })) =
      (subAfter p n x sub).map (fun h => { h with path := q ++ h.path }) := by
  match sub with
  | [] => rfl
  | [h] =>
    simp only [List.map_cons, List.map_nil, subAfter_single]
    have e : subAfterFires (q ++ p) n { h with path := q ++ h.path } = subAfterFires p n h := by
      simp only [subAfterFires, List.length_append]
      congr 1
      apply decide_eq_decide.2
      omega
    rw [e]
    split <;> rfl
  | _ :: _ :: _ => rfl

/-! ### the one pair of same-kind containers that is replaced wholesale -/

/-- a typed array node (`jsonList`, `jsonSet`, `jsonMultiset`) against a plain `jsonArray`:
    `sameContainerType` dispatches both sides, the typed node's `diff` type-asserts the other side
    WITHOUT dispatching it, fails, and replaces the element wholesale (one hunk at the element's own
    path). In list mode the only such pair of same-kind containers is `jsonList` / `jsonArray`.
    Documents read from text contain plain `jsonArray` nodes only: no such pair. -/
def mixedPair : Json → Json → Bool
  | .arr t _, .arr .raw _ => t != .raw
  | _, _ => false

/-- position by position, no `mixedPair` -/
def noMixed : List Json → List Json → Bool
  | x :: xs, y :: ys => !mixedPair x y && noMixed xs ys
  | _, _ => true

theorem mixedPair_of_rawDoc_left {x : Json} (y : Json) (hx : x.rawDoc = true) : mixedPair x y = false := by
  cases x with
  | arr t xs =>
    simp only [Json.rawDoc, Bool.and_eq_true, beq_iff_eq] at hx
    cases y with
    | arr t' ys => cases t' <;> simp [mixedPair, hx.1]
    | _ => rfl
  | _ => rfl

theorem noMixed_of_rawDocList : ∀ (xs ys : List Json), rawDocList xs = true → noMixed xs ys = true
  | [], _, _ => by simp [noMixed]
  | _ :: _, [], _ => by simp [noMixed]
  | x :: xs, y :: ys, h => by
    simp only [rawDocList, Bool.and_eq_true] at h
    simp [noMixed, mixedPair_of_rawDoc_left y h.1, noMixed_of_rawDocList xs ys h.2]

end Jd
