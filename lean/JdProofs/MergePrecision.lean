/-
  JdProofs.MergePrecision — properties C01, C11 and C05(⇒) of the v2 library for the MERGE strategy
  TOGETHER WITH A PRECISION OPTION, list reading of arrays (option lists such as
  `[.merge, .prec eps]`, which is exactly what the CLI builds for `jd -f merge -precision eps`; the
  CLI refuses `-precision` with `-set` / `-mset`, so the list reading is the only one that matters).
  Everything lives in the namespace `Jd.MP`. The existing theorems `DPK.merge_diff_then_patch_list`
  (JdProofs.DiffPatchKeys, part A), `Merge.merge_render_correct` (JdProofs.MergeProofs) and
  `equals_of_diffM_nil_merge` (JdProofs.DiffEmpty) carry the hypothesis `precOf o = 0`; here it is
  gone. All theorems are about the library functions of the model: `diffM` (`a.Diff(b, options...)`),
  `patchAll sw` / `patchM` (`a.Patch(d)` on the diff value as returned; `sw = true` is the code),
  `renderMergeDoc` (`Diff.RenderMerge`), `equals` (`Equals`), and the independent specifications
  `equivB` (advertised equivalence), `specEq`, `Spec.mergePatch` (RFC 7386 pseudocode).

  WHAT THE CODE DOES (model = code, branch by branch). In MERGE mode `diffNode` recurses through
  objects, compares two ARRAYS with `Equals(options)` — WITH the precision: arrays within `eps` are
  not reported — and sends scalars to `diff_common.go`, which calls `Equals()` WITHOUT options
  (KF-C05-precision): a number that moved by less than `eps` IS reported and replaced. So the result
  of diff-then-patch consists of parts of `a` that were found `Equals(o)` (arrays) or `Equals()`
  (scalars) to the part of `b` at the same place, and of parts of `b` itself. "Within eps" is not
  transitive, and no proof below uses transitivity.

  MAIN THEOREMS
  §1 C01 (diff-then-patch in memory)
    * `merge_diff_then_patch_list_precision` — the statement of `DPK.merge_diff_then_patch_list`
      without `precOf o = 0` (and without the conclusion `specEq r b`, which is FALSE under a
      precision: `Witness.specEq_fails_array`): for `isMerge o`, `dispatchTag o = .list`;
      `a` with `wf`, `rawDoc`; `b` with `wf`, `rawDoc`, `nullFree`, `objVoidFree`, `finiteNums`:
        ∃ r, patchAll sw a (diffM o a b) = .ok r ∧ equals o r b = true ∧ equivB o r b = true.
    * `merge_diff_then_patch_list_precision_nulls` — the same WITHOUT `b.nullFree` (strictly
      stronger; also new for precision 0): in memory a merge hunk whose value is `null` stores `null`;
      only `void` deletes. `null` means "delete" only once the diff is rendered as RFC 7386 text.
    * `patchM_diffM_MERGE_precision` — the library call for the CLI's option list `[MERGE, Precision]`.
    * `memSound_list` — the induction (`DPK.obj_step` is reused for objects).
  §2 C11 (the RFC 7386 document rendered from the diff, applied to `a` by `Spec.mergePatch`)
    * `merge_render_correct_precision_gen` — same domain, and `diffM o a b ≠ [] ∨ a.isObj`:
        ∃ m, renderMergeDoc (diffM o a b) = .ok m ∧ equals o (mergePatch a m) b = true ∧
             equivB o (mergePatch a m) b = true.
      (`Equals` in the conclusion is new with respect to `Merge.merge_render_correct`, also for
      precision 0.) Under a precision "the diff is not empty" is WEAKER than "the documents differ
      under the options" (`1` vs `1.00001`), so this form covers more pairs than C11's wording.
    * `merge_render_correct_precision` — with C11's hypothesis `equals o a b = false` (the statement
      of `Merge.merge_render_correct` without `precOf o = 0`); `merge_render_correct_precision_obj`
      (`a` an object, no "differ" hypothesis); `merge_render_correct_MERGE_precision` (the CLI's
      option list); `merge_render_doc_precision` (the rendered document is never void / `null`).
    * `soundR` — the induction, carrying `Rel o = equals o ∧ equivB o` (as `MSet.sound` does).
  §3 C05 (⇒): `equals_of_diffM_nil_merge_precision`:
        diffM o a b = [] → equals o a b = true ∧ equivB o a b = true
      for `listDoc`, `wf` documents (nulls, non-finite numbers, ANY precision bit pattern allowed),
      under `PrecMono o` only. Induction: `merge_equals_of_diff_nil`.
  §3b the (⇐) that survives: `diffM_nil_of_equals_nil_merge_precision` /
      `diffM_nil_of_specEq_merge_precision`: `equals [] a b = true` (resp. `specEq a b`) →
      `diffM o a b = []`. So  Equals() ⇒ Diff(o) = [] ⇒ Equals(o),  and neither arrow reverses.

  HYPOTHESES and why
    `FloatLaws` (JdSpec; only `refl` is used), `DPL.PrecMono o` (JdProofs.DiffPatchList:
      `numWithin 0 u v → numWithin (precOf o) u v`): IEEE-754 facts; `numWithin` is a runtime `Float`
      computation, opaque to the kernel. `PrecMono` is what turns "equal for `diff_common.go`"
      (`Equals()`) into "equal under the options". It is USED: `Witness.precMono_used` (the
      statement fails on the model for bit patterns violating it; no such patterns exist in IEEE
      arithmetic when `eps ≥ +0`, which the kernel cannot see). No new law was needed.
    `nonnegBits (precOf o)` (decidable; §1, §2 only): the precision is a finite number ≥ +0, so that
      `Equals` is reflexive on finite numbers (`FloatLaws.refl`). NEEDED, relative to the IEEE fact
      that `|y - y| ≤ eps` is false for negative / NaN `eps`: `Witness.negative_precision_breaks`
      (`jd -f merge -precision=-1` is accepted by the CLI: no number `Equals` itself, and the patched
      document does not `Equals` the target). `nonnegBits` also excludes `eps = +Inf`, for which the
      statement is presumably true; `FloatLaws.refl` says nothing about it — not decided.
    `b.finiteNums`: same reason (`NaN` is not `Equals` to itself; the witness above, read with
      `eps` fixed and `y` a NaN pattern, is the counter-witness). JSON text has no NaN / Inf.
    `a.wf`, `a.rawDoc`, `b.wf`, `b.rawDoc`: documents as read from JSON / YAML text (unique sorted
      keys = the model's invariant; plain arrays). `objVoidFree b`: void is not a JSON value.
      `a` may contain `null`s and void members.
    `b.nullFree` (§2 only): the domain of JSON Merge Patch (C11: "null-free documents").
    §2 `diffM o a b ≠ [] ∨ a.isObj`: NEEDED: `Witness.render_equal_nonobject` (an empty diff renders
      to `{}`, and RFC 7386 turns a non-object into `{}`).
  COUNTER-WITNESSES (namespace `Witness`; each relative to the one or two IEEE facts about concrete
  numbers it depends on, which the `#eval`s at the end evaluate with the runtime)
    `converse_fails_scalar`, `converse_fails_member`: KF-C05-precision in MERGE mode: `1` vs
      `1.00001` (resp. `{"k":1}` vs `{"k":1.00001}`) under `-precision 0.01` are `Equals`, the diff is
      the one merge hunk that replaces the number. The converse of §3 is false.
    `specEq_fails_array`: `[1]` vs `[1.00001]`: the diff IS empty, the patched document is `[1]`,
      not structurally equal to `b`. The converse of §3b is false; `specEq r b` had to be dropped.
    `render_within_eps_array`: the same pair renders to `{}`, and RFC 7386 turns `[1]` into `{}`:
      C11's hypothesis "differ" must be read "differ under the options" (or "non-empty diff").
    `negative_precision_breaks`, `precMono_used`, `render_equal_nonobject`: see HYPOTHESES.
  NON-VACUITY (namespace `Example`): a pair with nested objects, arrays within `eps`, a scalar within
    `eps`, nulls in `a`, additions and deletions satisfies every hypothesis (`ex_docs`, two
    `example`s); `ex_result` / `ex_render` compute what the library returns on it (relative to four
    IEEE facts): `"p": 1 → 1.001` is replaced, the array `"b": [1,2]` is kept where `b` has
    `[1.001,2]`, the RFC 7386 document has no `"b"`. `exBn`: a target with `null`s (§1 `_nulls`).
  NOT PROVED: the SET / MULTISET / SetKeys readings with a precision (refused by the CLI for
    SET / MULTISET); `eps = +Inf`; the text layer (`renderMergeM` / `readMergeM`) and the native
    text round trip under a precision; the v1 library.
-/
import JdModel
import JdSpec
import JdProofs.Common
import JdProofs.EqualsList
import JdProofs.DiffEmpty
import JdProofs.MergeProofs
import JdProofs.MergeSetModes
import JdProofs.DiffPatchList
import JdProofs.DiffPatchKeys

namespace Jd.MP
open Jd Jd.Spec Jd.Merge
open Jd.MSet (Rel RelOptS rel_obj_of_lookups)
open Jd.DPL (PrecMono)
open Jd.DPK (obj_step MemSound dlKvs_nil dlKvs_cons patchAll_diffM_list)

/-! ## 1. C01, MERGE strategy in memory, list reading, with a Precision option -/

/-- the hypotheses of §1 on the second document: as read from JSON text (unique keys, plain arrays,
    no void, finite numbers). NOT null-free: in memory a merge hunk stores `null` as a value (only
    `void` deletes), so `Merge.GoodB` minus `nullFree` suffices. -/
structure GoodN (b : Json) : Prop where
  wf : b.wf = true
  raw : b.rawDoc = true
  vf : objVoidFree b = true
  fin : b.finiteNums = true

theorem GoodN.member {kvs' : List (String × Json)} (G : GoodN (.obj kvs')) {j : String} {v' : Json}
    (h : alookup j kvs' = some v') : GoodN v' := by
  obtain ⟨h1, h2, h4, h5⟩ := G
  simp only [Json.wf, Json.rawDoc, objVoidFree, Json.finiteNums, Bool.and_eq_true] at h1 h2 h4 h5
  exact ⟨alookup_wf h h1.2, alookup_rawDoc h h2, alookup_objVoidFree h h4, alookup_finiteNums h h5⟩

theorem GoodN.notVoid {b : Json} (G : GoodN b) : b.isVoid = false := by
  have := G.vf; cases b <;> simp_all [Json.isVoid, objVoidFree]

theorem goodN_of_goodB {b : Json} (G : GoodB b) : GoodN b := ⟨G.wf, G.raw, G.vf, G.fin⟩

/-- the second document is itself, for both relations, under a non-negative finite precision -/
theorem goodN_rel (L : FloatLaws) (o : Opts) (ho : dispatchTag o = .list)
    (hp : nonnegBits (precOf o) = true) {b : Json} (G : GoodN b) : Rel o b b :=
  ⟨equals_refl_list L o ho hp b (rawDoc_listDoc b G.raw) G.wf G.fin,
    equivB_refl_list L o ho hp b (rawDoc_listDoc b G.raw) G.wf G.fin⟩

theorem goodB_rel (L : FloatLaws) (o : Opts) (ho : dispatchTag o = .list)
    (hp : nonnegBits (precOf o) = true) {b : Json} (G : GoodB b) : Rel o b b :=
  goodN_rel L o ho hp (goodN_of_goodB G)

/-- scalars that `diff_common.go` finds equal WITHOUT the options are equal WITH them -/
theorem rel_scalar_of_equals_nil (o : Opts) (M : PrecMono o) {a b : Json}
    (h1 : a.isObj = false) (h2 : Merge.isArr a = false) (he : equals [] a b = true) :
    Rel o a b := by
  cases a <;> cases b <;>
    simp_all [Rel, equals, equivB, Json.isObj, Merge.isArr, Json.isVoid, Json.isNull, precOf]
  exact M _ _ he

theorem memSound_scalar_list (L : FloatLaws) (o : Opts) (ho : dispatchTag o = .list)
    (hp : nonnegBits (precOf o) = true) (M : PrecMono o) {a b : Json} (h1 : a.isObj = false)
    (h2 : Merge.isArr a = false) (G : GoodN b) : MemSound o (dl o) a b := by
  unfold MemSound
  rw [dl_scalar o h1 h2 b]
  cases he : equals [] a b with
  | true => simpa [mapply] using rel_scalar_of_equals_nil o M h1 h2 he
  | false => simpa [mapply, mset] using goodN_rel L o ho hp G

/-- the induction: the hunks of the pure merge diff, applied in memory to `a`, give a document that
    is `b` for `Equals o` and for `equivB o`. No transitivity of "within eps" is used: the result is
    made of parts of `a` that the diff found `equals o` / `equals []` to the part of `b` at the same
    place, and of parts of `b` itself. -/
theorem memSound_list (L : FloatLaws) (o : Opts) (ho : dispatchTag o = .list)
    (hp : nonnegBits (precOf o) = true) (M : PrecMono o) :
    ∀ a : Json, a.wf = true → a.rawDoc = true → ∀ b : Json, GoodN b → MemSound o (dl o) a b := by
  intro a
  induction a using jsonInd with
  | void => intro _ _ b G; exact memSound_scalar_list L o ho hp M rfl rfl G
  | null => intro _ _ b G; exact memSound_scalar_list L o ho hp M rfl rfl G
  | bool x => intro _ _ b G; exact memSound_scalar_list L o ho hp M rfl rfl G
  | num x => intro _ _ b G; exact memSound_scalar_list L o ho hp M rfl rfl G
  | str x => intro _ _ b G; exact memSound_scalar_list L o ho hp M rfl rfl G
  | arr t xs _ =>
    intro hw hr b G
    unfold MemSound
    cases b with
    | arr t' ys =>
      have hrt : t = .raw := by
        simp only [Json.rawDoc, Bool.and_eq_true, beq_iff_eq] at hr; exact hr.1
      have hrt' : t' = .raw := by
        have := G.raw; simp only [Json.rawDoc, Bool.and_eq_true, beq_iff_eq] at this; exact this.1
      subst hrt; subst hrt'
      have hxs : listDocList xs = true := by
        have := rawDoc_listDoc _ hr; simp only [Json.listDoc, Bool.and_eq_true] at this; exact this.2
      have hys : listDocList ys = true := by
        have := rawDoc_listDoc _ G.raw
        simp only [Json.listDoc, Bool.and_eq_true] at this; exact this.2
      rw [dl_arr_arr]
      cases he : equals o (.arr .list xs) (.arr .list ys) with
      | true =>
        simp only [if_true, mapply, List.foldl_nil]
        rw [equals_arr_list ho xs ys rfl rfl] at he
        refine ⟨by rw [equals_arr_list ho xs ys rfl rfl]; exact he, ?_⟩
        rw [equalsList_eq_equivList o ho xs ys hxs hys] at he
        simpa [equivB, ho] using he
      | false =>
        simp only [Bool.false_eq_true, if_false, mapply, List.foldl_cons, List.foldl_nil, mset]
        have R := goodN_rel L o ho hp G
        refine ⟨?_, ?_⟩
        · rw [equals_arr_list ho ys ys rfl rfl,
            ← equals_arr_list ho (t := .raw) (t' := .raw) ys ys rfl rfl]
          exact R.1
        · have := R.2
          simpa [equivB, ho] using this
    | _ =>
      rw [dl_arr_other o t xs rfl]
      simpa [mapply, mset] using goodN_rel L o ho hp G
  | obj kvs ih =>
    intro hw hr b G
    unfold MemSound
    cases b with
    | obj kvs' =>
      simp only [Json.wf, Bool.and_eq_true] at hw
      simp only [Json.rawDoc] at hr
      have hs' : keysSorted kvs' = true := by
        have := G.wf; simp only [Json.wf, Bool.and_eq_true] at this; exact this.1
      rw [dl_obj_obj]
      refine obj_step o (dl o) (dlKvs o) kvs kvs' (dlKvs_nil o kvs') (dlKvs_cons o kvs') hw.1 hs'
        (fun j v' hj => (G.member hj).notVoid) ?_ ?_
      · intro j v v' hja hjb
        exact ih j v (mem_of_alookup hja) (alookup_wf hja hw.2) (alookup_rawDoc hja hr) v'
          (G.member hjb)
      · intro j v' _ hjb
        exact goodN_rel L o ho hp (G.member hjb)
    | _ =>
      rw [dl_obj_other o kvs rfl]
      simpa [mapply, mset] using goodN_rel L o ho hp G

/-- **C01, MERGE strategy in memory, list reading of arrays, WITH a Precision option, `null`s
    allowed in `b`** (any option list with MERGE, no SET / MULTISET / SetKeys; either variant `sw`
    of the patch code): for documents as read from text, `a.Patch(a.Diff(b, MERGE, Precision(eps)))`
    succeeds and its result `Equals` `b` under the options and is equivalent to it (`equivB o`).
    (`b.nullFree` is NOT needed when the diff value is applied in memory: a merge hunk carrying
    `null` stores `null`; `null` means "delete" only in the RFC 7386 text, §2.) -/
theorem merge_diff_then_patch_list_precision_nulls (L : FloatLaws) (sw : Bool) (o : Opts)
    (hm : isMerge o = true) (ho : dispatchTag o = .list)
    (hp : nonnegBits (precOf o) = true) (M : PrecMono o) (a b : Json)
    (haw : a.wf = true) (har : a.rawDoc = true)
    (hbw : b.wf = true) (hbr : b.rawDoc = true)
    (hbv : objVoidFree b = true) (hbf : b.finiteNums = true) :
    ∃ r, patchAll sw a (diffM o a b) = .ok r ∧ equals o r b = true ∧ equivB o r b = true := by
  have G : GoodN b := ⟨hbw, hbr, hbv, hbf⟩
  have S := memSound_list L o ho hp M a haw har b G
  exact ⟨_, patchAll_diffM_list sw o ho hm a b har hbr hbv, S.1, S.2⟩

/-- **C01, MERGE strategy in memory, list reading of arrays, WITH a Precision option**: the
    statement of `DPK.merge_diff_then_patch_list` without `precOf o = 0` (and without the conclusion
    `specEq r b`, which is false: `Witness.specEq_fails_array`). The hypothesis `b.nullFree` (the
    domain of C01's merge reading) is kept for comparison; it is not used. -/
theorem merge_diff_then_patch_list_precision (L : FloatLaws) (sw : Bool) (o : Opts)
    (hm : isMerge o = true) (ho : dispatchTag o = .list)
    (hp : nonnegBits (precOf o) = true) (M : PrecMono o) (a b : Json)
    (haw : a.wf = true) (har : a.rawDoc = true)
    (hbw : b.wf = true) (hbr : b.rawDoc = true) (_hbn : b.nullFree = true)
    (hbv : objVoidFree b = true) (hbf : b.finiteNums = true) :
    ∃ r, patchAll sw a (diffM o a b) = .ok r ∧ equals o r b = true ∧ equivB o r b = true :=
  merge_diff_then_patch_list_precision_nulls L sw o hm ho hp M a b haw har hbw hbr hbv hbf

/-- the library call itself for the option list of the CLI (`jd -f merge -precision eps`):
    `a.Patch(a.Diff(b, MERGE, Precision(eps)))` -/
theorem patchM_diffM_MERGE_precision (L : FloatLaws) (eps : UInt64)
    (hp : nonnegBits eps = true) (M : PrecMono [.merge, .prec eps]) (a b : Json)
    (haw : a.wf = true) (har : a.rawDoc = true)
    (hbw : b.wf = true) (hbr : b.rawDoc = true) (hbn : b.nullFree = true)
    (hbv : objVoidFree b = true) (hbf : b.finiteNums = true) :
    ∃ r, patchM a (diffM [.merge, .prec eps] a b) = .ok r ∧
      equals [.merge, .prec eps] r b = true ∧ equivB [.merge, .prec eps] r b = true :=
  merge_diff_then_patch_list_precision L true [.merge, .prec eps] rfl rfl hp M a b
    haw har hbw hbr hbn hbv hbf

/-! ## 2. C11 with a Precision option: the rendered RFC 7386 document, applied by `mergePatch` -/

/-- what is proved of a pair of documents: an empty diff means `a` is `b` (for `Equals o` and for
    `equivB o`); a non-empty diff renders to a patch document (not void, not null) that RFC 7386
    turns `a` into a document that is `b` (both readings) -/
def SoundR (o : Opts) (a b : Json) : Prop :=
  (dl o a b = [] → Rel o a b) ∧
  (dl o a b ≠ [] →
    (mapply (rl o a b) .void).isVoid = false ∧ (mapply (rl o a b) .void).isNull = false ∧
    Rel o (mergePatch a (mapply (rl o a b) .void)) b)

theorem soundR_of_nil {o : Opts} {a b : Json} (h : dl o a b = []) (he : Rel o a b) :
    SoundR o a b := ⟨fun _ => he, fun hne => absurd h hne⟩

theorem soundR_of_single {o : Opts} {a b x : Json} (h : dl o a b = [([], x)])
    (hv : x.isVoid = false) (hn : x.isNull = false) (he : Rel o (mergePatch a x) b) :
    SoundR o a b := by
  have hm : mapply (rl o a b) .void = x := by simp [rl, h, nulE, hv, mapply, mset]
  refine ⟨fun h0 => by simp [h] at h0, fun _ => ?_⟩
  rw [hm]; exact ⟨hv, hn, he⟩

/-- the second document is taken wholesale -/
theorem soundR_wholesale (L : FloatLaws) (o : Opts) (ho : dispatchTag o = .list)
    (hp : nonnegBits (precOf o) = true) {a b : Json} (h : dl o a b = [([], b)])
    (hab : a.isObj = false ∨ b.isObj = false) (G : GoodB b) : SoundR o a b := by
  refine soundR_of_single h G.notVoid G.notNull ?_
  have : mergePatch a b = b := by
    rcases hab with ha | hb
    · exact mergePatch_copy b G.wf G.nf a ha
    · cases b <;> simp_all [mergePatch, Json.isObj]
  rw [this]; exact goodB_rel L o ho hp G

theorem soundR_scalar (L : FloatLaws) (o : Opts) (ho : dispatchTag o = .list)
    (hp : nonnegBits (precOf o) = true) (M : PrecMono o) {a b : Json} (h1 : a.isObj = false)
    (h2 : Merge.isArr a = false) (G : GoodB b) : SoundR o a b := by
  have hd := dl_scalar o h1 h2 b
  cases he : equals [] a b with
  | true =>
    rw [he, if_pos rfl] at hd
    exact soundR_of_nil hd (rel_scalar_of_equals_nil o M h1 h2 he)
  | false =>
    rw [he] at hd
    exact soundR_wholesale L o ho hp (by simpa using hd) (Or.inl h1) G

theorem soundR (L : FloatLaws) (o : Opts) (ho : dispatchTag o = .list)
    (hp : nonnegBits (precOf o) = true) (M : PrecMono o) :
    ∀ a : Json, a.wf = true → a.rawDoc = true → ∀ b : Json, GoodB b → SoundR o a b := by
  intro a
  induction a using jsonInd with
  | void => intro _ _ b G; exact soundR_scalar L o ho hp M rfl rfl G
  | null => intro _ _ b G; exact soundR_scalar L o ho hp M rfl rfl G
  | bool x => intro _ _ b G; exact soundR_scalar L o ho hp M rfl rfl G
  | num x => intro _ _ b G; exact soundR_scalar L o ho hp M rfl rfl G
  | str x => intro _ _ b G; exact soundR_scalar L o ho hp M rfl rfl G
  | arr t xs _ =>
    intro hw hr b G
    cases b with
    | arr t' ys =>
      have hrt : t = .raw := by
        simp only [Json.rawDoc, Bool.and_eq_true, beq_iff_eq] at hr; exact hr.1
      have hrt' : t' = .raw := by
        have := G.raw; simp only [Json.rawDoc, Bool.and_eq_true, beq_iff_eq] at this; exact this.1
      subst hrt; subst hrt'
      have hd := dl_arr_arr o .raw .raw xs ys
      have hxs : listDocList xs = true := by
        have := rawDoc_listDoc _ hr; simp only [Json.listDoc, Bool.and_eq_true] at this; exact this.2
      have hys : listDocList ys = true := by
        have := rawDoc_listDoc _ G.raw
        simp only [Json.listDoc, Bool.and_eq_true] at this; exact this.2
      cases he : equals o (.arr .list xs) (.arr .list ys) with
      | true =>
        rw [he, if_pos rfl] at hd
        refine soundR_of_nil hd ?_
        rw [equals_arr_list ho xs ys rfl rfl] at he
        refine ⟨by rw [equals_arr_list ho xs ys rfl rfl]; exact he, ?_⟩
        rw [equalsList_eq_equivList o ho xs ys hxs hys] at he
        simpa [equivB, ho] using he
      | false =>
        rw [he] at hd
        refine soundR_of_single (by simpa using hd) rfl rfl ?_
        have R := goodB_rel L o ho hp G
        have hmp : mergePatch (.arr .raw xs) (.arr .list ys) = .arr .list ys := by
          simp [mergePatch]
        rw [hmp]
        refine ⟨?_, ?_⟩
        · rw [equals_arr_list ho ys ys rfl rfl,
            ← equals_arr_list ho (t := .raw) (t' := .raw) ys ys rfl rfl]
          exact R.1
        · have := R.2
          simpa [equivB, ho] using this
    | _ => exact soundR_wholesale L o ho hp (dl_arr_other o t xs rfl) (Or.inl rfl) G
  | obj kvs ih =>
    intro hw hr b G
    cases b with
    | obj kvs' =>
      simp only [Json.wf, Bool.and_eq_true] at hw
      simp only [Json.rawDoc] at hr
      have hs : keysSorted kvs = true := hw.1
      have hs' : keysSorted kvs' = true := by
        have := G.wf; simp only [Json.wf, Bool.and_eq_true] at this; exact this.1
      have hvf : objVoidFreeKvs kvs' = true := by simpa [objVoidFree] using G.vf
      have hrl := rl_obj_obj o kvs kvs' hvf
      obtain ⟨acc', he, hsa, hl⟩ := mapply_groups (groupsA o kvs' kvs ++ groupsB kvs kvs') []
        (fun _ _ _ => by simp [alookup]) (groups_nodup o hs hs') rfl
      -- the patch document, member by member, against `b`
      have key : Rel o (mergePatch (.obj kvs) (.obj acc')) (.obj kvs') := by
        rw [mergePatch_obj]
        refine rel_obj_of_lookups o (keysSorted_mergeMembers _ _ hs) hs' (fun j => ?_)
        have hlj := hl j
        rw [groups_lookup] at hlj
        rw [alookup_mergeMembers j acc' (objKvs (.obj kvs)) hsa hs, hlj]
        simp only [objKvs]
        have hgv : getK j ([] : List (String × Json)) = .void := rfl
        cases hja : alookup j kvs with
        | some v =>
          simp only [grpA]
          cases hjb : alookup j kvs' with
          | some v' =>
            have Sv := ih j v (mem_of_alookup hja) (alookup_wf hja hw.2) (alookup_rawDoc hja hr) v'
              (G.member hjb)
            simp only [hgv]
            by_cases hd : dl o v v' = []
            · have : rl o v v' = [] := by simp [rl, hd]
              simp only [this, mapply, List.foldl_nil, toOpt, Json.isVoid, if_true]
              exact Sv.1 hd
            · obtain ⟨h1, h2, h3⟩ := Sv.2 hd
              simp only [toOpt, h1, Bool.false_eq_true, if_false, h2, getK, hja, Option.getD_some]
              exact h3
          | none =>
            simp [hgv, mapply, mset, toOpt, Json.isVoid, Json.isNull, RelOptS]
        | none =>
          cases hjb : alookup j kvs' with
          | none => simp [RelOptS, alookup]
          | some v' =>
            have Gv := G.member hjb
            simp only [Option.map_some, mapply, List.foldl_cons, List.foldl_nil, mset, toOpt,
              Gv.notVoid, Bool.false_eq_true, if_false, Gv.notNull, getK, hja, Option.getD_none]
            rw [mergePatch_copy v' Gv.wf Gv.nf .void rfl]
            exact goodB_rel L o ho hp Gv
      constructor
      · intro hd
        have h0 : rl o (.obj kvs) (.obj kvs') = [] := by simp [rl, hd]
        rw [← hrl, h0] at he
        simp only [mapply, List.foldl_nil, Json.obj.injEq] at he
        subst he
        have : mergePatch (.obj kvs) (.obj []) = .obj kvs := by
          simp [mergePatch, mergeMembers]
        rw [this] at key
        exact key
      · intro hd
        have hne : flatG (groupsA o kvs' kvs ++ groupsB kvs kvs') ≠ [] := by
          rw [← hrl]; simpa [rl] using hd
        rw [hrl, mapply_flatG_nonobj _ (t := .void) rfl hne, he]
        exact ⟨rfl, rfl, key⟩
    | _ => exact soundR_wholesale L o ho hp (dl_obj_other o kvs rfl) (Or.inr rfl) G

/-- the library's merge diff of two documents as read from text is empty exactly when the pure
    diff is -/
theorem diffM_nil_iff_dl (o : Opts) (ho : dispatchTag o = .list) (hm : isMerge o = true)
    (a b : Json) (ha : a.rawDoc = true) (hb : b.rawDoc = true) (hv : objVoidFree b = true) :
    diffM o a b = [] ↔ dl o a b = [] := by
  have hd := diffNode_eq_dl o ho a b [] ha hb hv
  simp only [List.map_nil, List.nil_append] at hd
  unfold diffM
  rw [hm, hd, List.map_eq_nil_iff]

/-- **C11 with a Precision option, general form** (MERGE, list reading of arrays): for documents as
    read from JSON text, `b` null-free, whenever the diff is NOT EMPTY (or `a` is an object), the
    diff renders to a JSON Merge Patch document `m`, and RFC 7386 `MergePatch(a, m)` is `b`: for
    the library's `Equals` under the options AND for the advertised equivalence `equivB`.
    (Under a precision a non-empty diff does not imply that `a` and `b` are told apart by `Equals`:
    KF-C05-precision; this form covers those pairs too.) -/
theorem merge_render_correct_precision_gen (L : FloatLaws) (o : Opts) (hm : isMerge o = true)
    (ho : dispatchTag o = .list) (hp : nonnegBits (precOf o) = true) (M : PrecMono o)
    (a b : Json) (haw : a.wf = true) (har : a.rawDoc = true)
    (hbw : b.wf = true) (hbr : b.rawDoc = true) (hbn : b.nullFree = true)
    (hbv : objVoidFree b = true) (hbf : b.finiteNums = true)
    (hne : diffM o a b ≠ [] ∨ a.isObj = true) :
    ∃ m, renderMergeDoc (diffM o a b) = .ok m ∧
      equals o (mergePatch a m) b = true ∧ equivB o (mergePatch a m) b = true := by
  have G : GoodB b := ⟨hbw, hbr, hbn, hbv, hbf⟩
  have S := soundR L o ho hp M a haw har b G
  rw [renderMergeDoc_diffM o ho hm a b har hbr hbv]
  by_cases hd : dl o a b = []
  · rw [if_pos hd]
    rcases hne with hne | hobj
    · exact absurd ((diffM_nil_iff_dl o ho hm a b har hbr hbv).2 hd) hne
    · refine ⟨_, rfl, ?_⟩
      have : mergePatch a (.obj []) = a := by
        cases a <;> simp_all [Json.isObj, mergePatch, mergeMembers]
      rw [this]; exact S.1 hd
  · rw [if_neg hd]
    exact ⟨_, rfl, (S.2 hd).2.2.1, (S.2 hd).2.2.2⟩

/-- **C11 with a Precision option** (the statement of `Merge.merge_render_correct` without
    `precOf o = 0`, and with `Equals` in the conclusion too): for documents as read from JSON text,
    `b` null-free, that `Equals` (under the options, precision included) tells apart, the diff
    renders to a JSON Merge Patch document `m` and RFC 7386 `MergePatch(a, m)` is `b`. -/
theorem merge_render_correct_precision (L : FloatLaws) (o : Opts) (hm : isMerge o = true)
    (ho : dispatchTag o = .list) (hp : nonnegBits (precOf o) = true) (M : PrecMono o)
    (a b : Json) (haw : a.wf = true) (har : a.rawDoc = true)
    (hbw : b.wf = true) (hbr : b.rawDoc = true) (hbn : b.nullFree = true)
    (hbv : objVoidFree b = true) (hbf : b.finiteNums = true)
    (hne : equals o a b = false) :
    ∃ m, renderMergeDoc (diffM o a b) = .ok m ∧
      equals o (mergePatch a m) b = true ∧ equivB o (mergePatch a m) b = true := by
  refine merge_render_correct_precision_gen L o hm ho hp M a b haw har hbw hbr hbn hbv hbf
    (Or.inl ?_)
  intro hd
  have S := soundR L o ho hp M a haw har b ⟨hbw, hbr, hbn, hbv, hbf⟩
  have := (S.1 ((diffM_nil_iff_dl o ho hm a b har hbr hbv).1 hd)).1
  rw [hne] at this
  cases this

/-- the same without `a ≠ b` when the first document is an object: the empty diff renders to `{}`,
    which RFC 7386 applies as the identity on objects -/
theorem merge_render_correct_precision_obj (L : FloatLaws) (o : Opts) (hm : isMerge o = true)
    (ho : dispatchTag o = .list) (hp : nonnegBits (precOf o) = true) (M : PrecMono o)
    (a b : Json) (haw : a.wf = true) (har : a.rawDoc = true)
    (hbw : b.wf = true) (hbr : b.rawDoc = true) (hbn : b.nullFree = true)
    (hbv : objVoidFree b = true) (hbf : b.finiteNums = true)
    (hobj : a.isObj = true) :
    ∃ m, renderMergeDoc (diffM o a b) = .ok m ∧
      equals o (mergePatch a m) b = true ∧ equivB o (mergePatch a m) b = true :=
  merge_render_correct_precision_gen L o hm ho hp M a b haw har hbw hbr hbn hbv hbf (Or.inr hobj)

/-- C11 for the option list of the CLI (`jd -f merge -precision eps`) -/
theorem merge_render_correct_MERGE_precision (L : FloatLaws) (eps : UInt64)
    (hp : nonnegBits eps = true) (M : PrecMono [.merge, .prec eps]) (a b : Json)
    (haw : a.wf = true) (har : a.rawDoc = true)
    (hbw : b.wf = true) (hbr : b.rawDoc = true) (hbn : b.nullFree = true)
    (hbv : objVoidFree b = true) (hbf : b.finiteNums = true)
    (hne : equals [.merge, .prec eps] a b = false) :
    ∃ m, renderMergeDoc (diffM [.merge, .prec eps] a b) = .ok m ∧
      equals [.merge, .prec eps] (mergePatch a m) b = true ∧
      equivB [.merge, .prec eps] (mergePatch a m) b = true :=
  merge_render_correct_precision L [.merge, .prec eps] rfl rfl hp M a b
    haw har hbw hbr hbn hbv hbf hne

/-- the rendered patch is a proper merge patch document: never void, and `null` never at the root
    (no law of `numWithin` is needed beyond those of the induction) -/
theorem merge_render_doc_precision (L : FloatLaws) (o : Opts) (hm : isMerge o = true)
    (ho : dispatchTag o = .list) (hp : nonnegBits (precOf o) = true) (M : PrecMono o)
    (a b : Json) (haw : a.wf = true) (har : a.rawDoc = true)
    (hbw : b.wf = true) (hbr : b.rawDoc = true) (hbn : b.nullFree = true)
    (hbv : objVoidFree b = true) (hbf : b.finiteNums = true) :
    ∃ m, renderMergeDoc (diffM o a b) = .ok m ∧ m.isVoid = false ∧ m.isNull = false := by
  have G : GoodB b := ⟨hbw, hbr, hbn, hbv, hbf⟩
  have S := soundR L o ho hp M a haw har b G
  rw [renderMergeDoc_diffM o ho hm a b har hbr hbv]
  by_cases hd : dl o a b = []
  · rw [if_pos hd]; exact ⟨_, rfl, rfl, rfl⟩
  · rw [if_neg hd]; exact ⟨_, rfl, (S.2 hd).1, (S.2 hd).2.1⟩

/-! ## 3. C05 (⇒) in MERGE mode with a Precision option: an empty diff means `Equals` -/

/-- a scalar that `diff_common.go` finds equal WITHOUT the options is `Equals` WITH them -/
theorem equals_of_equals_nil_scalar (o : Opts) (M : PrecMono o) (a b : Json)
    (ha : ∀ t xs, a ≠ .arr t xs) (ha' : ∀ kvs, a ≠ .obj kvs) (he : equals [] a b = true) :
    equals o a b = true := by
  cases a <;> cases b <;> simp_all [equals, Json.isVoid, Json.isNull, precOf]
  exact M _ _ he

theorem diffNode_scalar_nil (o : Opts) (M : PrecMono o) (m : Bool) (a b : Json)
    (ha : ∀ t xs, a ≠ .arr t xs) (ha' : ∀ kvs, a ≠ .obj kvs) (p : Path)
    (hd : diffNode o m a b p = []) : equals o a b = true := by
  rw [DE.diffNode_scalar o m a b ha ha' p, diffCommon_nil_iff] at hd
  exact equals_of_equals_nil_scalar o M a b ha ha' hd

mutual
/-- (⇒), MERGE strategy, any precision: lists are compared by `Equals o` itself, objects
    member-wise, scalars by `Equals` without options (`PrecMono`) -/
theorem merge_equals_of_diff_nil (o : Opts) (ho : dispatchTag o = .list) (M : PrecMono o) :
    ∀ (a b : Json), a.listDoc = true → b.listDoc = true → a.wf = true → b.wf = true →
      ∀ p, diffNode o true a b p = [] → equals o a b = true
  | .void, b, _, _, _, _, p, hd =>
    diffNode_scalar_nil o M true _ b (fun _ _ e => by cases e) (fun _ e => by cases e) p hd
  | .null, b, _, _, _, _, p, hd =>
    diffNode_scalar_nil o M true _ b (fun _ _ e => by cases e) (fun _ e => by cases e) p hd
  | .bool _, b, _, _, _, _, p, hd =>
    diffNode_scalar_nil o M true _ b (fun _ _ e => by cases e) (fun _ e => by cases e) p hd
  | .num _, b, _, _, _, _, p, hd =>
    diffNode_scalar_nil o M true _ b (fun _ _ e => by cases e) (fun _ e => by cases e) p hd
  | .str _, b, _, _, _, _, p, hd =>
    diffNode_scalar_nil o M true _ b (fun _ _ e => by cases e) (fun _ e => by cases e) p hd
  | .arr t xs, b, hl, hl', _, _, p, hd => by
    simp only [Json.listDoc, Bool.and_eq_true] at hl
    cases b with
    | arr t' ys =>
      simp only [Json.listDoc, Bool.and_eq_true] at hl'
      by_cases htt : t = .raw ∨ t' = .list
      · rw [DE.diffNode_arr_arr ho xs ys hl.1 hl'.1 htt] at hd
        rw [equals_arr_list ho xs ys hl.1 hl'.1]
        cases he : equalsList o xs ys with
        | true => rfl
        | false =>
          simp [equals_arr_list ho xs ys (t := .list) (t' := .list) rfl rfl, he] at hd
      · have htt' : t = .list ∧ t' = .raw := by
          have h1 := hl.1; have h2 := hl'.1
          cases t <;> cases t' <;> simp_all
        obtain ⟨rfl, rfl⟩ := htt'
        exact absurd hd (DE.diffNode_arr_other_ne ho xs _ hl.1 (.inr ⟨rfl, ys, rfl⟩) true p)
    | _ =>
      exact absurd hd (DE.diffNode_arr_other_ne ho xs _ hl.1
        (.inl (fun _ _ e => by cases e)) true p)
  | .obj kvs, b, hl, hl', hw, hw', p, hd => by
    cases b with
    | obj kvs' =>
      simp only [Json.listDoc] at hl hl'
      simp only [Json.wf, Bool.and_eq_true] at hw hw'
      exact equals_obj_of_diff_nil hw.1 hw'.1 hd
        (merge_allLook_of_diffKvs_nil o ho M kvs kvs' hl hl' hw.2 hw'.2 p)
    | _ => exact absurd hd (DE.diffNode_obj_other_ne o true kvs _ (fun _ e => by cases e) p)
theorem merge_allLook_of_diffKvs_nil (o : Opts) (ho : dispatchTag o = .list) (M : PrecMono o) :
    ∀ (r kvs' : List (String × Json)), listDocKvs r = true → listDocKvs kvs' = true →
      wfKvs r = true → wfKvs kvs' = true →
      ∀ p, diffKvs o true p kvs' r = [] → AllLook (equals o) r kvs'
  | [], _, _, _, _, _, _, _ => fun _ _ hm => by cases hm
  | (k, v) :: r, kvs', hl, hl', hw, hw', p, hd => by
    simp only [listDocKvs, wfKvs, Bool.and_eq_true] at hl hw
    obtain ⟨⟨v', hlk, hdv⟩, hdr⟩ := diffKvs_cons_nil hd
    have hr := merge_allLook_of_diffKvs_nil o ho M r kvs' hl.2 hl' hw.2 hw' p hdr
    have hv := merge_equals_of_diff_nil o ho M v v' hl.1 (alookup_listDoc hlk hl') hw.1
      (alookup_wf hlk hw') _ hdv
    intro k0 v0 hm
    rcases List.mem_cons.1 hm with e | hm
    · cases e; exact ⟨v', hlk, hv⟩
    · exact hr k0 v0 hm
end

/-- **C05 (⇒), list reading, MERGE strategy, WITH a Precision option.** An empty diff means
    `Equals` under the options (and the advertised equivalence). No hypothesis on the precision
    other than the IEEE law `PrecMono`; no hash hypothesis; `null`s and non-finite numbers allowed. -/
theorem equals_of_diffM_nil_merge_precision (o : Opts) (ho : dispatchTag o = .list)
    (hm : isMerge o = true) (M : PrecMono o) (a b : Json)
    (hl : a.listDoc = true) (hl' : b.listDoc = true) (hw : a.wf = true) (hw' : b.wf = true)
    (hd : diffM o a b = []) : equals o a b = true ∧ equivB o a b = true := by
  unfold diffM at hd
  rw [hm] at hd
  have := merge_equals_of_diff_nil o ho M a b hl hl' hw hw' [] hd
  exact ⟨this, by rw [← equals_eq_equivB_list o ho a b hl hl']; exact this⟩

/-! ## 3b. the (⇐) direction that survives a Precision option: structurally equal documents
      (`Equals` without options) have an empty merge diff -/

theorem equalsList_mono (o : Opts) (ho : dispatchTag o = .list) (M : PrecMono o)
    (xs ys : List Json) (hx : listDocList xs = true) (hy : listDocList ys = true)
    (h : equalsList [] xs ys = true) : equalsList o xs ys = true := by
  rw [equalsList_eq_equivList [] rfl xs ys hx hy] at h
  rw [equalsList_eq_equivList o ho xs ys hx hy]
  exact DPL.equivList_mono o ho M xs ys h

mutual
theorem diffNode_nil_of_equals_nil (o : Opts) (ho : dispatchTag o = .list) (M : PrecMono o) :
    ∀ (a b : Json), a.rawDoc = true → a.wf = true → b.listDoc = true → b.wf = true →
      equals [] a b = true → ∀ p, diffNode o true a b p = []
  | .void, b, _, _, _, _, h, p => by
    rw [DE.diffNode_scalar o true _ b (fun _ _ e => by cases e) (fun _ e => by cases e) p]
    exact (diffCommon_nil_iff true _ b p).2 h
  | .null, b, _, _, _, _, h, p => by
    rw [DE.diffNode_scalar o true _ b (fun _ _ e => by cases e) (fun _ e => by cases e) p]
    exact (diffCommon_nil_iff true _ b p).2 h
  | .bool _, b, _, _, _, _, h, p => by
    rw [DE.diffNode_scalar o true _ b (fun _ _ e => by cases e) (fun _ e => by cases e) p]
    exact (diffCommon_nil_iff true _ b p).2 h
  | .num _, b, _, _, _, _, h, p => by
    rw [DE.diffNode_scalar o true _ b (fun _ _ e => by cases e) (fun _ e => by cases e) p]
    exact (diffCommon_nil_iff true _ b p).2 h
  | .str _, b, _, _, _, _, h, p => by
    rw [DE.diffNode_scalar o true _ b (fun _ _ e => by cases e) (fun _ e => by cases e) p]
    exact (diffCommon_nil_iff true _ b p).2 h
  | .arr t xs, b, hr, _, hl', _, h, p => by
    have hla := rawDoc_listDoc _ hr
    simp only [Json.rawDoc, Bool.and_eq_true, beq_iff_eq] at hr
    obtain ⟨rfl, _⟩ := hr
    simp only [Json.listDoc, Bool.and_eq_true] at hla
    cases b with
    | arr t' ys =>
      simp only [Json.listDoc, Bool.and_eq_true] at hl'
      rw [DE.diffNode_arr_arr ho xs ys rfl hl'.1 (.inl rfl)]
      have he : equalsList [] xs ys = true := by
        rwa [equals_arr_list (o := []) rfl xs ys rfl hl'.1] at h
      have he' := equalsList_mono o ho M xs ys hla.2 hl'.2 he
      simp [equals_arr_list ho xs ys (t := .list) (t' := .list) rfl rfl, he']
    | _ => simp [equals, Json.dispatch, effTag, dispatchTag] at h
  | .obj kvs, b, hr, hw, hl', hw', h, p => by
    cases b with
    | obj kvs' =>
      simp only [Json.rawDoc] at hr
      simp only [Json.listDoc] at hl'
      simp only [Json.wf, Bool.and_eq_true] at hw hw'
      have h2 := ((equals_obj_iff [] hw.1 hw'.1).1 h).2
      have hk : equalsKvs [] kvs kvs' = true := by
        simp only [equals, Bool.and_eq_true] at h
        exact h.2
      rw [DE.diffNode_obj_obj, diffKvs_nil_of_equals_nil o ho M kvs kvs' hr hw.2 hl' hw'.2 hk p,
        filter_added_nil h2]
      rfl
    | _ => simp [equals] at h
theorem diffKvs_nil_of_equals_nil (o : Opts) (ho : dispatchTag o = .list) (M : PrecMono o) :
    ∀ (r kvs' : List (String × Json)), rawDocKvs r = true → wfKvs r = true →
      listDocKvs kvs' = true → wfKvs kvs' = true →
      equalsKvs [] r kvs' = true → ∀ p, diffKvs o true p kvs' r = []
  | [], kvs', _, _, _, _, _, p => DE.diffKvs_nil o true p kvs'
  | (k, v) :: r, kvs', hr, hw, hl', hw', h, p => by
    simp only [rawDocKvs, wfKvs, Bool.and_eq_true] at hr hw
    simp only [equalsKvs, Bool.and_eq_true] at h
    rw [DE.diffKvs_cons, diffKvs_nil_of_equals_nil o ho M r kvs' hr.2 hw.2 hl' hw' h.2 p]
    cases hl : alookup k kvs' with
    | none => simp [hl] at h
    | some v' =>
      simp only [hl] at h
      simp only [List.append_nil]
      exact diffNode_nil_of_equals_nil o ho M v v' hr.1 hw.1 (alookup_listDoc hl hl')
        (alookup_wf hl hw') h.1 _
end

/-- **C05 (⇐) as far as it holds in MERGE mode with a Precision option**: documents that are
    `Equals` WITHOUT options (structurally equal; `specEq`) have an empty diff. Together with §3:
    `Equals() ⇒ Diff(o) = [] ⇒ Equals(o)`; neither arrow can be reversed
    (`Witness.converse_fails_scalar`, `Witness.specEq_fails_array`). -/
theorem diffM_nil_of_equals_nil_merge_precision (o : Opts) (ho : dispatchTag o = .list)
    (hm : isMerge o = true) (M : PrecMono o) (a b : Json)
    (hr : a.rawDoc = true) (hw : a.wf = true) (hl' : b.listDoc = true) (hw' : b.wf = true)
    (h : equals [] a b = true) : diffM o a b = [] := by
  unfold diffM
  rw [hm]
  exact diffNode_nil_of_equals_nil o ho M a b hr hw hl' hw' h []

/-- the same with the structural equality of the specification as hypothesis -/
theorem diffM_nil_of_specEq_merge_precision (o : Opts) (ho : dispatchTag o = .list)
    (hm : isMerge o = true) (M : PrecMono o) (a b : Json)
    (hr : a.rawDoc = true) (hw : a.wf = true) (hl' : b.listDoc = true) (hw' : b.wf = true)
    (h : specEq a b = true) : diffM o a b = [] := by
  refine diffM_nil_of_equals_nil_merge_precision o ho hm M a b hr hw hl' hw' ?_
  rw [equals_eq_equivB_list [] rfl a b (rawDoc_listDoc a hr) hl']
  exact h

/-! ## 4. counter-witnesses and what the hypotheses are for

  `numWithin` is a runtime `Float` computation that the kernel cannot evaluate, so every witness is
  stated relative to the one or two IEEE facts about concrete numbers it depends on (the `#eval`s at
  the end of the file evaluate them with the runtime: `eps = 0.01`, `x = 1`, `y = 1.00001`; and
  `eps = -1`). -/

namespace Witness

/-- the option list of `jd -f merge -precision eps` -/
abbrev oP (eps : UInt64) : Opts := [.merge, .prec eps]

/-- **The converse of §3 fails = KF-C05-precision in MERGE mode.** Two numbers within `eps` of each
    other but not within `+0` (`1` and `1.00001` under `-precision 0.01`) are `Equals` under the
    options, but the diff is not empty: `diff_common.go` compares scalars WITHOUT the options, and
    the number is replaced. -/
theorem converse_fails_scalar (eps x y : UInt64) (h1 : numWithin eps x y = true)
    (h0 : numWithin 0 x y = false) :
    equals (oP eps) (.num x) (.num y) = true ∧
      diffM (oP eps) (.num x) (.num y) = [{ merge := true, path := [], add := [.num y] }] := by
  refine ⟨by simp [equals, precOf, h1], ?_⟩
  unfold diffM
  rw [DE.diffNode_scalar _ _ _ _ (fun _ _ e => by cases e) (fun _ e => by cases e)]
  simp [diffCommon, equals, precOf, h0, isMerge]

/-- the same one level down, as an object member: `{"k":1}` vs `{"k":1.00001}` -/
theorem converse_fails_member (eps x y : UInt64) (h1 : numWithin eps x y = true)
    (h0 : numWithin 0 x y = false) :
    equals (oP eps) (.obj [("k", .num x)]) (.obj [("k", .num y)]) = true ∧
      diffM (oP eps) (.obj [("k", .num x)]) (.obj [("k", .num y)])
        = [{ merge := true, path := [.key "k"], add := [.num y] }] := by
  refine ⟨by simp [equals, equalsKvs, alookup, precOf, h1], ?_⟩
  unfold diffM
  rw [DE.diffNode_obj_obj, DE.diffKvs_cons, DE.diffKvs_nil]
  simp only [alookup, if_true]
  rw [DE.diffNode_scalar _ _ _ _ (fun _ _ e => by cases e) (fun _ e => by cases e)]
  simp [diffCommon, equals, precOf, h0, isMerge]

/-- ... whereas inside an ARRAY the same two numbers are NOT reported: `jsonList.diff` in merge mode
    compares the arrays with `Equals(options)`. So `a.Patch(a.Diff(b))` keeps `[1]` where `b` has
    `[1.00001]`: the result `Equals` `b` under the options (§1) but is NOT structurally equal to it —
    the conclusion `specEq r b` of `DPK.merge_diff_then_patch_list` cannot be kept. -/
theorem specEq_fails_array (sw : Bool) (eps x y : UInt64) (h1 : numWithin eps x y = true)
    (h0 : numWithin 0 x y = false) :
    diffM (oP eps) (.arr .raw [.num x]) (.arr .raw [.num y]) = [] ∧
      patchAll sw (.arr .raw [.num x]) (diffM (oP eps) (.arr .raw [.num x]) (.arr .raw [.num y]))
        = .ok (.arr .raw [.num x]) ∧
      specEq (.arr .raw [.num x]) (.arr .raw [.num y]) = false := by
  have hd : diffM (oP eps) (.arr .raw [.num x]) (.arr .raw [.num y]) = [] := by
    unfold diffM
    rw [DE.diffNode_arr_arr (o := oP eps) rfl _ _ rfl rfl (.inl rfl)]
    simp [isMerge, equals, effTag, Json.dispatch, equalsList, precOf, h1]
  refine ⟨hd, ?_, ?_⟩
  · rw [hd]; simp [patchAll]
  · simp [specEq, equivB, dispatchTag, equivList, precOf, h0]

/-- **`nonnegBits (precOf o)` is needed** (relative to IEEE: `|y - y| ≤ eps` is false for a negative
    or NaN `eps`; the CLI accepts `-precision=-1`): under such a precision no number `Equals`
    itself, and `null → y` yields `y`, which does not `Equals` the target `y`. -/
theorem negative_precision_breaks (sw : Bool) (eps y : UInt64) (h : numWithin eps y y = false) :
    patchAll sw .null (diffM (oP eps) .null (.num y)) = .ok (.num y) ∧
      equals (oP eps) (.num y) (.num y) = false := by
  refine ⟨?_, by simp [equals, precOf, h]⟩
  rw [patchAll_diffM_list sw (oP eps) rfl rfl .null (.num y) rfl rfl rfl]
  simp [dl, equals, Json.isNull, mapply, mset]

/-- **`PrecMono o` is used**: if two numbers were within `+0` but not within `eps` (impossible in
    IEEE arithmetic for `eps ≥ +0`, not provable in the kernel), the diff would be empty and the
    result `a` would not `Equals` `b` under the options. -/
theorem precMono_used (sw : Bool) (eps x y : UInt64) (h0 : numWithin 0 x y = true)
    (h1 : numWithin eps x y = false) :
    diffM (oP eps) (.num x) (.num y) = [] ∧
      patchAll sw (.num x) (diffM (oP eps) (.num x) (.num y)) = .ok (.num x) ∧
      equals (oP eps) (.num x) (.num y) = false := by
  have hd : diffM (oP eps) (.num x) (.num y) = [] := by
    unfold diffM
    rw [DE.diffNode_scalar _ _ _ _ (fun _ _ e => by cases e) (fun _ e => by cases e)]
    simp [diffCommon, equals, precOf, h0]
  refine ⟨hd, ?_, by simp [equals, precOf, h1]⟩
  rw [hd]; simp [patchAll]

/-- **C11: "the diff is not empty (or `a` is an object)" is needed** in
    `merge_render_correct_precision_gen`: for two equal non-objects the empty diff renders to `{}`
    and RFC 7386 turns `true` into `{}`. (Any options; this is why C11 says "that differ".) -/
theorem render_equal_nonobject (eps : UInt64) :
    renderMergeDoc (diffM (oP eps) (.bool true) (.bool true)) = .ok (.obj []) ∧
      equals (oP eps) (mergePatch (.bool true) (.obj [])) (.bool true) = false := by
  constructor
  · unfold diffM
    rw [DE.diffNode_scalar _ _ _ _ (fun _ _ e => by cases e) (fun _ e => by cases e)]
    simp [diffCommon, equals, renderMergeDoc]
  · simp [mergePatch, mergeMembers, equals]

/-- under a precision the hypothesis `equals o a b = false` of `merge_render_correct_precision` is
    STRONGER than "the diff is not empty": `[1]` and `[1.00001]` under `-precision 0.01` are not
    told apart, the diff is empty, `RenderMerge` prints `{}`, and RFC 7386 turns `[1]` into `{}`,
    which is not `b`. (The pair is outside C11: the documents do not differ under the options.) -/
theorem render_within_eps_array (eps x y : UInt64) (h1 : numWithin eps x y = true) :
    renderMergeDoc (diffM (oP eps) (.arr .raw [.num x]) (.arr .raw [.num y])) = .ok (.obj []) ∧
      equals (oP eps) (mergePatch (.arr .raw [.num x]) (.obj [])) (.arr .raw [.num y]) = false := by
  constructor
  · have hd : diffM (oP eps) (.arr .raw [.num x]) (.arr .raw [.num y]) = [] := by
      unfold diffM
      rw [DE.diffNode_arr_arr (o := oP eps) rfl _ _ rfl rfl (.inl rfl)]
      simp [isMerge, equals, effTag, Json.dispatch, equalsList, precOf, h1]
    rw [hd]; simp [renderMergeDoc]
  · simp [mergePatch, mergeMembers, equals]

end Witness

/-! ## 5. non-vacuity: a concrete pair inside every hypothesis -/

namespace Example

/-- `0.01` -/
def eps : UInt64 := 0x3F847AE147AE147B
/-- `1`, `1.001`, `2` -/
def one : UInt64 := 0x3FF0000000000000
def one001 : UInt64 := 0x3FF004189374BC6A
def two : UInt64 := 0x4000000000000000

/-- `{"a":1,"b":[1,2],"c":{"d":"x","n":null},"p":1,"z":true}` (`a` may hold `null`s) -/
def exA : Json :=
  .obj [("a", .num one), ("b", .arr .raw [.num one, .num two]),
    ("c", .obj [("d", .str "x"), ("n", .null)]), ("p", .num one), ("z", .bool true)]
/-- `{"a":2,"b":[1.001,2],"c":{"e":[true]},"p":1.001,"y":{"k":"v"}}` -/
def exB : Json :=
  .obj [("a", .num two), ("b", .arr .raw [.num one001, .num two]),
    ("c", .obj [("e", .arr .raw [.bool true])]), ("p", .num one001), ("y", .obj [("k", .str "v")])]

theorem ex_docs : exA.wf = true ∧ exA.rawDoc = true ∧ exB.wf = true ∧ exB.rawDoc = true ∧
    exB.nullFree = true ∧ objVoidFree exB = true ∧ exB.finiteNums = true ∧
    nonnegBits eps = true := by decide

/-- the pair satisfies every hypothesis of `patchM_diffM_MERGE_precision` (only the IEEE-754 laws
    are assumed) -/
example (L : FloatLaws) (M : PrecMono [.merge, .prec eps]) :
    ∃ r, patchM exA (diffM [.merge, .prec eps] exA exB) = .ok r ∧
      equals [.merge, .prec eps] r exB = true ∧ equivB [.merge, .prec eps] r exB = true :=
  patchM_diffM_MERGE_precision L eps ex_docs.2.2.2.2.2.2.2 M exA exB ex_docs.1 ex_docs.2.1
    ex_docs.2.2.1 ex_docs.2.2.2.1 ex_docs.2.2.2.2.1 ex_docs.2.2.2.2.2.1 ex_docs.2.2.2.2.2.2.1

/-- ... and of the C11 theorem (object form: no hypothesis that the documents differ) -/
example (L : FloatLaws) (M : PrecMono [.merge, .prec eps]) :
    ∃ m, renderMergeDoc (diffM [.merge, .prec eps] exA exB) = .ok m ∧
      equals [.merge, .prec eps] (mergePatch exA m) exB = true ∧
      equivB [.merge, .prec eps] (mergePatch exA m) exB = true :=
  merge_render_correct_precision_obj L [.merge, .prec eps] rfl rfl ex_docs.2.2.2.2.2.2.2 M exA exB
    ex_docs.1 ex_docs.2.1 ex_docs.2.2.1 ex_docs.2.2.2.1 ex_docs.2.2.2.2.1 ex_docs.2.2.2.2.2.1
    ex_docs.2.2.2.2.2.2.1 rfl

/-- what the library returns on the pair, relative to the four IEEE facts involved (evaluated by
    the runtime at the end of the file): `"a"` and `"p"` are replaced (`"p"`: 1 → 1.001 although
    within `eps`: scalars are compared without the options), the array `"b"` of `a` is KEPT
    (`[1,2]`, where `b` has `[1.001,2]`: arrays are compared with the options). -/
def exR : Json :=
  .obj [("a", .num two), ("b", .arr .raw [.num one, .num two]),
    ("c", .obj [("e", .arr .raw [.bool true])]), ("p", .num one001), ("y", .obj [("k", .str "v")])]

theorem ex_result (h1 : numWithin eps one one001 = true) (h2 : numWithin eps two two = true)
    (h0 : numWithin 0 one one001 = false) (h0' : numWithin 0 one two = false) :
    patchM exA (diffM [.merge, .prec eps] exA exB) = .ok exR := by
  unfold patchM
  rw [patchAll_diffM_list true [.merge, .prec eps] rfl rfl exA exB ex_docs.2.1 ex_docs.2.2.2.1
    ex_docs.2.2.2.2.2.1]
  simp [exA, exB, exR, dl, dlKvs, alookup, equals, equalsList, effTag, Json.dispatch,
    precOf, h1, h2, h0, h0', consE, mapply, mset, putKvs, getK, ainsert, aerase, Json.isVoid]

/-- the RFC 7386 document rendered from that diff:
    `{"a":2,"c":{"d":null,"e":[true],"n":null},"p":1.001,"y":{"k":"v"},"z":null}` (no `"b"`) -/
def exM : Json :=
  .obj [("a", .num two), ("c", .obj [("d", .null), ("e", .arr .raw [.bool true]), ("n", .null)]),
    ("p", .num one001), ("y", .obj [("k", .str "v")]), ("z", .null)]

theorem ex_render (h1 : numWithin eps one one001 = true) (h2 : numWithin eps two two = true)
    (h0 : numWithin 0 one one001 = false) (h0' : numWithin 0 one two = false) :
    renderMergeDoc (diffM [.merge, .prec eps] exA exB) = .ok exM ∧ mergePatch exA exM = exR := by
  constructor
  · rw [renderMergeDoc_diffM [.merge, .prec eps] rfl rfl exA exB ex_docs.2.1 ex_docs.2.2.2.1
      ex_docs.2.2.2.2.2.1]
    simp [exA, exB, exM, rl, nulE, dl, dlKvs, alookup, equals, equalsList, effTag, Json.dispatch,
      precOf, h1, h2, h0, h0', consE, mapply, mset, putKvs, getK, ainsert, Json.isVoid, nest]
  · simp [exA, exM, exR, mergePatch, mergeMembers, alookup, ainsert, aerase]

/-- a target with `null`s: `{"a":null,"b":[null,1.001]}` -/
def exBn : Json := .obj [("a", .null), ("b", .arr .raw [.null, .num one001])]

/-- the pair `exA`, `exBn` satisfies every hypothesis of
    `merge_diff_then_patch_list_precision_nulls` (and `exBn` is not null-free) -/
example (L : FloatLaws) (M : PrecMono [.merge, .prec eps]) (sw : Bool) :
    exBn.nullFree = false ∧
    ∃ r, patchAll sw exA (diffM [.merge, .prec eps] exA exBn) = .ok r ∧
      equals [.merge, .prec eps] r exBn = true ∧ equivB [.merge, .prec eps] r exBn = true :=
  ⟨by decide, merge_diff_then_patch_list_precision_nulls L sw [.merge, .prec eps] rfl rfl
    ex_docs.2.2.2.2.2.2.2 M exA exBn ex_docs.1 ex_docs.2.1 (by decide) (by decide) (by decide)
    (by decide)⟩

/-- the pair of `Witness.negative_precision_breaks` with `y = 1` satisfies every OTHER hypothesis of
    `merge_diff_then_patch_list_precision` -/
example : Json.null.wf = true ∧ Json.null.rawDoc = true ∧ (Json.num one).wf = true ∧
    (Json.num one).rawDoc = true ∧ (Json.num one).nullFree = true ∧
    objVoidFree (.num one) = true ∧ (Json.num one).finiteNums = true := by decide

end Example

end Jd.MP

/-! The IEEE facts the witnesses and the example are relative to, evaluated by the runtime (which
    does evaluate `Float`): `eps = 0.01`, `1` vs `1.00001`, `1` vs `1.001`, `2` vs `2`, `1` vs `2`;
    and `|y - y| ≤ -1` for `y = 1`. -/
-- (within 0.01, within +0) for 1 vs 1.00001: (true, false)
#eval (Jd.numWithin 0x3F847AE147AE147B 0x3FF0000000000000 0x3FF0000A7C5AC472,
  Jd.numWithin 0 0x3FF0000000000000 0x3FF0000A7C5AC472)
-- the four facts of `Example.ex_result`: (true, true, false, false)
#eval (Jd.numWithin Jd.MP.Example.eps Jd.MP.Example.one Jd.MP.Example.one001,
  Jd.numWithin Jd.MP.Example.eps Jd.MP.Example.two Jd.MP.Example.two,
  Jd.numWithin 0 Jd.MP.Example.one Jd.MP.Example.one001,
  Jd.numWithin 0 Jd.MP.Example.one Jd.MP.Example.two)
-- the example itself, by the runtime: both `true`
#eval (match Jd.patchM Jd.MP.Example.exA
    (Jd.diffM [.merge, .prec Jd.MP.Example.eps] Jd.MP.Example.exA Jd.MP.Example.exB) with
  | .ok r => Jd.Spec.equivB [] r Jd.MP.Example.exR
  | _ => false,
  match Jd.renderMergeDoc
    (Jd.diffM [.merge, .prec Jd.MP.Example.eps] Jd.MP.Example.exA Jd.MP.Example.exB) with
  | .ok m => Jd.Spec.equivB [] m Jd.MP.Example.exM
  | _ => false)
-- `-precision=-1`: `|1 - 1| ≤ -1` is false
#eval Jd.numWithin 0xBFF0000000000000 0x3FF0000000000000 0x3FF0000000000000

#print axioms Jd.MP.memSound_list
#print axioms Jd.MP.merge_diff_then_patch_list_precision_nulls
#print axioms Jd.MP.merge_diff_then_patch_list_precision
#print axioms Jd.MP.patchM_diffM_MERGE_precision
#print axioms Jd.MP.soundR
#print axioms Jd.MP.diffM_nil_iff_dl
#print axioms Jd.MP.merge_render_correct_precision_gen
#print axioms Jd.MP.merge_render_correct_precision
#print axioms Jd.MP.merge_render_correct_precision_obj
#print axioms Jd.MP.merge_render_correct_MERGE_precision
#print axioms Jd.MP.merge_render_doc_precision
#print axioms Jd.MP.merge_equals_of_diff_nil
#print axioms Jd.MP.equals_of_diffM_nil_merge_precision
#print axioms Jd.MP.diffNode_nil_of_equals_nil
#print axioms Jd.MP.diffM_nil_of_equals_nil_merge_precision
#print axioms Jd.MP.diffM_nil_of_specEq_merge_precision
#print axioms Jd.MP.Witness.converse_fails_scalar
#print axioms Jd.MP.Witness.converse_fails_member
#print axioms Jd.MP.Witness.specEq_fails_array
#print axioms Jd.MP.Witness.negative_precision_breaks
#print axioms Jd.MP.Witness.precMono_used
#print axioms Jd.MP.Witness.render_equal_nonobject
#print axioms Jd.MP.Witness.render_within_eps_array
#print axioms Jd.MP.Example.ex_docs
#print axioms Jd.MP.Example.ex_result
#print axioms Jd.MP.Example.ex_render
