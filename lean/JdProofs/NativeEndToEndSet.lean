/-
  JdProofs.NativeEndToEndSet — property C02, the END-TO-END consequence "a diff printed by `jd a b`
  and applied with `jd -p` turns a into b", for the readings JdProofs.NativeEndToEnd (`Jd.E2E`: list
  reading, strict strategy) does not cover.  Everything lives in the namespace `Jd.E2ES`.

  STAGES REACHED: (A) MERGE strategy, list reading — full;  (B) SET and MULTISET readings, strict
  strategy — full;  (C, beyond the task) MERGE combined with SET / MULTISET — full;  plus the total
  forms (the renderer succeeds), a general theorem on what the reader does WITHOUT `mergeMono`
  (section 12), and two counter-witnesses (sections 11, 13).  No SetKeys, no Precision option
  (`keysOf o = none`, `precOf o = 0`: the domain of the in-memory theorems that are composed here).

  All theorems are about the LIBRARY functions of the model: `diffM` (`a.Diff(b, options...)`),
  `renderM nc []` (`Diff.Render()`), `readDiffM nc` (`ReadDiffString`), `patchM` (`a.Patch(d)`),
  `equals` (`Equals`), and the hash-free specification `equivB` / `specEq`.

  ───────────── (B) SET / MULTISET, strict strategy (sections 1–4) ─────────────
  Options: `DES.SetReading o` (`dispatchTag o = .set ∧ keysOf o = none`, or `dispatchTag o = .mset`),
  `precOf o = 0`, `isMerge o = false`.
   * `sdiff_ok`, `diffM_shunk` — the NEW induction (over `jsonInd`, with `RealS.subs_nil`,
       `RealS.set_hunk_real`, `RealS.mset_hunk_real`): every hunk of `a.Diff(b)` is `SHunk`: strict, no
       context lines, a path of KEYS of the two documents possibly followed by `{}` / `[]` (no keyed
       `PathSetKeys` element, no index at all), several removed / added values only with that tail, no
       void entry (except the single `+ void` of an object replaced by the absent document at the
       root, where `voidOK` holds), at least one `-` / `+` line, every payload value LITERALLY a
       sub-term of `a` or `b` and a plain document (`rawDoc`: no type tag — a replaced array is
       reported as the plain `jsonArray`, unlike the list reading).
   * `diffM_premises_set` — hence `wfDiff d`, `d.all rawHunk`, `noEmptySetKeys d`, `d.all voidOK`,
       `d.all listDocHunk`: the premises of `NativeRT.read_render`, `NativeRT.render_norm` and of the
       EXACT same-effect theorem `Robust.patchAll_normDiff_of_noEmptySetKeys`.
   * `diffM_codecOK_set`, `diffM_pathOK_of_inputs_set`, `diffM_renders_set`.
   * `diff_text_lossless_set` — C02 proper for diffs produced by `Diff`:
         ∃ d', readDiffM nc text = .ok d' ∧ renderM nc [] d' = some text ∧
               ∀ c, patchM c d' = patchM c (diffM o a b)        (EXACT, on EVERY document c).
   * `diff_render_read_patch_set`, `diff_print_read_patch_set` — THE END-TO-END THEOREM:
         renderM nc [] (diffM o a b) = some text →
         ∃ d', readDiffM nc text = .ok d' ∧ d' = normDiff (diffM o a b) ∧
           ∃ r, patchM a d' = .ok r ∧ patchM a (diffM o a b) = .ok r ∧
                equivB o r b = true ∧ equals o r b = true.
     (the result is the SAME document as the one the in-memory patch gives.)
   HYPOTHESES
     `a.rawDoc`, `a.wf`, `b.rawDoc`, `b.wf` (premises / lossless) resp. `a.setDoc`, `b.setDoc` (end to
       end): documents as read from JSON text — plain arrays, sorted unique keys, finite numbers, no
       `-0` (the domain of `SetDP.diff_then_patch_setmodes`).
     `E2E.voidFree a`, `E2E.voidFree b`: no void array element / object member.  It contains
       `DPL.memOK` (the C01 hypothesis) and is NEEDED beyond it: `Witness.void_element_witness_set`
       (`[void]` → `[]` under SET: in the C01 domain, `HashFaithful` holds, the in-memory patch
       succeeds, the text is `@ [{}]` alone and `ReadDiffString` REJECTS it).  Void is not a JSON
       value; no reader produces it inside a document.
     `DES.DiffFaithful o (subterms a) (subterms b)` (premises / lossless; decidable:
       `DES.diffFaithful_of_check`) resp. `HashFaithful o (subterms a ++ subterms b)` + `FloatEq0`
       (end to end; it implies the former): no harmful hash collision.  Used for "a set diff has no
       sub-diff below a `PathSetKeys` element" (with an alias such as `{"a":""}` / `{"a":[]}` the diff
       does descend into the matched members; known finding KF-C04) and, end to end, by the in-memory
       theorem.
     `FloatLaws`, `FloatEq0`: the IEEE-754 laws the in-memory theorem needs.
     `∀ z ∈ subterms a ++ subterms b, ValOK nc z`, `∀ h ∈ diffM o a b, PathOK nc h.path`: the contract on
       encoding/json (not modelled) for the values of the two documents and the path arrays of the
       diff, as in `Jd.E2E`; `diffM_pathOK_of_inputs_set` derives the second from the contract on all
       paths `keys ++ ({} | [] | nothing)` over the keys of the documents.

  ───────────── (A) MERGE strategy, list reading (sections 5–8) ─────────────
  Options: `isMerge o = true`, `dispatchTag o = .list`, `precOf o = 0` (in particular `[MERGE]`).
   * A merge diff is `l.map mh` for the pure function `l = Merge.dl o a b` (`Merge.diffNode_eq_dl`);
       ANY such list is in the domain of the reader and of the merge same-effect theorem
       (`wfDiff_mh`, `mergeVoidOK_mh`: a merge hunk is `^ {"Merge":true}` / `@ [keys]` / `+ value`,
       a deletion is the bare `+` line) — the premises need no induction and no hypothesis.
   * `normDiff_mh`: reading back untags the values and nothing else: the array that `Diff` re-typed
       as `jsonList` comes back as a plain `jsonArray`.
   * `pureMerge_ok` / `dl_entries` — the induction for the codec: every value of the pure diff is void
       or a sub-term of `b`, possibly re-typed at the top; key paths over the keys of `a` and `b`.
   * `memSoundU_list` — C01 re-proved for the diff AS READ BACK (untagged values), with the generic
       object step `DPK.obj_step`: so the result is obtained without any "up to tags" transfer.
   * `diffM_premises_mergeList`, `diffM_codecOK_mergeList`, `diffM_pathOK_of_inputs_mergeList`,
     `diff_text_lossless_mergeList` (identical text; same effect on EVERY document up to `untag` of the
       result — the tags of the re-typed arrays do differ),
     `diff_render_read_patch_mergeList`, `diff_print_read_patch_mergeList`:
         ∃ d', readDiffM nc text = .ok d' ∧ d' = normDiff (diffM o a b) ∧
           ∃ r, patchM a d' = .ok r ∧ equals o r b = true ∧ equivB o r b = true ∧ specEq r b = true.
   HYPOTHESES: `a.wf`, `a.rawDoc` (`a` may contain nulls and void members); `b.wf`, `b.rawDoc`,
     `b.nullFree` (the domain of merge patches), `Merge.objVoidFree b`, `b.finiteNums`; `FloatLaws`
     (exactly those of `DPK.merge_diff_then_patch_list`); the codec contract on the sub-terms of `b`
     ONLY (all values come from `b`) and on the paths of the diff.  No hash hypothesis.

  ───────────── (C) MERGE with SET / MULTISET (section 9) ─────────────
  `SetMergeDom o a b`: `isMerge o`, `dispatchTag o = .set ∨ .mset`, `keysOf o = none`, `precOf o = 0`,
  `a.setDoc`, `b.setDoc`, `b.nullFree`, `objVoidFree b`, `HashFaithful o (subterms a ++ subterms b)`
  (the hypotheses of `DPK.merge_diff_then_patch_setmodes`), plus `FloatEq0`, `FloatLaws`.
   * The typed payload `.arr .set ys` / `.arr .mset ys`: `json.Marshal` writes its members in stored
       order, so its text is the text of the plain array, `ValOK` carries over (`valOK_retag`), the
       reader returns the plain array (`untag`), and under the same options the plain array is read
       as a set / bag again: `memSoundU_set` proves C01 for the diff as read back.
   * `diffM_premises_mergeSet`, `diffM_codecOK_mergeSet`, `diff_text_lossless_mergeSet`,
     `diff_render_read_patch_mergeSet`, `diff_print_read_patch_mergeSet`
         (… ∃ r, patchM a d' = .ok r ∧ equals o r b = true ∧ equivB o r b = true).
   * `HashFaithful` is NEEDED here for C02 itself, not only for C01 — FINDING (section 13,
     `Collision.collision_witness_setMerge`, replayed on the Go library v2 with the same outcome):
       `{"a":"x","b":["aedb68afb","b7cdeb749"]}` → `{"a":"y","b":["a568b3ad2","b76a57d20"]}`,
       `[SET, MERGE]`.  The arrays collide (genuine FNV-1a 64 collision), the merge strategy takes
       them for `Equal` and runs the STRICT set diff: `Diff` emits a strict hunk AFTER a merge hunk
       (`wfDiff = false`).  In memory `Patch` succeeds and the result `Equals` the target; in the text
       the strict hunk `@ ["b",{}]` has no metadata line, `ReadDiffString` lets it inherit
       `{"Merge":true}`, and `Patch` of the diff read back returns an ERROR ("multiple removals from
       non-set").  Class KF-C04 (hash collisions): a consequence of the known findings, with a new
       end-to-end symptom.  Every other hypothesis of the theorem holds for the pair.
   * `read_render_inherit` (section 12) — the general fact behind it, for ANY hunk sequence with
       `wfHunk` hunks: `readDiffM (render d) = .ok (inheritMerge false (normDiff d))`: the Merge flag
       is inherited by every following hunk (`NativeRT.read_render` is the case `mergeMono`).

  NON-VACUITY (section 10, `Jd.E2ES.Example`, codec `NativeRT.exCodec`):
     `ex_set_end_to_end`  `{"s":[true,null,{"k":null}]}` → `{"s":[{"k":null},null,false],"t":null}`,
                          `[SET]` and `[MULTISET]` (a `@ ["s",{}]` hunk next to an equal object member,
                          an added member);
     `ex_merge_end_to_end`, `ex_setMerge_end_to_end`  `{"s":["x","y"],"u":"x","v":["x"]}` →
                          `{"s":["y","x"],"t":[true],"v":["x","z"]}`, `[MERGE]`, `[SET, MERGE]`,
                          `[MULTISET, MERGE]` (re-typed arrays, a deletion, an addition);
     every hypothesis is proved (the paths of the diffs are obtained from `flat_paths_set` /
     `flat_paths_merge` without computing the diffs); only `FloatLaws` / `FloatEq0` remain.

  NOT PROVED here: the SetKeys reading; a Precision option together with these readings; colour
  output; anything under a hash collision (see the finding above).
-/
import JdModel
import JdSpec
import JdProofs.NativeRoundTrip
import JdProofs.Robust
import JdProofs.NativeEndToEnd
import JdProofs.SetDiffPatch
import JdProofs.DiffEmptySet
import JdProofs.RealDiffSet
import JdProofs.MergeProofs
import JdProofs.MergeSetModes
import JdProofs.DiffPatchKeys

set_option linter.unusedVariables false

namespace Jd.E2ES
open Jd Jd.Spec Jd.NativeRT Jd.Robust Jd.SetDP

/-! ## 0. the two `subterms` functions of the proof files are the same function -/

mutual
theorem subterms_eq : ∀ x : Json, DPL.subterms x = subterms x
  | .arr t xs => by simp only [DPL.subterms, subterms, subtermsList_eq xs]
  | .obj kvs => by simp only [DPL.subterms, subterms, subtermsKvs_eq kvs]
  | .void => rfl
  | .null => rfl
  | .bool _ => rfl
  | .num _ => rfl
  | .str _ => rfl
theorem subtermsList_eq : ∀ xs : List Json, DPL.subtermsList xs = subtermsList xs
  | [] => rfl
  | x :: r => by simp only [DPL.subtermsList, subtermsList, subterms_eq x, subtermsList_eq r]
theorem subtermsKvs_eq : ∀ kvs : List (String × Json), DPL.subtermsKvs kvs = subtermsKvs kvs
  | [] => rfl
  | (k, v) :: r => by simp only [DPL.subtermsKvs, subtermsKvs, subterms_eq v, subtermsKvs_eq r]
end

/-- sub-terms of a document as read from text are documents as read from text -/
theorem rawDoc_subterm : ∀ (a : Json), a.rawDoc = true → ∀ z ∈ subterms a, z.rawDoc = true := by
  intro a
  induction a using jsonInd with
  | void => intro h z hz; simp only [subterms, List.mem_singleton] at hz; rw [hz]; exact h
  | null => intro h z hz; simp only [subterms, List.mem_singleton] at hz; rw [hz]; exact h
  | bool _ => intro h z hz; simp only [subterms, List.mem_singleton] at hz; rw [hz]; exact h
  | num _ => intro h z hz; simp only [subterms, List.mem_singleton] at hz; rw [hz]; exact h
  | str _ => intro h z hz; simp only [subterms, List.mem_singleton] at hz; rw [hz]; exact h
  | arr t xs ih =>
    intro h z hz
    simp only [subterms, List.mem_cons] at hz
    rcases hz with rfl | hz
    · exact h
    · obtain ⟨x, hx, hzx⟩ := DES.mem_subtermsList_inv hz
      simp only [Json.rawDoc, Bool.and_eq_true] at h
      exact ih x hx (DES.rawDocList_mem h.2 hx) z hzx
  | obj kvs ih =>
    intro h z hz
    simp only [subterms, List.mem_cons] at hz
    rcases hz with rfl | hz
    · exact h
    · obtain ⟨k, v, hm, hzv⟩ := DES.mem_subtermsKvs_inv hz
      simp only [Json.rawDoc] at h
      exact ih k v hm (DES.rawDocKvs_mem h hm) z hzv

/-! ## 1. key paths, possibly followed by `{}` / `[]` -/

/-- a path of object keys taken from `K` -/
def KPath (K : List String) : Path → Prop
  | [] => True
  | .key k :: r => k ∈ K ∧ KPath K r
  | _ => False

/-- what the induction establishes of every hunk of a strict diff in the SET / MULTISET readings;
    `p` is the path prefix, `S` a list of nodes containing the sub-terms of both documents -/
structure SHunk (S : List Json) (K : List String) (p : Path) (h : Hunk) : Prop where
  strict : h.merge = false
  before : h.before = []
  after : h.after = []
  path : ∃ q tl, KPath K q ∧ RealS.isTail tl ∧ h.path = p ++ q ++ tl ∧
    ((h.remove.length ≤ 1 ∧ h.add.length ≤ 1) ∨ tl ≠ [])
  remNV : ∀ v ∈ h.remove, v.isVoid = false
  addNV : (∀ v ∈ h.add, v.isVoid = false) ∨ (h.path = [] ∧ h.add.length ≤ 1)
  some : h.remove ≠ [] ∨ ∃ v ∈ h.add, v.isVoid = false
  pay : ∀ v ∈ h.remove ++ h.add, v.isVoid = true ∨ (v.rawDoc = true ∧ v ∈ S)

theorem SHunk.lift_key {S : List Json} {K : List String} {p : Path} {k : String} {h : Hunk}
    (hk : k ∈ K) (H : SHunk S K (p ++ [.key k]) h) : SHunk S K p h := by
  obtain ⟨q, tl, hq, ht, hpath, hmul⟩ := H.path
  exact ⟨H.strict, H.before, H.after,
    ⟨.key k :: q, tl, ⟨hk, hq⟩, ht, by simpa using hpath, hmul⟩, H.remNV, H.addNV, H.some, H.pay⟩

/-! ## 2. the induction over the strict diff in the SET / MULTISET readings -/

/-- the hunk replacing one value by another one (`value` hunks of JdProofs.RealDiffSet) -/
theorem shunk_value {S : List Json} {K : List String} {p : Path} {a b : Json}
    (ha : a.isVoid = false ∨ b.isVoid = false)
    (hra : a.rawDoc = true) (hrb : b.rawDoc = true) (hsa : a.isVoid = true ∨ a ∈ S)
    (hsb : b.isVoid = true ∨ b ∈ S) :
    SHunk S K p { path := p, remove := a.nodeList, add := b.nodeList } := by
  refine ⟨rfl, rfl, rfl, ⟨[], [], trivial, .inl rfl, by simp,
    .inl ⟨E2E.nodeList_length_le a, E2E.nodeList_length_le b⟩⟩, ?_, .inl ?_, ?_, ?_⟩
  · intro v hv; rw [(E2E.mem_nodeList.1 hv).1]; exact (E2E.mem_nodeList.1 hv).2
  · intro v hv; rw [(E2E.mem_nodeList.1 hv).1]; exact (E2E.mem_nodeList.1 hv).2
  · rcases ha with ha | hb
    · exact .inl (E2E.nodeList_ne_nil ha)
    · exact .inr ⟨b, E2E.mem_nodeList.2 ⟨rfl, hb⟩, hb⟩
  · intro v hv
    rcases List.mem_append.1 hv with hv | hv
    · obtain ⟨rfl, nv⟩ := E2E.mem_nodeList.1 hv
      rcases hsa with h | h
      · rw [nv] at h; cases h
      · exact .inr ⟨hra, h⟩
    · obtain ⟨rfl, nv⟩ := E2E.mem_nodeList.1 hv
      rcases hsb with h | h
      · rw [nv] at h; cases h
      · exact .inr ⟨hrb, h⟩

/-- **the generated hunks, SET / MULTISET readings, strict strategy.** `SA` / `SB` contain the
    sub-terms of the two documents; no harmful hash collision between them (`DiffFaithful`, so that a
    set diff has no sub-diff below a `PathSetKeys` element); no void constituent; keys in `K` -/
theorem sdiff_ok {o : Opts} (hm : DES.SetReading o) (hp : precOf o = 0) {SA SB : List Json}
    (FH : DES.DiffFaithful o SA SB) (K : List String)
    (hA : ∀ z ∈ SA, E2E.KidsNV z ∧ E2E.KeysIn K z) (hB : ∀ z ∈ SB, E2E.KidsNV z ∧ E2E.KeysIn K z) :
    ∀ a : Json, a.rawDoc = true → a.wf = true → Within SA a →
      ∀ b : Json, b.rawDoc = true → b.wf = true → Within SB b →
      ∀ p, (b.isVoid = true → p = []) →
      ∀ h ∈ diffNode o false a b p, SHunk (SA ++ SB) K p h := by
  have hd' : dispatchTag o = .set ∨ dispatchTag o = .mset := by
    rcases hm with ⟨hd, _⟩ | hd
    · exact .inl hd
    · exact .inr hd
  have scalar : ∀ a : Json, (∀ t xs, a ≠ .arr t xs) → (∀ kvs, a ≠ .obj kvs) →
      a.rawDoc = true → Within SA a → ∀ b : Json, b.rawDoc = true → Within SB b →
      ∀ p, ∀ h ∈ diffNode o false a b p, SHunk (SA ++ SB) K p h := by
    intro a h1 h2 hr wa b hrb wb p h hh
    rw [DPL.diffNode_scalar o a b h1 h2] at hh
    unfold diffCommon at hh
    split at hh
    · cases hh
    · next hne =>
      simp only [Bool.false_eq_true, if_false, List.mem_singleton] at hh
      subst hh
      refine shunk_value ?_ hr hrb (.inr (List.mem_append_left _ wa.self))
        (.inr (List.mem_append_right _ wb.self))
      cases ha : a.isVoid with
      | false => exact .inl rfl
      | true =>
        right
        cases hb : b.isVoid with
        | false => rfl
        | true =>
          exfalso; apply hne
          cases a <;> simp [Json.isVoid] at ha
          cases b <;> simp [Json.isVoid] at hb
          simp [equals, Json.isVoid]
  intro a
  induction a using jsonInd with
  | void => intro hr _ wa b hrb _ wb p _ h hh
            exact scalar _ (fun _ _ e => by cases e) (fun _ e => by cases e) hr wa b hrb wb p h hh
  | null => intro hr _ wa b hrb _ wb p _ h hh
            exact scalar _ (fun _ _ e => by cases e) (fun _ e => by cases e) hr wa b hrb wb p h hh
  | bool x => intro hr _ wa b hrb _ wb p _ h hh
              exact scalar _ (fun _ _ e => by cases e) (fun _ e => by cases e) hr wa b hrb wb p h hh
  | num x => intro hr _ wa b hrb _ wb p _ h hh
             exact scalar _ (fun _ _ e => by cases e) (fun _ e => by cases e) hr wa b hrb wb p h hh
  | str x => intro hr _ wa b hrb _ wb p _ h hh
             exact scalar _ (fun _ _ e => by cases e) (fun _ e => by cases e) hr wa b hrb wb p h hh
  | arr t xs _ =>
    intro hr hw wa b hrb hwb wb p hbv h hh
    have hr0 := hr
    simp only [Json.rawDoc, Bool.and_eq_true, beq_iff_eq] at hr
    obtain ⟨rfl, hrx⟩ := hr
    simp only [Json.wf] at hw
    have nvx : ∀ x ∈ xs, x.isVoid = false := (hA _ wa.self).1
    by_cases hb : ∃ t' ys, b = .arr t' ys
    · obtain ⟨t', ys, rfl⟩ := hb
      simp only [Json.rawDoc, Bool.and_eq_true, beq_iff_eq] at hrb
      obtain ⟨rfl, hry⟩ := hrb
      simp only [Json.wf] at hwb
      have nvy : ∀ y ∈ ys, y.isVoid = false := (hB _ wb.self).1
      have fin : ∀ tl, tl = [PathElem.set] ∨ tl = [PathElem.mset] → h.path = p ++ tl →
          h.merge = false → h.before = [] → h.after = [] → (∀ z ∈ h.remove, z ∈ xs) →
          (∀ z ∈ h.add, z ∈ ys) → (h.remove ≠ [] ∨ h.add ≠ []) → SHunk (SA ++ SB) K p h := by
        intro tl htl hpath h1 h2 h3 h4 h5 h6
        refine ⟨h1, h2, h3, ⟨[], tl, trivial, .inr htl, by simpa using hpath, .inr ?_⟩,
          fun v hv => nvx v (h4 v hv), .inl (fun v hv => nvy v (h5 v hv)), ?_, ?_⟩
        · rcases htl with rfl | rfl <;> simp
        · rcases h6 with h6 | h6
          · exact .inl h6
          · right
            cases hadd : h.add with
            | nil => exact absurd hadd h6
            | cons y r => exact ⟨y, by simp, nvy y (h5 y (by simp [hadd]))⟩
        · intro v hv
          rcases List.mem_append.1 hv with hv | hv
          · exact .inr ⟨DES.rawDocList_mem hrx (h4 v hv),
              List.mem_append_left _ (wa.elem (h4 v hv)).self⟩
          · exact .inr ⟨DES.rawDocList_mem hry (h5 v hv),
              List.mem_append_right _ (wb.elem (h5 v hv)).self⟩
      rcases hm with ⟨hd, hk⟩ | hd
      · rw [diffNode_set_set hd, RealS.subs_nil hd hk hp FH hrx hw hwb wa wb p,
          List.nil_append] at hh
        obtain ⟨e, real⟩ := RealS.set_hunk_real o p xs ys hh
        exact fin [.set] (.inl rfl) e real.merge real.before real.after real.rem_mem real.add_mem
          real.nonempty
      · obtain ⟨e, real⟩ := RealS.mset_hunk_real hd p xs ys hh
        exact fin [.mset] (.inr rfl) e real.merge real.before real.after real.rem_mem real.add_mem
          real.nonempty
    · rw [diffNode_arr_other hd' xs b (fun t' ys e => hb ⟨t', ys, e⟩)] at hh
      simp only [List.mem_singleton] at hh
      subst hh
      have : [Json.arr .raw xs] = (Json.arr .raw xs).nodeList := by simp [Json.nodeList, Json.isVoid]
      rw [this]
      refine shunk_value (.inl rfl) hr0 hrb (.inr (List.mem_append_left _ wa.self)) ?_
      exact .inr (List.mem_append_right _ wb.self)
  | obj kvs ih =>
    intro hr hw wa b hrb hwb wb p hbv h hh
    by_cases hb : ∃ kvs', b = .obj kvs'
    · obtain ⟨kvs', rfl⟩ := hb
      have hr' := hr
      have hrb' := hrb
      have hw' := hw
      have hwb' := hwb
      simp only [Json.rawDoc] at hr' hrb'
      simp only [Json.wf, Bool.and_eq_true] at hw' hwb'
      have kA := hA _ wa.self
      have kB := hB _ wb.self
      rw [DE.diffNode_obj_obj] at hh
      rcases List.mem_append.1 hh with hh | hh
      · obtain ⟨k, v, hmem, hcase⟩ := RealS.mem_diffKvs o p kvs' hh
        have hkK : k ∈ K := kA.2 (k, v) hmem
        have nv : v.isVoid = false := kA.1 (k, v) hmem
        rcases hcase with ⟨v', hl', hin⟩ | ⟨hn, rfl⟩
        · have hmem' := mem_of_alookup hl'
          have nv' : v'.isVoid = false := kB.1 (k, v') hmem'
          exact (ih k v hmem (DES.rawDocKvs_mem hr' hmem) (DES.wfKvs_mem hw'.2 hmem) (wa.val hmem)
            v' (DES.rawDocKvs_mem hrb' hmem') (DES.wfKvs_mem hwb'.2 hmem') (wb.val hmem') _
            (fun e => by rw [nv'] at e; cases e) h hin).lift_key hkK
        · have : ([] : List Json) = Json.void.nodeList := by simp [Json.nodeList, Json.isVoid]
          refine SHunk.lift_key hkK ?_
          show SHunk _ _ _ { path := p ++ [.key k], remove := v.nodeList, add := [] }
          rw [this]
          exact shunk_value (.inl nv) (DES.rawDocKvs_mem hr' hmem) rfl
            (.inr (List.mem_append_left _ (wa.val hmem).self)) (.inl rfl)
      · obtain ⟨kv, hkv, rfl⟩ := List.mem_map.1 hh
        simp only [List.mem_filter, Option.isNone_iff_eq_none] at hkv
        have hkK : kv.1 ∈ K := kB.2 kv hkv.1
        have nv : kv.2.isVoid = false := kB.1 kv hkv.1
        have : ([] : List Json) = Json.void.nodeList := by simp [Json.nodeList, Json.isVoid]
        refine SHunk.lift_key hkK ?_
        show SHunk _ _ _ { path := p ++ [.key kv.1], remove := [], add := kv.2.nodeList }
        rw [this]
        exact shunk_value (.inr nv) rfl (DES.rawDocKvs_mem hrb' (k := kv.1) (v := kv.2) hkv.1)
          (.inl rfl) (.inr (List.mem_append_right _ (wb.val (k := kv.1) (v := kv.2) hkv.1).self))
    · rw [DPL.diffNode_obj_other o kvs b (fun kvs' e => hb ⟨kvs', e⟩)] at hh
      simp only [List.mem_singleton] at hh
      subst hh
      refine ⟨rfl, rfl, rfl, ⟨[], [], trivial, .inl rfl, by simp, .inl ⟨by simp, by simp⟩⟩,
        by simp [Json.isVoid], ?_, .inl (by simp), ?_⟩
      · cases hbb : b.isVoid with
        | false => exact .inl (by simp [hbb])
        | true => exact .inr ⟨hbv hbb, by simp⟩
      · intro v hv
        simp only [List.cons_append, List.nil_append, List.mem_cons, List.not_mem_nil,
          or_false] at hv
        rcases hv with rfl | rfl
        · exact .inr ⟨hr, List.mem_append_left _ wa.self⟩
        · exact .inr ⟨hrb, List.mem_append_right _ wb.self⟩

/-! ## 3. a generated hunk satisfies the premises of the round-trip theorems -/

theorem KPath.snoc_tail_facts {K : List String} {tl : Path} (ht : RealS.isTail tl) :
    ∀ {q : Path}, KPath K q →
      idxOK (q ++ tl) = true ∧ noEmptySetKeysP (q ++ tl) = true ∧ rawDocPath (q ++ tl) = true ∧
      listDocPath (q ++ tl) = true
  | [], _ => by
    rcases ht with rfl | rfl | rfl <;> exact ⟨rfl, rfl, rfl, rfl⟩
  | .key k :: r, h => by
    obtain ⟨h1, h2, h3, h4⟩ := KPath.snoc_tail_facts ht h.2
    refine ⟨by simpa [NativeRT.idxOK] using h1, by simpa [noEmptySetKeysP] using h2,
      by simpa [rawDocPath] using h3, by simpa [NativeRT.listDocPath] using h4⟩
  | .idx _ :: _, h => h.elim
  | .set :: _, h => h.elim
  | .mset :: _, h => h.elim
  | .setKeys _ :: _, h => h.elim
  | .msetKeys _ :: _, h => h.elim

theorem multiLast_snoc_set (q : Path) : multiLast (q ++ [PathElem.set]) = true := by
  unfold multiLast
  rw [List.getLast?_append]
  simp only [List.getLast?_singleton, Option.some_or]
  rfl

theorem multiLast_snoc_mset (q : Path) : multiLast (q ++ [PathElem.mset]) = true := by
  unfold multiLast
  rw [List.getLast?_append]
  simp only [List.getLast?_singleton, Option.some_or]
  rfl

section
variable {S : List Json} {K : List String} {h : Hunk}

theorem SHunk.remLines (hk : SHunk S K [] h) : remLines h = h.remove :=
  E2E.filter_nonvoid_self hk.remNV

theorem SHunk.addLines (hk : SHunk S K [] h) : addLines h = h.add.filter (fun v => !v.isVoid) := by
  unfold NativeRT.addLines; rw [hk.strict]; rfl

theorem SHunk.pathFacts (hk : SHunk S K [] h) :
    idxOK h.path = true ∧ noEmptySetKeysP h.path = true ∧ rawDocPath h.path = true ∧
      listDocPath h.path = true := by
  obtain ⟨q, tl, hq, ht, hpath, _⟩ := hk.path
  rw [hpath, List.nil_append]
  exact KPath.snoc_tail_facts ht hq

theorem SHunk.wfHunk (hk : SHunk S K [] h) : wfHunk h = true := by
  unfold NativeRT.wfHunk
  rw [hk.remLines, hk.addLines, hk.before]
  simp only [Bool.and_eq_true, Bool.or_eq_true]
  refine ⟨⟨⟨hk.pathFacts.1, rfl⟩, ?_⟩, ?_⟩
  · rcases hk.some with h1 | ⟨v, hv, nv⟩
    · left
      cases hr : h.remove with
      | nil => exact absurd hr h1
      | cons x r => rfl
    · right
      have : v ∈ h.add.filter (fun v => !v.isVoid) := List.mem_filter.2 ⟨hv, by simp [nv]⟩
      cases hf : h.add.filter (fun v => !v.isVoid) with
      | nil => rw [hf] at this; cases this
      | cons x r => rfl
  · obtain ⟨q, tl, hq, ht, hpath, hmul⟩ := hk.path
    rcases hmul with ⟨h1, h2⟩ | hne
    · left
      have := List.length_filter_le (fun v : Json => !v.isVoid) h.add
      exact ⟨by simp only [decide_eq_true_eq]; omega, by simpa using h1⟩
    · right
      rw [hpath]
      rcases ht with rfl | rfl | rfl
      · exact absurd rfl hne
      · exact multiLast_snoc_set _
      · exact multiLast_snoc_mset _

theorem SHunk.voidOK (hk : SHunk S K [] h) : voidOK h = true := by
  unfold Robust.voidOK
  rw [hk.strict]
  have hr : Robust.noVoid h.remove = true := by
    unfold Robust.noVoid; rw [List.all_eq_true]; intro v hv; simp [hk.remNV v hv]
  simp only [Bool.false_eq_true, if_false, Bool.or_eq_true, Bool.and_eq_true]
  rcases hk.addNV with h1 | ⟨h1, h2⟩
  · left
    refine ⟨hr, ?_⟩
    unfold Robust.noVoid; rw [List.all_eq_true]; intro v hv; simp [h1 v hv]
  · right
    refine ⟨⟨by rw [h1]; rfl, by unfold voidAlone; simp [hr]⟩, ?_⟩
    unfold voidAlone; simp [h2]

theorem rawDocList_of_forall : ∀ {l : List Json}, (∀ v ∈ l, v.rawDoc = true) → rawDocList l = true
  | [], _ => rfl
  | x :: r, h => by
    simp only [rawDocList, Bool.and_eq_true]
    exact ⟨h x (by simp), rawDocList_of_forall (fun v hv => h v (by simp [hv]))⟩

theorem SHunk.payRaw (hk : SHunk S K [] h) : ∀ v ∈ h.remove ++ h.add, v.rawDoc = true := by
  intro v hv
  rcases hk.pay v hv with h1 | h1
  · cases v <;> simp [Json.isVoid] at h1; rfl
  · exact h1.1

theorem SHunk.rawHunk (hk : SHunk S K [] h) : rawHunk h = true := by
  unfold Robust.rawHunk
  rw [hk.before, hk.after]
  simp only [rawDocList, Bool.true_and, Bool.and_true, Bool.and_eq_true]
  exact ⟨⟨rawDocList_of_forall (fun v hv => hk.payRaw v (by simp [hv])),
    rawDocList_of_forall (fun v hv => hk.payRaw v (by simp [hv]))⟩, hk.pathFacts.2.2.1⟩

theorem SHunk.listDocHunk (hk : SHunk S K [] h) : listDocHunk h = true := by
  have hr := hk.rawHunk
  simp only [Robust.rawHunk, Bool.and_eq_true] at hr
  unfold NativeRT.listDocHunk Spec.hunkListDoc
  simp only [Bool.and_eq_true]
  exact ⟨⟨⟨⟨rawDocList_listDocList _ hr.1.1.1.1, rawDocList_listDocList _ hr.1.1.1.2⟩,
    rawDocList_listDocList _ hr.1.1.2⟩, rawDocList_listDocList _ hr.1.2⟩, hk.pathFacts.2.2.2⟩

theorem SHunk.payloads (hk : SHunk S K [] h) : ∀ v ∈ payloads h, v ∈ S := by
  intro v hv
  unfold NativeRT.payloads at hv
  obtain ⟨h1, h2⟩ := List.mem_filter.1 hv
  rw [hk.before, hk.after, List.nil_append, List.append_nil] at h1
  rcases hk.pay v h1 with h3 | h3
  · simp [h3] at h2
  · exact h3.2

end

/-! ## 4. SET / MULTISET readings, strict strategy: the premises hold of `a.Diff(b)` -/

/-- paths of the strict set-mode diffs: keys of the two documents, possibly followed by `{}` / `[]` -/
def SPath (K : List String) (p : Path) : Prop :=
  ∃ q tl, KPath K q ∧ RealS.isTail tl ∧ p = q ++ tl

theorem kidsKeys_of_voidFree {x : Json} (hv : E2E.voidFree x = true) (K : List String)
    (hK : ∀ k ∈ E2E.docKeys x, k ∈ K) : ∀ z ∈ subterms x, E2E.KidsNV z ∧ E2E.KeysIn K z := by
  unfold E2E.voidFree at hv
  rw [List.all_eq_true, subterms_eq] at hv
  intro z hz
  exact ⟨E2E.kidsNV_of (hv z hz),
    E2E.KeysIn.mono hK (E2E.keysIn_docKeys (x := x) (by rw [subterms_eq]; exact hz))⟩

/-- **the generated hunks** (`SHunk`): strict; no context; a path of keys of the two documents,
    possibly followed by `{}` / `[]`; several removed / added values only with that tail; no void
    entry except the `+ void` of an object replaced by the absent document at the root; at least one
    `-` / `+` line; every payload value is a plain document and a sub-term of `a` or `b` -/
theorem diffM_shunk {o : Opts} (hm : DES.SetReading o) (hp : precOf o = 0) (hmg : isMerge o = false)
    (a b : Json) (ha : a.rawDoc = true) (hwa : a.wf = true) (hb : b.rawDoc = true)
    (hwb : b.wf = true) (hva : E2E.voidFree a = true) (hvb : E2E.voidFree b = true)
    (FH : DES.DiffFaithful o (subterms a) (subterms b)) :
    ∀ h ∈ diffM o a b,
      SHunk (subterms a ++ subterms b) (E2E.docKeys a ++ E2E.docKeys b) [] h := by
  intro h hh
  unfold diffM at hh
  rw [hmg] at hh
  exact sdiff_ok hm hp FH _
    (kidsKeys_of_voidFree hva _ (fun k hk => List.mem_append_left _ hk))
    (kidsKeys_of_voidFree hvb _ (fun k hk => List.mem_append_right _ hk))
    a ha hwa (DES.within_subterms a) b hb hwb (DES.within_subterms b) [] (fun _ => rfl) h hh

/-- **the premises of the round-trip theorems hold of `a.Diff(b)`, SET / MULTISET readings**: the
    hunk sequence is in the domain of the reader (`wfDiff`); every hunk is tag-free (`rawHunk`), has
    no keyed path element (`noEmptySetKeys`), harmless void entries (`voidOK`), re-renders
    identically (`listDocHunk`), is strict and sits at a key path possibly followed by `{}` / `[]` -/
theorem diffM_premises_set {o : Opts} (hm : DES.SetReading o) (hp : precOf o = 0)
    (hmg : isMerge o = false) (a b : Json) (ha : a.rawDoc = true) (hwa : a.wf = true)
    (hb : b.rawDoc = true) (hwb : b.wf = true) (hva : E2E.voidFree a = true)
    (hvb : E2E.voidFree b = true) (FH : DES.DiffFaithful o (subterms a) (subterms b)) :
    wfDiff (diffM o a b) = true ∧ (diffM o a b).all rawHunk = true ∧
    noEmptySetKeys (diffM o a b) = true ∧ (diffM o a b).all voidOK = true ∧
    (diffM o a b).all listDocHunk = true ∧
    (∀ h ∈ diffM o a b, h.merge = false ∧ h.before = [] ∧ h.after = [] ∧
      SPath (E2E.docKeys a ++ E2E.docKeys b) h.path) := by
  have key := diffM_shunk hm hp hmg a b ha hwa hb hwb hva hvb FH
  refine ⟨?_, ?_, ?_, ?_, ?_, fun h hh => ⟨(key h hh).strict, (key h hh).before, (key h hh).after, ?_⟩⟩
  · unfold NativeRT.wfDiff
    rw [Bool.and_eq_true, List.all_eq_true]
    exact ⟨fun h hh => (key h hh).wfHunk,
      E2E.mergeMono_of_strict _ false rfl (fun h hh => (key h hh).strict)⟩
  · rw [List.all_eq_true]; exact fun h hh => (key h hh).rawHunk
  · unfold Robust.noEmptySetKeys
    rw [List.all_eq_true]; exact fun h hh => (key h hh).pathFacts.2.1
  · rw [List.all_eq_true]; exact fun h hh => (key h hh).voidOK
  · rw [List.all_eq_true]; exact fun h hh => (key h hh).listDocHunk
  · obtain ⟨q, tl, hq, ht, hpath, _⟩ := (key h hh).path
    exact ⟨q, tl, hq, ht, by simpa using hpath⟩

/-- every payload value of the diff is (literally) a sub-term of `a` or of `b` -/
theorem diffM_payloads_set {o : Opts} (hm : DES.SetReading o) (hp : precOf o = 0)
    (hmg : isMerge o = false) (a b : Json) (ha : a.rawDoc = true) (hwa : a.wf = true)
    (hb : b.rawDoc = true) (hwb : b.wf = true) (hva : E2E.voidFree a = true)
    (hvb : E2E.voidFree b = true) (FH : DES.DiffFaithful o (subterms a) (subterms b)) :
    ∀ h ∈ diffM o a b, ∀ v ∈ payloads h, v ∈ subterms a ++ subterms b :=
  fun h hh => (diffM_shunk hm hp hmg a b ha hwa hb hwb hva hvb FH h hh).payloads

/-- the codec contract of `NativeRT.read_render` for the diff, from the contract on the sub-terms of
    the two documents and on the paths of the diff -/
theorem diffM_codecOK_set (nc : NumCodec) {o : Opts} (hm : DES.SetReading o) (hp : precOf o = 0)
    (hmg : isMerge o = false) (a b : Json) (ha : a.rawDoc = true) (hwa : a.wf = true)
    (hb : b.rawDoc = true) (hwb : b.wf = true) (hva : E2E.voidFree a = true)
    (hvb : E2E.voidFree b = true) (FH : DES.DiffFaithful o (subterms a) (subterms b))
    (hv : ∀ z ∈ subterms a ++ subterms b, ValOK nc z)
    (hpth : ∀ h ∈ diffM o a b, PathOK nc h.path) :
    CodecOK nc (diffM o a b) :=
  fun h hh => ⟨hpth h hh, fun v hv' =>
    hv v (diffM_payloads_set hm hp hmg a b ha hwa hb hwb hva hvb FH h hh v hv')⟩

/-- the input-level form of the path hypothesis -/
theorem diffM_pathOK_of_inputs_set (nc : NumCodec) {o : Opts} (hm : DES.SetReading o)
    (hp : precOf o = 0) (hmg : isMerge o = false) (a b : Json) (ha : a.rawDoc = true)
    (hwa : a.wf = true) (hb : b.rawDoc = true) (hwb : b.wf = true)
    (hva : E2E.voidFree a = true) (hvb : E2E.voidFree b = true)
    (FH : DES.DiffFaithful o (subterms a) (subterms b))
    (hpaths : ∀ p, SPath (E2E.docKeys a ++ E2E.docKeys b) p → PathOK nc p) :
    ∀ h ∈ diffM o a b, PathOK nc h.path :=
  fun h hh => hpaths _
    ((diffM_premises_set hm hp hmg a b ha hwa hb hwb hva hvb FH).2.2.2.2.2 h hh).2.2.2

/-- **C02 for every diff PRODUCED by `Diff` in the SET / MULTISET readings (strict strategy): the
    text is a lossless carrier.** The printed text of `a.Diff(b)` is read back as a diff that renders
    to the IDENTICAL text and has EXACTLY the same effect as `a.Diff(b)` on EVERY document `c`
    (whatever its array tags). -/
theorem diff_text_lossless_set (nc : NumCodec) {o : Opts} (hm : DES.SetReading o)
    (hp : precOf o = 0) (hmg : isMerge o = false) (a b : Json) (ha : a.rawDoc = true)
    (hwa : a.wf = true) (hb : b.rawDoc = true) (hwb : b.wf = true)
    (hva : E2E.voidFree a = true) (hvb : E2E.voidFree b = true)
    (FH : DES.DiffFaithful o (subterms a) (subterms b))
    (hv : ∀ z ∈ subterms a ++ subterms b, ValOK nc z)
    (hpth : ∀ h ∈ diffM o a b, PathOK nc h.path)
    (text : String) (hr : renderM nc [] (diffM o a b) = some text) :
    ∃ d', readDiffM nc text = .ok d' ∧ renderM nc [] d' = some text ∧
      ∀ c : Json, patchM c d' = patchM c (diffM o a b) := by
  obtain ⟨hw, h1, h2, h3, h4, _⟩ := diffM_premises_set hm hp hmg a b ha hwa hb hwb hva hvb FH
  have hc := diffM_codecOK_set nc hm hp hmg a b ha hwa hb hwb hva hvb FH hv hpth
  refine ⟨normDiff (diffM o a b), read_render nc _ text hw hc hr, ?_, fun c => ?_⟩
  · rw [render_norm nc _ h4, hr]
  · exact patchAll_normDiff_of_noEmptySetKeys true _ h1 h2 h3 c

/-- **C02 end to end, SET / MULTISET readings, strict strategy.** The text printed for `a.Diff(b)`
    is read back as a diff `d'`, and the LIBRARY's `a.Patch(d')` succeeds with a document that is
    equivalent to `b` (`equivB`) and `Equals` `b` under the options of the diff. -/
theorem diff_render_read_patch_set (F : FloatEq0) (L : FloatLaws) (nc : NumCodec) (o : Opts)
    (hm : dispatchTag o = .set ∨ dispatchTag o = .mset) (hk : keysOf o = none)
    (hmg : isMerge o = false) (hp : precOf o = 0) (a b : Json)
    (ha : a.setDoc = true) (hb : b.setDoc = true)
    (hva : E2E.voidFree a = true) (hvb : E2E.voidFree b = true)
    (HF : HashFaithful o (subterms a ++ subterms b))
    (hv : ∀ z ∈ subterms a ++ subterms b, ValOK nc z)
    (hpth : ∀ h ∈ diffM o a b, PathOK nc h.path)
    (text : String) (hr : renderM nc [] (diffM o a b) = some text) :
    ∃ d', readDiffM nc text = .ok d' ∧ d' = normDiff (diffM o a b) ∧
      ∃ r, patchM a d' = .ok r ∧ patchM a (diffM o a b) = .ok r ∧
        equivB o r b = true ∧ equals o r b = true := by
  have hm' : DES.SetReading o := by
    rcases hm with hd | hd
    · exact .inl ⟨hd, hk⟩
    · exact .inr hd
  have ha' := ha
  have hb' := hb
  simp only [Json.setDoc, Bool.and_eq_true] at ha' hb'
  have FH := DES.diffFaithful_of_hashFaithful F hm hp (docOk_of_setDoc ha) (docOk_of_setDoc hb) HF
  obtain ⟨hw, h1, h2, h3, _, _⟩ :=
    diffM_premises_set hm' hp hmg a b ha'.1.1.1 ha'.1.1.2 hb'.1.1.1 hb'.1.1.2 hva hvb FH
  have hc := diffM_codecOK_set nc hm' hp hmg a b ha'.1.1.1 ha'.1.1.2 hb'.1.1.1 hb'.1.1.2 hva hvb FH
    hv hpth
  obtain ⟨r, hr1, hr2, hr3⟩ := diff_then_patch_setmodes F L true o hm hk hmg hp a b ha hb
    (E2E.memOK_of_voidFree hva) (E2E.memOK_of_voidFree hvb) HF
  refine ⟨normDiff (diffM o a b), read_render nc _ text hw hc hr, rfl, r, ?_, hr1, hr2, hr3⟩
  show patchAll true a (normDiff (diffM o a b)) = .ok r
  rw [patchAll_normDiff_of_noEmptySetKeys true _ h1 h2 h3 a]
  exact hr1

/-- `a.Diff(b).Render()` succeeds when `json.Marshal` succeeds on every sub-term of `a` and `b` and
    on the paths of the diff -/
theorem diffM_renders_set (nc : NumCodec) {o : Opts} (hm : DES.SetReading o) (hp : precOf o = 0)
    (hmg : isMerge o = false) (a b : Json) (ha : a.rawDoc = true) (hwa : a.wf = true)
    (hb : b.rawDoc = true) (hwb : b.wf = true) (hva : E2E.voidFree a = true)
    (hvb : E2E.voidFree b = true) (FH : DES.DiffFaithful o (subterms a) (subterms b))
    (hmv : ∀ z ∈ subterms a ++ subterms b, (marshalNode nc z).isSome = true)
    (hmp : ∀ h ∈ diffM o a b, (jsonM nc (pathToJson h.path)).isSome = true) :
    ∃ text, renderM nc [] (diffM o a b) = some text :=
  E2E.renderM_isSome nc _ (fun h hh => E2E.renderHunk_isSome nc h (hmp h hh) (fun v hv =>
    hmv v (diffM_payloads_set hm hp hmg a b ha hwa hb hwb hva hvb FH h hh v hv)))

/-- **C02 end to end, SET / MULTISET readings, total form**: the text EXISTS, is read back, and the
    diff read back patches `a` to a document equal to `b` -/
theorem diff_print_read_patch_set (F : FloatEq0) (L : FloatLaws) (nc : NumCodec) (o : Opts)
    (hm : dispatchTag o = .set ∨ dispatchTag o = .mset) (hk : keysOf o = none)
    (hmg : isMerge o = false) (hp : precOf o = 0) (a b : Json)
    (ha : a.setDoc = true) (hb : b.setDoc = true)
    (hva : E2E.voidFree a = true) (hvb : E2E.voidFree b = true)
    (HF : HashFaithful o (subterms a ++ subterms b))
    (hv : ∀ z ∈ subterms a ++ subterms b, (marshalNode nc z).isSome = true ∧ ValOK nc z)
    (hpth : ∀ h ∈ diffM o a b, (jsonM nc (pathToJson h.path)).isSome = true ∧ PathOK nc h.path) :
    ∃ text d' r, renderM nc [] (diffM o a b) = some text ∧ readDiffM nc text = .ok d' ∧
      patchM a d' = .ok r ∧ equivB o r b = true ∧ equals o r b = true := by
  have hm' : DES.SetReading o := by
    rcases hm with hd | hd
    · exact .inl ⟨hd, hk⟩
    · exact .inr hd
  have ha' := ha
  have hb' := hb
  simp only [Json.setDoc, Bool.and_eq_true] at ha' hb'
  have FH := DES.diffFaithful_of_hashFaithful F hm hp (docOk_of_setDoc ha) (docOk_of_setDoc hb) HF
  obtain ⟨text, ht⟩ := diffM_renders_set nc hm' hp hmg a b ha'.1.1.1 ha'.1.1.2 hb'.1.1.1 hb'.1.1.2
    hva hvb FH (fun z hz => (hv z hz).1) (fun h hh => (hpth h hh).1)
  obtain ⟨d', h1, _, r, h2, _, h3, h4⟩ := diff_render_read_patch_set F L nc o hm hk hmg hp a b ha hb
    hva hvb HF (fun z hz => (hv z hz).2) (fun h hh => (hpth h hh).2) text ht
  exact ⟨text, d', r, ht, h1, h2, h3, h4⟩

/-! ## 5. MERGE strategy: a merge diff is a list of merge hunks `mh ks v`; what reading back does -/

section MergeGeneric
open Jd.Merge (mh mapply mset consE objVoidFree objVoidFreeKvs)

/-- a hunk entry (key path, value) with its value untagged -/
def untagE (e : List String × Json) : List String × Json := (e.1, untag e.2)

theorem normPath_keys (ks : List String) : normPath (ks.map PathElem.key) = ks.map PathElem.key := by
  induction ks with
  | nil => rfl
  | cons k r ih =>
    simp only [normPath, List.map_cons] at ih ⊢
    rw [ih]; rfl

theorem normHunk_mh (ks : List String) (v : Json) : normHunk (mh ks v) = mh ks (untag v) := by
  simp [normHunk, mh, normPath_keys, NativeRT.remLines, NativeRT.addLines]

/-- **reading back a merge diff** untags the values, nothing else -/
theorem normDiff_mh (l : List (List String × Json)) :
    normDiff (l.map (fun e => mh e.1 e.2)) = (l.map untagE).map (fun e => mh e.1 e.2) := by
  simp [normDiff, List.map_map, Function.comp_def, normHunk_mh, untagE]

theorem idxOK_keys (ks : List String) : idxOK (ks.map PathElem.key) = true := by
  induction ks with
  | nil => rfl
  | cons k r ih => simpa [NativeRT.idxOK] using ih

theorem listDocPath_keys (ks : List String) : listDocPath (ks.map PathElem.key) = true := by
  induction ks with
  | nil => rfl
  | cons k r ih => simpa [NativeRT.listDocPath] using ih

theorem wfHunk_mh (ks : List String) (v : Json) : wfHunk (mh ks v) = true := by
  simp [NativeRT.wfHunk, mh, idxOK_keys, NativeRT.remLines, NativeRT.addLines]

theorem mergeMono_mh (m : Bool) : ∀ l : List (List String × Json),
    mergeMono m (l.map (fun e => mh e.1 e.2)) = true
  | [] => rfl
  | e :: l => by
    simp only [List.map_cons, mergeMono, Bool.and_eq_true, Bool.or_eq_true]
    exact ⟨.inr rfl, mergeMono_mh _ l⟩

/-- a list of merge hunks is ALWAYS in the domain of the reader (whatever the key paths and values;
    a void value is the bare `+` line of a deletion) -/
theorem wfDiff_mh (l : List (List String × Json)) :
    wfDiff (l.map (fun e => mh e.1 e.2)) = true := by
  unfold NativeRT.wfDiff
  rw [Bool.and_eq_true, List.all_eq_true]
  refine ⟨fun h hh => ?_, mergeMono_mh false l⟩
  obtain ⟨e, _, rfl⟩ := List.mem_map.1 hh
  exact wfHunk_mh _ _

/-- … and in the domain of the merge same-effect theorem `Robust.patchAll_normDiff_merge` -/
theorem mergeVoidOK_mh (l : List (List String × Json)) :
    (l.map (fun e => mh e.1 e.2)).all (fun h => h.merge && voidOK h) = true := by
  rw [List.all_eq_true]
  intro h hh
  obtain ⟨e, _, rfl⟩ := List.mem_map.1 hh
  simp [mh, Robust.voidOK, voidAlone, Robust.noVoid]

theorem payloads_mh (ks : List String) (v : Json) :
    payloads (mh ks v) = if v.isVoid then [] else [v] := by
  simp only [NativeRT.payloads, mh, List.nil_append, List.append_nil, List.filter_cons,
    List.filter_nil]
  cases v.isVoid <;> rfl

/-- the codec contract for a list of merge hunks, from the contract on the values and key paths -/
theorem codecOK_mh (nc : NumCodec) (l : List (List String × Json))
    (h : ∀ e ∈ l, PathOK nc (e.1.map PathElem.key) ∧ (e.2.isVoid = true ∨ ValOK nc e.2)) :
    CodecOK nc (l.map (fun e => mh e.1 e.2)) := by
  intro x hx
  obtain ⟨e, he, rfl⟩ := List.mem_map.1 hx
  refine ⟨(h e he).1, fun v hv => ?_⟩
  rw [payloads_mh] at hv
  rcases (h e he).2 with h2 | h2
  · simp [h2] at hv
  · cases hvv : e.2.isVoid with
    | true => simp [hvv] at hv
    | false =>
      simp only [hvv, Bool.false_eq_true, if_false, List.mem_singleton] at hv
      rw [hv]; exact h2

theorem renders_mh (nc : NumCodec) (l : List (List String × Json))
    (h : ∀ e ∈ l, (jsonM nc (pathToJson (e.1.map PathElem.key))).isSome = true ∧
      (e.2.isVoid = true ∨ (marshalNode nc e.2).isSome = true)) :
    ∃ text, renderM nc [] (l.map (fun e => mh e.1 e.2)) = some text := by
  refine E2E.renderM_isSome nc _ (fun x hx => ?_)
  obtain ⟨e, he, rfl⟩ := List.mem_map.1 hx
  refine E2E.renderHunk_isSome nc _ (h e he).1 (fun v hv => ?_)
  rw [payloads_mh] at hv
  rcases (h e he).2 with h2 | h2
  · simp [h2] at hv
  · cases hvv : e.2.isVoid with
    | true => simp [hvv] at hv
    | false =>
      simp only [hvv, Bool.false_eq_true, if_false, List.mem_singleton] at hv
      rw [hv]; exact h2

/-- the re-rendering premise for a list of merge hunks with list-mode values -/
theorem listDocHunk_mh (l : List (List String × Json)) (h : ∀ e ∈ l, e.2.listDoc = true) :
    (l.map (fun e => mh e.1 e.2)).all listDocHunk = true := by
  rw [List.all_eq_true]
  intro x hx
  obtain ⟨e, he, rfl⟩ := List.mem_map.1 hx
  simp [NativeRT.listDocHunk, Spec.hunkListDoc, mh, listDocList, h e he, listDocPath_keys]

/-! ### the values and key paths of a pure merge diff (`Merge.dl`, `MSet.ds`) -/

/-- the shape shared by the pure merge diffs `Merge.dl o` (list reading) and `MSet.ds o` (set
    readings): objects member by member, everything else replaced wholesale by the second value, an
    array possibly re-typed -/
structure PureMerge (T : Tag) (D : Json → Json → List (List String × Json))
    (DK : List (String × Json) → List (String × Json) → List (List String × Json)) : Prop where
  obj : ∀ kvs kvs', D (.obj kvs) (.obj kvs') = DK kvs' kvs ++
    (kvs'.filter (fun kv => (alookup kv.1 kvs).isNone)).map (fun kv => ([kv.1], kv.2))
  nil : ∀ kvs', DK kvs' [] = []
  cons : ∀ kvs' k v r, DK kvs' ((k, v) :: r) =
    (match alookup k kvs' with
     | some v' => (D v v').map (consE k)
     | none => [([k], .void)]) ++ DK kvs' r
  leaf : ∀ a b, ¬ (a.isObj = true ∧ b.isObj = true) → ∀ e ∈ D a b,
    e.1 = [] ∧ (e.2 = b ∨ ∃ t ys, b = .arr t ys ∧ e.2 = .arr T ys)

theorem pureMerge_dl (o : Opts) : PureMerge .list (Merge.dl o) (Merge.dlKvs o) where
  obj := Merge.dl_obj_obj o
  nil := DPK.dlKvs_nil o
  cons := DPK.dlKvs_cons o
  leaf := by
    intro a b hno e he
    cases a with
    | obj kvs =>
      have hb : b.isObj = false := by
        cases hb : b.isObj with
        | false => rfl
        | true => exact absurd ⟨rfl, hb⟩ hno
      rw [Merge.dl_obj_other o kvs hb] at he
      simp only [List.mem_singleton] at he; subst he; exact ⟨rfl, .inl rfl⟩
    | arr t xs =>
      cases b with
      | arr t' ys =>
        rw [Merge.dl_arr_arr] at he
        split at he
        · cases he
        · simp only [List.mem_singleton] at he; subst he
          exact ⟨rfl, .inr ⟨t', ys, rfl, rfl⟩⟩
      | _ =>
        rw [Merge.dl_arr_other o t xs rfl] at he
        simp only [List.mem_singleton] at he; subst he; exact ⟨rfl, .inl rfl⟩
    | _ =>
      rw [Merge.dl_scalar o rfl rfl] at he
      split at he
      · cases he
      · simp only [List.mem_singleton] at he; subst he; exact ⟨rfl, .inl rfl⟩

theorem pureMerge_ds (o : Opts) : PureMerge (dispatchTag o) (MSet.ds o) (MSet.dsKvs o) where
  obj := MSet.ds_obj_obj o
  nil := MSet.dsKvs_nil o
  cons := MSet.dsKvs_cons o
  leaf := by
    intro a b hno e he
    cases a with
    | obj kvs =>
      have hb : b.isObj = false := by
        cases hb : b.isObj with
        | false => rfl
        | true => exact absurd ⟨rfl, hb⟩ hno
      rw [MSet.ds_obj_other o kvs hb] at he
      simp only [List.mem_singleton] at he; subst he; exact ⟨rfl, .inl rfl⟩
    | arr t xs =>
      cases b with
      | arr t' ys =>
        rw [MSet.ds_arr_arr] at he
        split at he
        · cases he
        · simp only [List.mem_singleton] at he; subst he
          exact ⟨rfl, .inr ⟨t', ys, rfl, rfl⟩⟩
      | _ =>
        rw [MSet.ds_arr_other o t xs rfl] at he
        simp only [List.mem_singleton] at he; subst he; exact ⟨rfl, .inl rfl⟩
    | _ =>
      rw [MSet.ds_scalar o rfl rfl] at he
      split at he
      · cases he
      · simp only [List.mem_singleton] at he; subst he; exact ⟨rfl, .inl rfl⟩

/-- **the entries of a pure merge diff**: the key path consists of keys of the two documents; the
    value is void (a deletion) or has every property `P` that all sub-terms of `b` have and that
    does not depend on the Go type of an array node -/
theorem pureMerge_ok {T : Tag} {D : Json → Json → List (List String × Json)}
    {DK : List (String × Json) → List (String × Json) → List (List String × Json)}
    (PM : PureMerge T D DK) (P : Json → Prop) (hP : ∀ t xs, P (.arr t xs) → P (.arr T xs))
    (K : List String) :
    ∀ a : Json, (∀ z ∈ subterms a, E2E.KeysIn K z) →
      ∀ b : Json, (∀ z ∈ subterms b, E2E.KeysIn K z ∧ P z) →
      ∀ e ∈ D a b, (∀ k ∈ e.1, k ∈ K) ∧ (e.2.isVoid = true ∨ P e.2) := by
  have leafCase : ∀ a b : Json, ¬ (a.isObj = true ∧ b.isObj = true) →
      (∀ z ∈ subterms b, E2E.KeysIn K z ∧ P z) →
      ∀ e ∈ D a b, (∀ k ∈ e.1, k ∈ K) ∧ (e.2.isVoid = true ∨ P e.2) := by
    intro a b hno hB e he
    obtain ⟨h1, h2⟩ := PM.leaf a b hno e he
    refine ⟨by rw [h1]; intro k hk; exact absurd hk (by simp), .inr ?_⟩
    rcases h2 with h2 | ⟨t, ys, hb, h2⟩
    · rw [h2]; exact (hB b (mem_subterms_self b)).2
    · rw [h2]; exact hP t ys (by rw [← hb]; exact (hB b (mem_subterms_self b)).2)
  intro a
  induction a using jsonInd with
  | void => intro _ b hB e he; exact leafCase _ b (fun h => by cases h.1) hB e he
  | null => intro _ b hB e he; exact leafCase _ b (fun h => by cases h.1) hB e he
  | bool _ => intro _ b hB e he; exact leafCase _ b (fun h => by cases h.1) hB e he
  | num _ => intro _ b hB e he; exact leafCase _ b (fun h => by cases h.1) hB e he
  | str _ => intro _ b hB e he; exact leafCase _ b (fun h => by cases h.1) hB e he
  | arr t xs _ => intro _ b hB e he; exact leafCase _ b (fun h => by cases h.1) hB e he
  | obj kvs ih =>
    intro hA b hB e he
    cases b with
    | obj kvs' =>
      have kA : ∀ kv ∈ kvs, kv.1 ∈ K := hA _ (mem_subterms_self _)
      have kB : ∀ kv ∈ kvs', kv.1 ∈ K := (hB _ (mem_subterms_self _)).1
      rw [PM.obj] at he
      rcases List.mem_append.1 he with he | he
      · -- the keys of the first object
        have sub : ∀ r : List (String × Json), (∀ kv ∈ r, kv ∈ kvs) → ∀ e ∈ DK kvs' r,
            (∀ k ∈ e.1, k ∈ K) ∧ (e.2.isVoid = true ∨ P e.2) := by
          intro r
          induction r with
          | nil => intro _ e he; rw [PM.nil] at he; cases he
          | cons kv r ihr =>
            obtain ⟨k, v⟩ := kv
            intro hr e he
            rw [PM.cons] at he
            have hkv : (k, v) ∈ kvs := hr (k, v) (by simp)
            rcases List.mem_append.1 he with he | he
            · cases hl : alookup k kvs' with
              | none =>
                rw [hl] at he
                simp only [List.mem_singleton] at he
                subst he
                exact ⟨by intro k' hk'; simp only [List.mem_singleton] at hk'; rw [hk']; exact kA _ hkv,
                  .inl rfl⟩
              | some v' =>
                rw [hl] at he
                obtain ⟨e0, he0, rfl⟩ := List.mem_map.1 he
                have hm' := mem_of_alookup hl
                obtain ⟨h1, h2⟩ := ih k v hkv
                  (fun z hz => hA z (subterms_val_sub hkv hz)) v'
                  (fun z hz => hB z (subterms_val_sub hm' hz)) e0 he0
                refine ⟨?_, h2⟩
                intro k' hk'
                simp only [consE, List.mem_cons] at hk'
                rcases hk' with rfl | hk'
                · exact kA _ hkv
                · exact h1 k' hk'
            · exact ihr (fun kv' h' => hr kv' (List.mem_cons_of_mem _ h')) e he
        exact sub kvs (fun _ h' => h') e he
      · obtain ⟨kv, hkv, rfl⟩ := List.mem_map.1 he
        have hmem : kv ∈ kvs' := (List.mem_filter.1 hkv).1
        refine ⟨by intro k' hk'; simp only [List.mem_singleton] at hk'; rw [hk']; exact kB _ hmem,
          .inr ?_⟩
        exact (hB kv.2 (subterms_val_sub (k := kv.1) (v := kv.2) hmem (mem_subterms_self _))).2
    | _ => exact leafCase _ _ (fun h => by cases h.2) hB e he

end MergeGeneric

/-! ## 6. the merge diff read back, applied in memory (C01 for the UNTAGGED pure diff)

  Reading back a merge diff untags its values (`normDiff_mh`): the re-typed array `jsonList` /
  `jsonSet` / `jsonMultiset` that `Diff` puts into a hunk comes back as a plain `jsonArray`.  The
  in-memory theorems of JdProofs.DiffPatchKeys are generic in the pure diff function
  (`DPK.obj_step`); here the induction is run for the untagged pure diff. -/

section MergeMemory
open Jd.Merge (mh mapply mset consE objVoidFree objVoidFreeKvs dl dlKvs GoodB)
open Jd.MSet (Rel ds dsKvs GoodS)

theorem untagE_adds {kvs' : List (String × Json)} (h : rawDocKvs kvs' = true)
    (kvs : List (String × Json)) :
    ((kvs'.filter (fun kv => (alookup kv.1 kvs).isNone)).map (fun kv => ([kv.1], kv.2))).map untagE
      = (kvs'.filter (fun kv => (alookup kv.1 kvs).isNone)).map (fun kv => ([kv.1], kv.2)) := by
  rw [List.map_map]
  apply List.map_congr_left
  intro kv hkv
  have hmem : (kv.1, kv.2) ∈ kvs' := (List.mem_filter.1 hkv).1
  simp [untagE, untag_rawDoc kv.2 (DES.rawDocKvs_mem h hmem)]

theorem mapU_nil {T : Tag} {D : Json → Json → List (List String × Json)}
    {DK : List (String × Json) → List (String × Json) → List (List String × Json)}
    (PM : PureMerge T D DK) (kvs' : List (String × Json)) : (DK kvs' []).map untagE = [] := by
  rw [PM.nil]; rfl

theorem mapU_cons {T : Tag} {D : Json → Json → List (List String × Json)}
    {DK : List (String × Json) → List (String × Json) → List (List String × Json)}
    (PM : PureMerge T D DK) (kvs' : List (String × Json)) (k : String) (v : Json)
    (r : List (String × Json)) :
    (DK kvs' ((k, v) :: r)).map untagE =
      (match alookup k kvs' with
       | some v' => ((D v v').map untagE).map (consE k)
       | none => [([k], .void)]) ++ (DK kvs' r).map untagE := by
  rw [PM.cons, List.map_append]
  cases alookup k kvs' <;> simp [untagE, consE, List.map_map, Function.comp_def, untag]

/-- **C01 for the merge diff as read back, list reading** -/
theorem memSoundU_list (L : FloatLaws) (o : Opts) (ho : dispatchTag o = .list)
    (hprec : precOf o = 0) :
    ∀ a : Json, a.wf = true → a.rawDoc = true → ∀ b : Json, GoodB b →
      Rel o (mapply ((dl o a b).map untagE) a) b := by
  have single : ∀ a b : Json, GoodB b → dl o a b = [([], b)] →
      Rel o (mapply ((dl o a b).map untagE) a) b := by
    intro a b G h
    rw [h]
    simpa [untagE, untag_rawDoc b G.raw, mapply, mset] using DPK.goodB_rel L o ho hprec G
  have scalar : ∀ a b : Json, a.isObj = false → Merge.isArr a = false → GoodB b →
      Rel o (mapply ((dl o a b).map untagE) a) b := by
    intro a b h1 h2 G
    cases he : equals [] a b with
    | true =>
      rw [Merge.dl_scalar o h1 h2 b, he]
      simpa [mapply] using DPK.rel_scalar_of_equals_nil o hprec h1 h2 he
    | false =>
      exact single a b G (by rw [Merge.dl_scalar o h1 h2 b, he]; rfl)
  intro a
  induction a using jsonInd with
  | void => intro _ _ b G; exact scalar _ b rfl rfl G
  | null => intro _ _ b G; exact scalar _ b rfl rfl G
  | bool x => intro _ _ b G; exact scalar _ b rfl rfl G
  | num x => intro _ _ b G; exact scalar _ b rfl rfl G
  | str x => intro _ _ b G; exact scalar _ b rfl rfl G
  | arr t xs _ =>
    intro hw hr b G
    cases b with
    | arr t' ys =>
      have hrt : t = .raw := by
        simp only [Json.rawDoc, Bool.and_eq_true, beq_iff_eq] at hr; exact hr.1
      have hG := G.raw
      simp only [Json.rawDoc, Bool.and_eq_true, beq_iff_eq] at hG
      obtain ⟨hrt', hry⟩ := hG
      subst hrt; subst hrt'
      cases he : equals o (.arr .list xs) (.arr .list ys) with
      | true =>
        have := DPK.memSound_list L o ho hprec (.arr .raw xs) hw hr (.arr .raw ys) G
        unfold DPK.MemSound at this
        rw [Merge.dl_arr_arr, he] at this ⊢
        simpa using this
      | false =>
        rw [Merge.dl_arr_arr, he]
        have e : untag (.arr .list ys) = .arr .raw ys := by
          simp only [untag, untagList_rawDoc ys hry]
        simpa [untagE, e, mapply, mset] using DPK.goodB_rel L o ho hprec G
    | _ => exact single _ _ G (Merge.dl_arr_other o t xs rfl)
  | obj kvs ih =>
    intro hw hr b G
    cases b with
    | obj kvs' =>
      simp only [Json.wf, Bool.and_eq_true] at hw
      simp only [Json.rawDoc] at hr
      have hs' : keysSorted kvs' = true := by
        have := G.wf; simp only [Json.wf, Bool.and_eq_true] at this; exact this.1
      have hr' : rawDocKvs kvs' = true := by have := G.raw; simpa only [Json.rawDoc] using this
      have PM := pureMerge_dl o
      rw [Merge.dl_obj_obj, List.map_append, untagE_adds hr']
      refine DPK.obj_step o (fun a b => (dl o a b).map untagE)
        (fun kvs' kvs => (dlKvs o kvs' kvs).map untagE) kvs kvs' (mapU_nil PM kvs')
        (mapU_cons PM kvs') hw.1 hs' (fun j v' hj => (G.member hj).notVoid) ?_ ?_
      · intro j v v' hja hjb
        exact ih j v (mem_of_alookup hja) (alookup_wf hja hw.2) (alookup_rawDoc hja hr) v'
          (G.member hjb)
      · intro j v' _ hjb
        exact DPK.goodB_rel L o ho hprec (G.member hjb)
    | _ => exact single _ _ G (Merge.dl_obj_other o kvs rfl)

/-- **C01 for the merge diff as read back, SET / MULTISET readings** -/
theorem memSoundU_set (F : FloatEq0) (L : FloatLaws) {o : Opts}
    (hm : dispatchTag o = .set ∨ dispatchTag o = .mset) (hp : precOf o = 0)
    {S : List Json} (HF : HashFaithful o S) :
    ∀ a, DocOk a → SetDP.Within S a → ∀ b, GoodS S b →
      Rel o (mapply ((ds o a b).map untagE) a) b := by
  have single : ∀ a b : Json, GoodS S b → ds o a b = [([], b)] →
      Rel o (mapply ((ds o a b).map untagE) a) b := by
    intro a b G h
    rw [h]
    simpa [untagE, untag_rawDoc b G.raw, mapply, mset] using G.refl F L hm hp HF
  have scalar : ∀ a b : Json, a.isObj = false → Merge.isArr a = false → GoodS S b →
      Rel o (mapply ((ds o a b).map untagE) a) b := by
    intro a b h1 h2 G
    cases he : equals [] a b with
    | true =>
      rw [MSet.ds_scalar o h1 h2 b, he]
      simpa [mapply] using DPK.rel_scalar_of_equals_nil o hp h1 h2 he
    | false =>
      exact single a b G (by rw [MSet.ds_scalar o h1 h2 b, he]; rfl)
  intro a
  induction a using jsonInd with
  | void => intro _ _ b G; exact scalar _ b rfl rfl G
  | null => intro _ _ b G; exact scalar _ b rfl rfl G
  | bool x => intro _ _ b G; exact scalar _ b rfl rfl G
  | num x => intro _ _ b G; exact scalar _ b rfl rfl G
  | str x => intro _ _ b G; exact scalar _ b rfl rfl G
  | arr t xs _ =>
    intro ha wa b G
    have ht := ha.raw
    subst ht
    cases b with
    | arr t' ys =>
      have ht' := G.ok.raw
      subst ht'
      have hry : rawDocList ys = true := by
        have := G.raw; simp only [Json.rawDoc, Bool.and_eq_true] at this; exact this.2
      cases he : equals o (.arr .raw xs) (.arr .raw ys) with
      | true =>
        rw [MSet.ds_arr_arr, he]
        simp only [if_true, List.map_nil, mapply, List.foldl_nil]
        refine ⟨he, ?_⟩
        rw [← SetDP.equals_eq_equivB_of F hm hp HF ha G.ok wa G.wi]; exact he
      | false =>
        rw [MSet.ds_arr_arr, he]
        have e : untag (.arr (dispatchTag o) ys) = .arr .raw ys := by
          simp only [untag, untagList_rawDoc ys hry]
        simpa [untagE, e, mapply, mset] using G.refl F L hm hp HF
    | _ => exact single _ _ G (MSet.ds_arr_other o _ xs rfl)
  | obj kvs ih =>
    intro ha wa b G
    cases b with
    | obj kvs' =>
      have hr' : rawDocKvs kvs' = true := by have := G.raw; simpa only [Json.rawDoc] using this
      have PM := pureMerge_ds o
      rw [MSet.ds_obj_obj, List.map_append, untagE_adds hr']
      refine DPK.obj_step o (fun a b => (ds o a b).map untagE)
        (fun kvs' kvs => (dsKvs o kvs' kvs).map untagE) kvs kvs' (mapU_nil PM kvs')
        (mapU_cons PM kvs') ha.sorted G.ok.sorted (fun j v' hj => (G.member hj).notVoid) ?_ ?_
      · intro j v v' hja hjb
        have hm1 := mem_of_alookup hja
        exact ih j v hm1 (ha.val hm1) (wa.val hm1) v' (G.member hjb)
      · intro j v' _ hjb
        exact (G.member hjb).refl F L hm hp HF
    | _ => exact single _ _ G (MSet.ds_obj_other o kvs rfl)

end MergeMemory

/-! ## 7. a merge diff through the text: generic statements about `l.map mh` -/

section MergeText
open Jd.Merge (mh mapply mset consE objVoidFree objVoidFreeKvs)

/-- the values for which the text does not depend on the Go type tags dropped by the reader -/
def TagBlind (nc : NumCodec) (v : Json) : Prop := marshalNode nc (untag v) = marshalNode nc v

theorem tagBlind_of_rawDoc (nc : NumCodec) {v : Json} (h : v.rawDoc = true) : TagBlind nc v := by
  unfold TagBlind; rw [untag_rawDoc v h]

theorem tagBlind_retag (nc : NumCodec) (T t : Tag) (xs : List Json)
    (h : TagBlind nc (.arr t xs)) : TagBlind nc (.arr T xs) := by
  unfold TagBlind at h ⊢
  simpa only [untag, marshalNode] using h

theorem valOK_retag (nc : NumCodec) (T t : Tag) (xs : List Json) (h : ValOK nc (.arr t xs)) :
    ValOK nc (.arr T xs) := by
  intro s hs
  have := h s (by simpa only [marshalNode] using hs)
  simpa only [untag] using this

theorem marshal_retag (nc : NumCodec) (T t : Tag) (xs : List Json)
    (h : (marshalNode nc (.arr t xs)).isSome = true) :
    (marshalNode nc (.arr T xs)).isSome = true := by
  simpa only [marshalNode] using h

theorem renderHunk_mh_untag (nc : NumCodec) (ks : List String) (v : Json) (h : TagBlind nc v) :
    renderHunk nc [] (mh ks (untag v)) = renderHunk nc [] (mh ks v) := by
  unfold TagBlind at h
  simp [renderHunk, mh, h, untag_isVoid]

/-- the merge diff read back renders to the same text -/
theorem renderM_mh_untag (nc : NumCodec) (l : List (List String × Json))
    (h : ∀ e ∈ l, TagBlind nc e.2) :
    renderM nc [] ((l.map untagE).map (fun e => mh e.1 e.2)) =
      renderM nc [] (l.map (fun e => mh e.1 e.2)) := by
  unfold renderM
  rw [List.map_map, List.map_map, List.map_map]
  congr 2
  apply List.map_congr_left
  intro e he
  simp only [Function.comp_def, untagE]
  exact renderHunk_mh_untag nc e.1 e.2 (h e he)

/-- **a merge diff through the text**: the text of `l.map mh` is read back as the same hunks with
    untagged values -/
theorem read_render_mh (nc : NumCodec) (l : List (List String × Json))
    (hc : ∀ e ∈ l, PathOK nc (e.1.map PathElem.key) ∧ (e.2.isVoid = true ∨ ValOK nc e.2))
    (text : String) (hr : renderM nc [] (l.map (fun e => mh e.1 e.2)) = some text) :
    readDiffM nc text = .ok ((l.map untagE).map (fun e => mh e.1 e.2)) := by
  rw [← normDiff_mh]
  exact read_render nc _ text (wfDiff_mh l) (codecOK_mh nc l hc) hr

/-- … with the same effect on EVERY document, up to the Go type of array nodes of the result -/
theorem patchAll_mh_untag (sw : Bool) (l : List (List String × Json)) (c : Json) :
    Outcome.mapO untag (patchAll sw c ((l.map untagE).map (fun e => mh e.1 e.2))) =
      Outcome.mapO untag (patchAll sw c (l.map (fun e => mh e.1 e.2))) := by
  rw [← normDiff_mh]
  exact patchAll_normDiff_merge sw c _ (mergeVoidOK_mh l)

end MergeText

/-! ## 8. (A) the MERGE strategy, list reading of arrays -/

section MergeListMain
open Jd.Merge (mh mapply mset consE objVoidFree objVoidFreeKvs dl dlKvs GoodB)

/-- all object keys of `b`'s and `a`'s nodes, as a hypothesis on sub-terms -/
theorem keysIn_of_docKeys (x : Json) (K : List String) (hK : ∀ k ∈ E2E.docKeys x, k ∈ K) :
    ∀ z ∈ subterms x, E2E.KeysIn K z :=
  fun z hz => E2E.KeysIn.mono hK (E2E.keysIn_docKeys (x := x) (by rw [subterms_eq]; exact hz))

/-- the library's merge diff of two documents as read from text, list reading: the hunks of the
    pure function `Merge.dl` (JdProofs.MergeProofs) -/
theorem diffM_mergeList_eq (o : Opts) (ho : dispatchTag o = .list) (hm : isMerge o = true)
    (a b : Json) (ha : a.rawDoc = true) (hb : b.rawDoc = true) (hv : objVoidFree b = true) :
    diffM o a b = (dl o a b).map (fun e => mh e.1 e.2) := by
  have hd := Merge.diffNode_eq_dl o ho a b [] ha hb hv
  simp only [List.map_nil, List.nil_append] at hd
  unfold diffM
  rw [hm, hd]

/-- the entries of the pure merge diff: key paths over the keys of the two documents; every value
    is void (a deletion: the bare `+` line) or has every tag-blind property of the sub-terms of `b` -/
theorem dl_entries (o : Opts) (a b : Json) (P : Json → Prop)
    (hP : ∀ t xs, P (.arr t xs) → P (.arr .list xs)) (h0 : ∀ z ∈ subterms b, P z) :
    ∀ e ∈ dl o a b, (∀ k ∈ e.1, k ∈ E2E.docKeys a ++ E2E.docKeys b) ∧
      (e.2.isVoid = true ∨ P e.2) :=
  pureMerge_ok (pureMerge_dl o) P hP _ a
    (keysIn_of_docKeys a _ (fun k hk => List.mem_append_left _ hk)) b
    (fun z hz => ⟨keysIn_of_docKeys b _ (fun k hk => List.mem_append_right _ hk) z hz, h0 z hz⟩)

/-- **the premises of the round-trip theorems hold of `a.Diff(b, MERGE)`**: the diff is a sequence
    of merge hunks `^ {"Merge":true}` / `@ [keys]` / `+ value` (bare `+` for a deletion) over the
    keys of the two documents; it is in the domain of the reader (`wfDiff`) and of the merge
    same-effect theorem; its values are list-mode documents -/
theorem diffM_premises_mergeList (o : Opts) (ho : dispatchTag o = .list) (hm : isMerge o = true)
    (a b : Json) (ha : a.rawDoc = true) (hb : b.rawDoc = true) (hv : objVoidFree b = true) :
    wfDiff (diffM o a b) = true ∧
    (diffM o a b).all (fun h => h.merge && voidOK h) = true ∧
    (diffM o a b).all listDocHunk = true ∧
    (∀ h ∈ diffM o a b, ∃ ks v, h = mh ks v ∧ (∀ k ∈ ks, k ∈ E2E.docKeys a ++ E2E.docKeys b) ∧
      v.listDoc = true) := by
  rw [diffM_mergeList_eq o ho hm a b ha hb hv]
  have key := dl_entries o a b (fun z => z.listDoc = true)
    (fun t xs h => by
      simp only [Json.listDoc, Bool.and_eq_true] at h ⊢
      exact ⟨by simp, h.2⟩)
    (fun z hz => rawDoc_listDoc z (rawDoc_subterm b hb z hz))
  have ld : ∀ e ∈ dl o a b, e.2.listDoc = true := by
    intro e he
    rcases (key e he).2 with h | h
    · cases hv : e.2 <;> simp [hv, Json.isVoid] at h; rfl
    · exact h
  refine ⟨wfDiff_mh _, mergeVoidOK_mh _, listDocHunk_mh _ ld, fun h hh => ?_⟩
  obtain ⟨e, he, rfl⟩ := List.mem_map.1 hh
  exact ⟨e.1, e.2, rfl, (key e he).1, ld e he⟩

/-- the codec hypotheses on the entries of the pure merge diff, from the contract on the sub-terms
    of `b` (the only source of values) and on the key paths of the diff -/
theorem dl_codec (nc : NumCodec) (o : Opts) (a b : Json)
    (hv : ∀ z ∈ subterms b, ValOK nc z)
    (hpth : ∀ h ∈ (dl o a b).map (fun e => mh e.1 e.2), PathOK nc h.path) :
    ∀ e ∈ dl o a b, PathOK nc (e.1.map PathElem.key) ∧ (e.2.isVoid = true ∨ ValOK nc e.2) := by
  intro e he
  obtain ⟨h1, h2⟩ := dl_entries o a b (ValOK nc) (fun t xs h => valOK_retag nc .list t xs h) hv e he
  exact ⟨hpth (mh e.1 e.2) (List.mem_map.2 ⟨e, he, rfl⟩), h2⟩

/-- the codec contract of `NativeRT.read_render` for `a.Diff(b, MERGE)` -/
theorem diffM_codecOK_mergeList (nc : NumCodec) (o : Opts) (ho : dispatchTag o = .list)
    (hm : isMerge o = true) (a b : Json) (ha : a.rawDoc = true) (hb : b.rawDoc = true)
    (hvf : objVoidFree b = true) (hv : ∀ z ∈ subterms b, ValOK nc z)
    (hpth : ∀ h ∈ diffM o a b, PathOK nc h.path) :
    CodecOK nc (diffM o a b) := by
  rw [diffM_mergeList_eq o ho hm a b ha hb hvf] at hpth ⊢
  exact codecOK_mh nc _ (dl_codec nc o a b hv hpth)

/-- the input-level form of the path hypothesis: it is enough that the codec contract holds of
    every key path over the keys of the two documents -/
theorem diffM_pathOK_of_inputs_mergeList (nc : NumCodec) (o : Opts) (ho : dispatchTag o = .list)
    (hm : isMerge o = true) (a b : Json) (ha : a.rawDoc = true) (hb : b.rawDoc = true)
    (hvf : objVoidFree b = true)
    (hpaths : ∀ ks : List String, (∀ k ∈ ks, k ∈ E2E.docKeys a ++ E2E.docKeys b) →
      PathOK nc (ks.map PathElem.key)) :
    ∀ h ∈ diffM o a b, PathOK nc h.path := by
  intro h hh
  obtain ⟨ks, v, rfl, hk, _⟩ := (diffM_premises_mergeList o ho hm a b ha hb hvf).2.2.2 h hh
  exact hpaths ks hk

/-- **C02 for every diff PRODUCED by `Diff` with the MERGE strategy (list reading): the text is a
    lossless carrier.** No hypothesis on hashes or numbers, none on `a` beyond "as read from text":
    the printed text of `a.Diff(b, MERGE)` is read back as a diff that renders to the IDENTICAL text
    and has the same effect as the original on EVERY document `c` (same success / failure, same
    result up to the Go type of array nodes). -/
theorem diff_text_lossless_mergeList (nc : NumCodec) (o : Opts) (ho : dispatchTag o = .list)
    (hm : isMerge o = true) (a b : Json) (ha : a.rawDoc = true) (hb : b.rawDoc = true)
    (hvf : objVoidFree b = true) (hv : ∀ z ∈ subterms b, ValOK nc z)
    (hpth : ∀ h ∈ diffM o a b, PathOK nc h.path)
    (text : String) (hr : renderM nc [] (diffM o a b) = some text) :
    ∃ d', readDiffM nc text = .ok d' ∧ renderM nc [] d' = some text ∧
      ∀ c : Json,
        Outcome.mapO untag (patchM c d') = Outcome.mapO untag (patchM c (diffM o a b)) := by
  rw [diffM_mergeList_eq o ho hm a b ha hb hvf] at hr hpth ⊢
  refine ⟨_, read_render_mh nc _ (dl_codec nc o a b hv hpth) text hr, ?_, fun c => ?_⟩
  · rw [renderM_mh_untag nc _ (fun e he => ?_), hr]
    rcases (dl_entries o a b (TagBlind nc) (fun t xs h => tagBlind_retag nc .list t xs h)
      (fun z hz => tagBlind_of_rawDoc nc (rawDoc_subterm b hb z hz)) e he).2 with h | h
    · cases hv : e.2 <;> simp [hv, Json.isVoid] at h
      unfold TagBlind; rfl
    · exact h
  · exact patchAll_mh_untag true _ c

/-- **C02 end to end, MERGE strategy, list reading of arrays.** The text printed for
    `a.Diff(b, MERGE)` is read back as a diff `d'` (the same merge hunks, values as plain arrays), and
    the LIBRARY's `a.Patch(d')` succeeds with a document that `Equals` `b` under the options of the
    diff, is equivalent to it (`equivB o`) and structurally equal to it (`specEq`). -/
theorem diff_render_read_patch_mergeList (L : FloatLaws) (nc : NumCodec) (o : Opts)
    (hm : isMerge o = true) (ho : dispatchTag o = .list) (hprec : precOf o = 0) (a b : Json)
    (haw : a.wf = true) (har : a.rawDoc = true)
    (hbw : b.wf = true) (hbr : b.rawDoc = true) (hbn : b.nullFree = true)
    (hbv : objVoidFree b = true) (hbf : b.finiteNums = true)
    (hv : ∀ z ∈ subterms b, ValOK nc z)
    (hpth : ∀ h ∈ diffM o a b, PathOK nc h.path)
    (text : String) (hr : renderM nc [] (diffM o a b) = some text) :
    ∃ d', readDiffM nc text = .ok d' ∧ d' = normDiff (diffM o a b) ∧
      ∃ r, patchM a d' = .ok r ∧ equals o r b = true ∧ equivB o r b = true ∧
        specEq r b = true := by
  have G : GoodB b := ⟨hbw, hbr, hbn, hbv, hbf⟩
  have S := memSoundU_list L o ho hprec a haw har b G
  rw [diffM_mergeList_eq o ho hm a b har hbr hbv] at hr hpth ⊢
  refine ⟨_, read_render_mh nc _ (dl_codec nc o a b hv hpth) text hr, (normDiff_mh _).symm,
    mapply ((dl o a b).map untagE) a, Merge.patchAll_mh true _ a, S.1, S.2, ?_⟩
  have := S.2
  rw [DPL.equivB_congr o [] ho rfl (by simpa [precOf] using hprec)] at this
  exact this

/-- `a.Diff(b, MERGE).Render()` succeeds when `json.Marshal` succeeds on every sub-term of `b` and
    on the key paths -/
theorem diffM_renders_mergeList (nc : NumCodec) (o : Opts) (ho : dispatchTag o = .list)
    (hm : isMerge o = true) (a b : Json) (ha : a.rawDoc = true) (hb : b.rawDoc = true)
    (hvf : objVoidFree b = true)
    (hmv : ∀ z ∈ subterms b, (marshalNode nc z).isSome = true)
    (hmp : ∀ h ∈ diffM o a b, (jsonM nc (pathToJson h.path)).isSome = true) :
    ∃ text, renderM nc [] (diffM o a b) = some text := by
  rw [diffM_mergeList_eq o ho hm a b ha hb hvf] at hmp ⊢
  refine renders_mh nc _ (fun e he => ?_)
  obtain ⟨h1, h2⟩ := dl_entries o a b (fun z => (marshalNode nc z).isSome = true)
    (fun t xs h => marshal_retag nc .list t xs h) hmv e he
  exact ⟨hmp (mh e.1 e.2) (List.mem_map.2 ⟨e, he, rfl⟩), h2⟩

/-- **C02 end to end, MERGE strategy, list reading, total form** -/
theorem diff_print_read_patch_mergeList (L : FloatLaws) (nc : NumCodec) (o : Opts)
    (hm : isMerge o = true) (ho : dispatchTag o = .list) (hprec : precOf o = 0) (a b : Json)
    (haw : a.wf = true) (har : a.rawDoc = true)
    (hbw : b.wf = true) (hbr : b.rawDoc = true) (hbn : b.nullFree = true)
    (hbv : objVoidFree b = true) (hbf : b.finiteNums = true)
    (hv : ∀ z ∈ subterms b, (marshalNode nc z).isSome = true ∧ ValOK nc z)
    (hpth : ∀ h ∈ diffM o a b, (jsonM nc (pathToJson h.path)).isSome = true ∧ PathOK nc h.path) :
    ∃ text d' r, renderM nc [] (diffM o a b) = some text ∧ readDiffM nc text = .ok d' ∧
      patchM a d' = .ok r ∧ equals o r b = true ∧ equivB o r b = true ∧ specEq r b = true := by
  obtain ⟨text, ht⟩ := diffM_renders_mergeList nc o ho hm a b har hbr hbv
    (fun z hz => (hv z hz).1) (fun h hh => (hpth h hh).1)
  obtain ⟨d', h1, _, r, h2, h3, h4, h5⟩ := diff_render_read_patch_mergeList L nc o hm ho hprec a b
    haw har hbw hbr hbn hbv hbf (fun z hz => (hv z hz).2) (fun h hh => (hpth h hh).2) text ht
  exact ⟨text, d', r, ht, h1, h2, h3, h4, h5⟩

end MergeListMain

/-! ## 9. (C) the MERGE strategy combined with the SET / MULTISET reading

  Here `Diff` replaces an array that is not `Equal` (as a set / bag) by the TYPED node `jsonSet` /
  `jsonMultiset` (`.arr (dispatchTag o) ys`).  Its text is the text of the plain array, the reader
  gives the plain array back (`untag`), and under the same options the plain array is read as a set /
  bag again: nothing is lost. -/

section MergeSetMain
open Jd.Merge (mh mapply mset consE objVoidFree objVoidFreeKvs)
open Jd.MSet (ds dsKvs GoodS)

/-- the hypotheses of this section on the two documents and the options -/
structure SetMergeDom (o : Opts) (a b : Json) : Prop where
  merge : isMerge o = true
  mode : dispatchTag o = .set ∨ dispatchTag o = .mset
  keys : keysOf o = none
  prec : precOf o = 0
  da : a.setDoc = true
  db : b.setDoc = true
  nf : b.nullFree = true
  vf : objVoidFree b = true
  hf : HashFaithful o (subterms a ++ subterms b)

theorem SetMergeDom.rawB {o : Opts} {a b : Json} (H : SetMergeDom o a b) : b.rawDoc = true := by
  have := H.db; simp only [Json.setDoc, Bool.and_eq_true] at this; exact this.1.1.1

/-- the library's merge diff in the set readings: the hunks of the pure function `MSet.ds`
    (JdProofs.MergeSetModes) -/
theorem diffM_mergeSet_eq (F : FloatEq0) {o : Opts} {a b : Json} (H : SetMergeDom o a b) :
    diffM o a b = (ds o a b).map (fun e => mh e.1 e.2) := by
  have hd := MSet.diffNode_eq_ds F H.mode H.keys H.prec H.hf a b (docOk_of_setDoc H.da)
    (docOk_of_setDoc H.db) (fun z hz => List.mem_append.2 (Or.inl hz))
    (fun z hz => List.mem_append.2 (Or.inr hz)) H.vf []
  simp only [List.map_nil, List.nil_append] at hd
  unfold diffM
  rw [H.merge, hd]

theorem ds_entries (o : Opts) (a b : Json) (P : Json → Prop)
    (hP : ∀ t xs, P (.arr t xs) → P (.arr (dispatchTag o) xs)) (h0 : ∀ z ∈ subterms b, P z) :
    ∀ e ∈ ds o a b, (∀ k ∈ e.1, k ∈ E2E.docKeys a ++ E2E.docKeys b) ∧
      (e.2.isVoid = true ∨ P e.2) :=
  pureMerge_ok (pureMerge_ds o) P hP _ a
    (keysIn_of_docKeys a _ (fun k hk => List.mem_append_left _ hk)) b
    (fun z hz => ⟨keysIn_of_docKeys b _ (fun k hk => List.mem_append_right _ hk) z hz, h0 z hz⟩)

/-- **the premises of the round-trip theorems hold of `a.Diff(b, SET, MERGE)`**: a sequence of
    merge hunks over the keys of the two documents, in the domain of the reader and of the merge
    same-effect theorem; every value is void (deletion), a plain document, or a plain array
    re-typed as `jsonSet` / `jsonMultiset` at the top -/
theorem diffM_premises_mergeSet (F : FloatEq0) {o : Opts} {a b : Json} (H : SetMergeDom o a b) :
    wfDiff (diffM o a b) = true ∧
    (diffM o a b).all (fun h => h.merge && voidOK h) = true ∧
    (∀ h ∈ diffM o a b, ∃ ks v, h = mh ks v ∧ (∀ k ∈ ks, k ∈ E2E.docKeys a ++ E2E.docKeys b) ∧
      (untag v).rawDoc = true ∧
      (v.rawDoc = true ∨ ∃ ys, rawDocList ys = true ∧ v = .arr (dispatchTag o) ys)) := by
  rw [diffM_mergeSet_eq F H]
  have key := ds_entries o a b
    (fun z => z.rawDoc = true ∨ ∃ ys, rawDocList ys = true ∧ z = .arr (dispatchTag o) ys)
    (fun t xs h => by
      right
      rcases h with h | ⟨ys, h1, h2⟩
      · simp only [Json.rawDoc, Bool.and_eq_true] at h; exact ⟨xs, h.2, rfl⟩
      · cases h2; exact ⟨xs, h1, rfl⟩)
    (fun z hz => .inl (rawDoc_subterm b H.rawB z hz))
  refine ⟨wfDiff_mh _, mergeVoidOK_mh _, fun h hh => ?_⟩
  obtain ⟨e, he, rfl⟩ := List.mem_map.1 hh
  have hv : e.2.rawDoc = true ∨ ∃ ys, rawDocList ys = true ∧ e.2 = .arr (dispatchTag o) ys := by
    rcases (key e he).2 with h | h
    · left; cases hv : e.2 <;> simp [hv, Json.isVoid] at h; rfl
    · exact h
  refine ⟨e.1, e.2, rfl, (key e he).1, ?_, hv⟩
  rcases hv with h | ⟨ys, h1, h2⟩
  · rw [untag_rawDoc _ h]; exact h
  · rw [h2]; simp [untag, untagList_rawDoc ys h1, Json.rawDoc, h1]

theorem ds_codec (nc : NumCodec) (o : Opts) (a b : Json)
    (hv : ∀ z ∈ subterms b, ValOK nc z)
    (hpth : ∀ h ∈ (ds o a b).map (fun e => mh e.1 e.2), PathOK nc h.path) :
    ∀ e ∈ ds o a b, PathOK nc (e.1.map PathElem.key) ∧ (e.2.isVoid = true ∨ ValOK nc e.2) := by
  intro e he
  obtain ⟨h1, h2⟩ := ds_entries o a b (ValOK nc) (fun t xs h => valOK_retag nc _ t xs h) hv e he
  exact ⟨hpth (mh e.1 e.2) (List.mem_map.2 ⟨e, he, rfl⟩), h2⟩

/-- the codec contract of `NativeRT.read_render` for `a.Diff(b, SET, MERGE)`: the contract on a
    plain array carries over to the typed node (same text, same value read back) -/
theorem diffM_codecOK_mergeSet (F : FloatEq0) (nc : NumCodec) {o : Opts} {a b : Json}
    (H : SetMergeDom o a b) (hv : ∀ z ∈ subterms b, ValOK nc z)
    (hpth : ∀ h ∈ diffM o a b, PathOK nc h.path) :
    CodecOK nc (diffM o a b) := by
  rw [diffM_mergeSet_eq F H] at hpth ⊢
  exact codecOK_mh nc _ (ds_codec nc o a b hv hpth)

theorem diffM_pathOK_of_inputs_mergeSet (F : FloatEq0) (nc : NumCodec) {o : Opts} {a b : Json}
    (H : SetMergeDom o a b)
    (hpaths : ∀ ks : List String, (∀ k ∈ ks, k ∈ E2E.docKeys a ++ E2E.docKeys b) →
      PathOK nc (ks.map PathElem.key)) :
    ∀ h ∈ diffM o a b, PathOK nc h.path := by
  intro h hh
  obtain ⟨ks, v, rfl, hk, _⟩ := (diffM_premises_mergeSet F H).2.2 h hh
  exact hpaths ks hk

/-- **C02 for every diff PRODUCED by `Diff` with SET / MULTISET and MERGE: the text is a lossless
    carrier** (identical text when rendered again; same effect on EVERY document up to the Go type of
    array nodes of the result) -/
theorem diff_text_lossless_mergeSet (F : FloatEq0) (nc : NumCodec) {o : Opts} {a b : Json}
    (H : SetMergeDom o a b) (hv : ∀ z ∈ subterms b, ValOK nc z)
    (hpth : ∀ h ∈ diffM o a b, PathOK nc h.path)
    (text : String) (hr : renderM nc [] (diffM o a b) = some text) :
    ∃ d', readDiffM nc text = .ok d' ∧ renderM nc [] d' = some text ∧
      ∀ c : Json,
        Outcome.mapO untag (patchM c d') = Outcome.mapO untag (patchM c (diffM o a b)) := by
  rw [diffM_mergeSet_eq F H] at hr hpth ⊢
  refine ⟨_, read_render_mh nc _ (ds_codec nc o a b hv hpth) text hr, ?_, fun c => ?_⟩
  · rw [renderM_mh_untag nc _ (fun e he => ?_), hr]
    rcases (ds_entries o a b (TagBlind nc) (fun t xs h => tagBlind_retag nc _ t xs h)
      (fun z hz => tagBlind_of_rawDoc nc (rawDoc_subterm b H.rawB z hz)) e he).2 with h | h
    · cases hv : e.2 <;> simp [hv, Json.isVoid] at h
      unfold TagBlind; rfl
    · exact h
  · exact patchAll_mh_untag true _ c

/-- **C02 end to end, MERGE strategy with the SET / MULTISET reading.** The text printed for
    `a.Diff(b, SET, MERGE)` is read back as a diff `d'`, and the LIBRARY's `a.Patch(d')` succeeds with
    a document that `Equals` `b` under the options and is equivalent to it under the set (bag)
    reading. -/
theorem diff_render_read_patch_mergeSet (F : FloatEq0) (L : FloatLaws) (nc : NumCodec) {o : Opts}
    {a b : Json} (H : SetMergeDom o a b) (hv : ∀ z ∈ subterms b, ValOK nc z)
    (hpth : ∀ h ∈ diffM o a b, PathOK nc h.path)
    (text : String) (hr : renderM nc [] (diffM o a b) = some text) :
    ∃ d', readDiffM nc text = .ok d' ∧ d' = normDiff (diffM o a b) ∧
      ∃ r, patchM a d' = .ok r ∧ equals o r b = true ∧ equivB o r b = true := by
  have G : GoodS (subterms a ++ subterms b) b := MSet.goodS_of_setDoc H.db H.nf H.vf
  have S := memSoundU_set F L H.mode H.prec H.hf a (docOk_of_setDoc H.da)
    (fun z hz => List.mem_append.2 (Or.inl hz)) b G
  rw [diffM_mergeSet_eq F H] at hr hpth ⊢
  exact ⟨_, read_render_mh nc _ (ds_codec nc o a b hv hpth) text hr, (normDiff_mh _).symm,
    mapply ((ds o a b).map untagE) a, Merge.patchAll_mh true _ a, S.1, S.2⟩

theorem diffM_renders_mergeSet (F : FloatEq0) (nc : NumCodec) {o : Opts} {a b : Json}
    (H : SetMergeDom o a b) (hmv : ∀ z ∈ subterms b, (marshalNode nc z).isSome = true)
    (hmp : ∀ h ∈ diffM o a b, (jsonM nc (pathToJson h.path)).isSome = true) :
    ∃ text, renderM nc [] (diffM o a b) = some text := by
  rw [diffM_mergeSet_eq F H] at hmp ⊢
  refine renders_mh nc _ (fun e he => ?_)
  obtain ⟨h1, h2⟩ := ds_entries o a b (fun z => (marshalNode nc z).isSome = true)
    (fun t xs h => marshal_retag nc _ t xs h) hmv e he
  exact ⟨hmp (mh e.1 e.2) (List.mem_map.2 ⟨e, he, rfl⟩), h2⟩

/-- **C02 end to end, SET / MULTISET with MERGE, total form** -/
theorem diff_print_read_patch_mergeSet (F : FloatEq0) (L : FloatLaws) (nc : NumCodec) {o : Opts}
    {a b : Json} (H : SetMergeDom o a b)
    (hv : ∀ z ∈ subterms b, (marshalNode nc z).isSome = true ∧ ValOK nc z)
    (hpth : ∀ h ∈ diffM o a b, (jsonM nc (pathToJson h.path)).isSome = true ∧ PathOK nc h.path) :
    ∃ text d' r, renderM nc [] (diffM o a b) = some text ∧ readDiffM nc text = .ok d' ∧
      patchM a d' = .ok r ∧ equals o r b = true ∧ equivB o r b = true := by
  obtain ⟨text, ht⟩ := diffM_renders_mergeSet F nc H (fun z hz => (hv z hz).1)
    (fun h hh => (hpth h hh).1)
  obtain ⟨d', h1, _, r, h2, h3, h4⟩ := diff_render_read_patch_mergeSet F L nc H
    (fun z hz => (hv z hz).2) (fun h hh => (hpth h hh).2) text ht
  exact ⟨text, d', r, ht, h1, h2, h3, h4⟩

end MergeSetMain

/-! ## 9b. flat objects: the paths of the diff, read off the keys (used by the examples) -/

/-- SET / MULTISET readings, strict strategy: the diff of two objects whose FIRST one has no object
    member has only paths `[k]`, `[k, {}]`, `[k, []]` with `k` a key of one of the two objects -/
theorem flat_paths_set {o : Opts} (hm : DES.SetReading o) (hp : precOf o = 0)
    (hmg : isMerge o = false) (kvs kvs' : List (String × Json))
    (ha : (Json.obj kvs).rawDoc = true) (hwa : (Json.obj kvs).wf = true)
    (hb : (Json.obj kvs').rawDoc = true) (hwb : (Json.obj kvs').wf = true)
    (FH : DES.DiffFaithful o (subterms (.obj kvs)) (subterms (.obj kvs')))
    (flat : ∀ kv ∈ kvs, kv.2.isObj = false) :
    ∀ h ∈ diffM o (.obj kvs) (.obj kvs'), ∃ k tl, RealS.isTail tl ∧ h.path = .key k :: tl ∧
      (k ∈ kvs.map (·.1) ∨ k ∈ kvs'.map (·.1)) := by
  intro h hh
  unfold diffM at hh
  rw [hmg, DE.diffNode_obj_obj] at hh
  simp only [Json.rawDoc] at ha hb
  simp only [Json.wf, Bool.and_eq_true] at hwa hwb
  rcases List.mem_append.1 hh with hh | hh
  · obtain ⟨k, v, hmem, hcase⟩ := RealS.mem_diffKvs o [] kvs' hh
    have hk : k ∈ kvs.map (·.1) := List.mem_map.2 ⟨(k, v), hmem, rfl⟩
    rcases hcase with ⟨v', hl', hin⟩ | ⟨_, rfl⟩
    · have hmem' := mem_of_alookup hl'
      have hno : ¬ ((∃ kvs0, v = .obj kvs0) ∧ ∃ kvs1, v' = .obj kvs1) := by
        rintro ⟨⟨kvs0, rfl⟩, _⟩
        have := flat (k, .obj kvs0) hmem
        simp [Json.isObj] at this
      obtain ⟨⟨tl, ht, hpath⟩, _⟩ := (RealS.leaf_hunk hm hp FH (DES.rawDocKvs_mem ha hmem)
        (DES.wfKvs_mem hwa.2 hmem) ((DES.within_subterms _).val hmem)
        (DES.rawDocKvs_mem hb hmem') (DES.wfKvs_mem hwb.2 hmem')
        ((DES.within_subterms _).val hmem') hno ([] ++ [.key k])).2 h hin
      exact ⟨k, tl, ht, by simpa using hpath, .inl hk⟩
    · exact ⟨k, [], .inl rfl, rfl, .inl hk⟩
  · obtain ⟨kv, hkv, rfl⟩ := List.mem_map.1 hh
    exact ⟨kv.1, [], .inl rfl, rfl, .inr (List.mem_map.2 ⟨kv, (List.mem_filter.1 hkv).1, rfl⟩)⟩

/-- MERGE strategy: the pure diff of two objects whose first one has no object member has only the
    key paths `[k]` -/
theorem flat_paths_merge {T : Tag} {D : Json → Json → List (List String × Json)}
    {DK : List (String × Json) → List (String × Json) → List (List String × Json)}
    (PM : PureMerge T D DK) (kvs kvs' : List (String × Json))
    (flat : ∀ kv ∈ kvs, kv.2.isObj = false) :
    ∀ e ∈ D (.obj kvs) (.obj kvs'), ∃ k, e.1 = [k] ∧
      (k ∈ kvs.map (·.1) ∨ k ∈ kvs'.map (·.1)) := by
  intro e he
  rw [PM.obj] at he
  rcases List.mem_append.1 he with he | he
  · have sub : ∀ r : List (String × Json), (∀ kv ∈ r, kv ∈ kvs) → ∀ e ∈ DK kvs' r,
        ∃ k, e.1 = [k] ∧ (k ∈ kvs.map (·.1) ∨ k ∈ kvs'.map (·.1)) := by
      intro r
      induction r with
      | nil => intro _ e he; rw [PM.nil] at he; cases he
      | cons kv r ihr =>
        obtain ⟨k, v⟩ := kv
        intro hr e he
        rw [PM.cons] at he
        have hkv : (k, v) ∈ kvs := hr (k, v) (by simp)
        have hk : k ∈ kvs.map (·.1) := List.mem_map.2 ⟨(k, v), hkv, rfl⟩
        rcases List.mem_append.1 he with he | he
        · cases hl : alookup k kvs' with
          | none =>
            rw [hl] at he
            simp only [List.mem_singleton] at he
            subst he
            exact ⟨k, rfl, .inl hk⟩
          | some v' =>
            rw [hl] at he
            obtain ⟨e0, he0, rfl⟩ := List.mem_map.1 he
            have h0 := (PM.leaf v v' (fun hc => by
              have := flat (k, v) hkv; rw [hc.1] at this; cases this) e0 he0).1
            exact ⟨k, by simp [Merge.consE, h0], .inl hk⟩
        · exact ihr (fun kv' h' => hr kv' (List.mem_cons_of_mem _ h')) e he
    exact sub kvs (fun _ h' => h') e he
  · obtain ⟨kv, hkv, rfl⟩ := List.mem_map.1 he
    exact ⟨kv.1, rfl, .inr (List.mem_map.2 ⟨kv, (List.mem_filter.1 hkv).1, rfl⟩)⟩

/-! ## 10. non-vacuity: concrete pairs with the concrete codec `NativeRT.exCodec` -/

set_option linter.unusedSimpArgs false

/-- the text of a path under `exCodec`, and its reading back, by evaluation (key, `{}`, `[]`) -/
macro "spath_ok " t:term : tactic =>
  `(tactic| (refine E2E.pathOK_intro $t ?_ ?_ ?_
             · simp [jsonM, pathToJson, rawNorm, rawNormList, rawNormKvs, jsonText, jsonTextList,
                 jsonTextKvs, quoteString, escapeBody, escapeChar, String.intercalate_cons_cons,
                 String.intercalate_singleton]
             · simp
             · simp [readJsonM, trimGoSpace, parseJson, parseValue, skipWs, isJsonWs, parseElems,
                 parseMembers, lexString, untag, untagList, untagKvs, pathToJson, ainsert]))

namespace Example

theorem path_s_set : (jsonM exCodec (pathToJson [.key "s", .set])).isSome = true ∧
    PathOK exCodec [.key "s", .set] := by spath_ok "[\"s\",{}]"

theorem path_s_mset : (jsonM exCodec (pathToJson [.key "s", .mset])).isSome = true ∧
    PathOK exCodec [.key "s", .mset] := by spath_ok "[\"s\",[]]"

theorem path_key (k : String) (hk : k = "s" ∨ k = "t" ∨ k = "u" ∨ k = "v") :
    (jsonM exCodec (pathToJson [.key k])).isSome = true ∧ PathOK exCodec [.key k] := by
  rcases hk with rfl | rfl | rfl | rfl
  · spath_ok "[\"s\"]"
  · spath_ok "[\"t\"]"
  · spath_ok "[\"u\"]"
  · spath_ok "[\"v\"]"

theorem path_key_tail (k : String) (hk : k = "s" ∨ k = "t") (tl : Path) (ht : RealS.isTail tl) :
    (jsonM exCodec (pathToJson (.key k :: tl))).isSome = true ∧
      PathOK exCodec (.key k :: tl) := by
  rcases hk with rfl | rfl <;> rcases ht with rfl | rfl | rfl
  · spath_ok "[\"s\"]"
  · spath_ok "[\"s\",{}]"
  · spath_ok "[\"s\",[]]"
  · spath_ok "[\"t\"]"
  · spath_ok "[\"t\",{}]"
  · spath_ok "[\"t\",[]]"

/-! ### (B) SET / MULTISET, strict: `{"s":[true,null,{"k":null}]}` → `{"s":[{"k":null},null,false],"t":null}`
    (the pair of JdProofs.SetDiffPatch: a set / multiset hunk `@ ["s",{}]` with one `-` and one `+`
    line below the key `s`, next to an equal object member of the set, and an added member) -/

/-- the codec contract (and `json.Marshal` succeeding) on every sub-term of the two documents -/
theorem vals_set : ∀ z ∈ subterms SetDP.Example.exA ++ subterms SetDP.Example.exB,
    (marshalNode exCodec z).isSome = true ∧ ValOK exCodec z := by
  intro z hz
  simp only [SetDP.Example.exA, SetDP.Example.exB, subterms, subtermsList, subtermsKvs,
    List.cons_append, List.nil_append, List.append_nil, List.mem_cons, List.not_mem_nil,
    or_false] at hz
  rcases hz with rfl | rfl | rfl | rfl | rfl | rfl | rfl | rfl | rfl | rfl | rfl | rfl | rfl
  · val_ok "{\"s\":[true,null,{\"k\":null}]}"
  · val_ok "[true,null,{\"k\":null}]"
  · val_ok "true"
  · val_ok "null"
  · val_ok "{\"k\":null}"
  · val_ok "null"
  · val_ok "{\"s\":[{\"k\":null},null,false],\"t\":null}"
  · val_ok "[{\"k\":null},null,false]"
  · val_ok "{\"k\":null}"
  · val_ok "null"
  · val_ok "null"
  · val_ok "false"
  · val_ok "null"

theorem voidFree_set : E2E.voidFree SetDP.Example.exA = true ∧
    E2E.voidFree SetDP.Example.exB = true := by decide

theorem faithful_set (o : Opts) (ho : o = [.set] ∨ o = [.mset]) :
    DES.DiffFaithful o (subterms SetDP.Example.exA) (subterms SetDP.Example.exB) := by
  rcases ho with rfl | rfl <;> exact DES.diffFaithful_of_check (by decide +kernel)

/-- the codec contract on the paths of the diff, without computing the diff: its paths are `[k]`,
    `[k,{}]`, `[k,[]]` for a key `k` of the two (flat) objects -/
theorem paths_set (o : Opts) (ho : o = [.set] ∨ o = [.mset]) :
    ∀ h ∈ diffM o SetDP.Example.exA SetDP.Example.exB,
      (jsonM exCodec (pathToJson h.path)).isSome = true ∧ PathOK exCodec h.path := by
  intro h hh
  have hm : DES.SetReading o := by
    rcases ho with rfl | rfl
    · exact .inl ⟨rfl, rfl⟩
    · exact .inr rfl
  have hp : precOf o = 0 := by rcases ho with rfl | rfl <;> rfl
  have hmg : isMerge o = false := by rcases ho with rfl | rfl <;> rfl
  obtain ⟨k, tl, ht, hpath, hk⟩ := flat_paths_set hm hp hmg _ _ (by decide) (by decide) (by decide)
    (by decide) (faithful_set o ho) (by decide) h hh
  rw [hpath]
  refine path_key_tail k ?_ tl ht
  rcases hk with hk | hk
  · simp at hk; exact .inl hk
  · simp at hk; exact hk

/-- **the end-to-end theorem on the concrete pair, SET and MULTISET readings**: every hypothesis
    holds (only the IEEE-754 laws remain) -/
theorem ex_set_end_to_end (F : FloatEq0) (L : FloatLaws) :
    ∀ o, o = [Opt.set] ∨ o = [Opt.mset] →
    ∃ text d' r, renderM exCodec [] (diffM o SetDP.Example.exA SetDP.Example.exB) = some text ∧
      readDiffM exCodec text = .ok d' ∧ patchM SetDP.Example.exA d' = .ok r ∧
      equivB o r SetDP.Example.exB = true ∧ equals o r SetDP.Example.exB = true := by
  intro o ho
  have HF : HashFaithful o (subterms SetDP.Example.exA ++ subterms SetDP.Example.exB) := by
    rcases ho with rfl | rfl
    · exact SetDP.Example.ex_hashFaithful_set
    · exact SetDP.Example.ex_hashFaithful_mset
  have hm : dispatchTag o = .set ∨ dispatchTag o = .mset := by
    rcases ho with rfl | rfl
    · exact .inl rfl
    · exact .inr rfl
  exact diff_print_read_patch_set F L exCodec o hm (by rcases ho with rfl | rfl <;> rfl)
    (by rcases ho with rfl | rfl <;> rfl) (by rcases ho with rfl | rfl <;> rfl) _ _
    SetDP.Example.ex_docs.1 SetDP.Example.ex_docs.2.1 voidFree_set.1 voidFree_set.2 HF vals_set
    (paths_set o ho)

/-- the hypotheses of `diffM_premises_set` / `diff_text_lossless_set` hold (no float law at all) -/
example (text : String)
    (hr : renderM exCodec [] (diffM [.set] SetDP.Example.exA SetDP.Example.exB) = some text) :
    ∃ d', readDiffM exCodec text = .ok d' ∧ renderM exCodec [] d' = some text ∧
      ∀ c : Json, patchM c d' = patchM c (diffM [.set] SetDP.Example.exA SetDP.Example.exB) :=
  diff_text_lossless_set exCodec (.inl ⟨rfl, rfl⟩) rfl rfl _ _ (by decide) (by decide) (by decide)
    (by decide) voidFree_set.1 voidFree_set.2 (faithful_set _ (.inl rfl))
    (fun z hz => (vals_set z hz).2) (fun h hh => (paths_set _ (.inl rfl) h hh).2) text hr

example : wfDiff (diffM [.mset] SetDP.Example.exA SetDP.Example.exB) = true :=
  (diffM_premises_set (.inr rfl) rfl rfl _ _ (by decide) (by decide) (by decide) (by decide)
    voidFree_set.1 voidFree_set.2 (faithful_set _ (.inr rfl))).1

/-! ### (A), (C) MERGE: `{"s":["x","y"],"u":"x","v":["x"]}` → `{"s":["y","x"],"t":[true],"v":["x","z"]}`
    (the pair of JdProofs.MergeSetModes.  `[MERGE]`: four merge hunks — `s` and `v` replaced by
    `jsonList` nodes, `u` deleted with a bare `+` line, `t` added.  `[SET, MERGE]`: `s` is unchanged
    as a set; `v` is replaced by a `jsonSet` node) -/

theorem vals_merge : ∀ z ∈ subterms MSet.Example.exB,
    (marshalNode exCodec z).isSome = true ∧ ValOK exCodec z := by
  intro z hz
  simp only [MSet.Example.exB, subterms, subtermsList, subtermsKvs,
    List.cons_append, List.nil_append, List.append_nil, List.mem_cons, List.not_mem_nil,
    or_false] at hz
  rcases hz with rfl | rfl | rfl | rfl | rfl | rfl | rfl | rfl | rfl
  · val_ok "{\"s\":[\"y\",\"x\"],\"t\":[true],\"v\":[\"x\",\"z\"]}"
  · val_ok "[\"y\",\"x\"]"
  · val_ok "\"y\""
  · val_ok "\"x\""
  · val_ok "[true]"
  · val_ok "true"
  · val_ok "[\"x\",\"z\"]"
  · val_ok "\"x\""
  · val_ok "\"z\""

theorem docs_merge : MSet.Example.exA.wf = true ∧ MSet.Example.exA.rawDoc = true ∧
    MSet.Example.exB.wf = true ∧ MSet.Example.exB.rawDoc = true ∧
    MSet.Example.exB.nullFree = true ∧ Merge.objVoidFree MSet.Example.exB = true ∧
    MSet.Example.exB.finiteNums = true := by decide

theorem flat_keys {T : Tag} {D : Json → Json → List (List String × Json)}
    {DK : List (String × Json) → List (String × Json) → List (List String × Json)}
    (PM : PureMerge T D DK) :
    ∀ h ∈ (D MSet.Example.exA MSet.Example.exB).map (fun e => Merge.mh e.1 e.2),
      (jsonM exCodec (pathToJson h.path)).isSome = true ∧ PathOK exCodec h.path := by
  intro h hh
  obtain ⟨e, he, rfl⟩ := List.mem_map.1 hh
  obtain ⟨k, hk1, hk2⟩ := flat_paths_merge PM _ _ (by decide) e he
  show (jsonM exCodec (pathToJson (e.1.map PathElem.key))).isSome = true ∧
    PathOK exCodec (e.1.map PathElem.key)
  rw [hk1]
  refine path_key k ?_
  rcases hk2 with hk | hk
  · simp at hk; rcases hk with rfl | rfl | rfl <;> simp
  · simp at hk; rcases hk with rfl | rfl | rfl <;> simp

/-- **(A) the end-to-end theorem on the concrete pair, `[MERGE]`** (only `FloatLaws` remains) -/
theorem ex_merge_end_to_end (L : FloatLaws) :
    ∃ text d' r, renderM exCodec [] (diffM [.merge] MSet.Example.exA MSet.Example.exB) = some text ∧
      readDiffM exCodec text = .ok d' ∧ patchM MSet.Example.exA d' = .ok r ∧
      equals [.merge] r MSet.Example.exB = true ∧ equivB [.merge] r MSet.Example.exB = true ∧
      specEq r MSet.Example.exB = true := by
  obtain ⟨a1, a2, b1, b2, b3, b4, b5⟩ := docs_merge
  refine diff_print_read_patch_mergeList L exCodec [.merge] rfl rfl rfl _ _ a1 a2 b1 b2 b3 b4 b5
    vals_merge ?_
  rw [diffM_mergeList_eq [.merge] rfl rfl _ _ a2 b2 b4]
  exact flat_keys (pureMerge_dl [.merge])

/-- the hypotheses of `diff_text_lossless_mergeList` hold -/
example (text : String)
    (hr : renderM exCodec [] (diffM [.merge] MSet.Example.exA MSet.Example.exB) = some text) :
    ∃ d', readDiffM exCodec text = .ok d' ∧ renderM exCodec [] d' = some text ∧
      ∀ c : Json, Outcome.mapO untag (patchM c d') =
        Outcome.mapO untag (patchM c (diffM [.merge] MSet.Example.exA MSet.Example.exB)) := by
  obtain ⟨a1, a2, b1, b2, b3, b4, b5⟩ := docs_merge
  refine diff_text_lossless_mergeList exCodec [.merge] rfl rfl _ _ a2 b2 b4
    (fun z hz => (vals_merge z hz).2) (fun h hh => ?_) text hr
  rw [diffM_mergeList_eq [.merge] rfl rfl _ _ a2 b2 b4] at hh
  exact (flat_keys (pureMerge_dl [.merge]) h hh).2

theorem dom_setMerge (o : Opts) (ho : o = [.set, .merge] ∨ o = [.mset, .merge]) :
    SetMergeDom o MSet.Example.exA MSet.Example.exB := by
  obtain ⟨d1, d2, d3, d4⟩ := MSet.Example.ex_docs
  rcases ho with rfl | rfl
  · exact ⟨rfl, .inl rfl, rfl, rfl, d1, d2, d3, d4, MSet.Example.ex_hashFaithful_set⟩
  · exact ⟨rfl, .inr rfl, rfl, rfl, d1, d2, d3, d4, MSet.Example.ex_hashFaithful_mset⟩

/-- **(C) the end-to-end theorem on the concrete pair, `[SET, MERGE]` and `[MULTISET, MERGE]`** -/
theorem ex_setMerge_end_to_end (F : FloatEq0) (L : FloatLaws) :
    ∀ o, o = [Opt.set, Opt.merge] ∨ o = [Opt.mset, Opt.merge] →
    ∃ text d' r, renderM exCodec [] (diffM o MSet.Example.exA MSet.Example.exB) = some text ∧
      readDiffM exCodec text = .ok d' ∧ patchM MSet.Example.exA d' = .ok r ∧
      equals o r MSet.Example.exB = true ∧ equivB o r MSet.Example.exB = true := by
  intro o ho
  have H := dom_setMerge o ho
  refine diff_print_read_patch_mergeSet F L exCodec H vals_merge ?_
  rw [diffM_mergeSet_eq F H]
  exact flat_keys (pureMerge_ds o)

end Example

/-! ## 11. `voidFree` cannot be dropped in the SET reading either: a void ELEMENT of an array

  `[void]` → `[]` under SET is in the domain of the C01 set theorem (`setDoc`, `memOK`: `memOK` speaks
  about object members only; `HashFaithful` holds) and `a.Patch(a.Diff(b))` works IN MEMORY, but a
  void value has no text: the hunk `@ [{}]` is printed without any `-` line and `ReadDiffString`
  rejects a text that ends right after the `@` line. No reader of the library produces a void
  inside a document, so this is the reason for the hypothesis, not a defect reachable from text. -/

namespace Witness

/-- `[void]` -/
def wA : Json := .arr .raw [.void]
/-- `[]` -/
def wB : Json := .arr .raw []

theorem w_diff : diffM [.set] wA wB = [ { path := [.set], remove := [.void], add := [] } ] := by
  unfold diffM wA wB
  rw [show isMerge [.set] = false from rfl, diffNode_set_set (o := [.set]) rfl]
  simp [diffSetElems, identLookup, ksort, kinsert, setAdd, hsort, hdedup, subOf, remOf]

theorem w_render : renderM exCodec [] (diffM [.set] wA wB) = some (unlines ["@ [{}]"]) := by
  rw [w_diff, renderM_lines]
  simp [diffLines, hunkLines, optAll, jsonM, pathToJson, rawNorm, rawNormList, rawNormKvs, jsonText,
    jsonTextList, jsonTextKvs, String.intercalate_singleton, NativeRT.remLines, NativeRT.addLines,
    Json.isVoid]

theorem read_set : readJsonM exCodec " [{}]" = .ok (.arr .raw [.obj []]) := by
  simp [readJsonM, trimGoSpace, parseJson, parseValue, skipWs, isJsonWs, parseElems, parseMembers]

theorem w_read : readDiffM exCodec (unlines ["@ [{}]"]) = .err := by
  unfold readDiffM
  rw [unlines, splitOn_unlines _ (by simp)]
  have e1 : newPathM (.arr .raw [.obj []]) = .ok [.set] := by
    simp [newPathM, newPathM.go]
  have s1 : readLine exCodec {} "@ [{}]" =
      .ok { st := .at, cur := { path := [.set] }, out := [] } := by
    simp [readLine, readerAllows, readerFlushes, tableLookup, Gen.readerAllow, Gen.readerFlush,
      RState.name, read_set, e1]
  have hnt : RState.at.name ∈ Gen.readerNonTerminal := by decide
  simp [readLines, s1, NativeRT.readLine_empty, hnt]

theorem w_patch : patchM wA (diffM [.set] wA wB) = .ok (.arr .set []) := by
  rw [w_diff]
  simp [patchM, patchAll, wA, patchNode_set_leaf true .raw (.inl rfl), patchSetLeaf, hmapSet,
    setRemoveLoop, hmapGet, hmapErase, equals, Json.isVoid, ksort]
  rfl

theorem w_hashFaithful : HashFaithful [.set] (subterms wA ++ subterms wB) := by
  intro x hx y hy
  simp only [wA, wB, subterms, subtermsList, List.cons_append, List.nil_append,
    List.append_nil, List.mem_cons, List.not_mem_nil, or_false] at hx hy
  rcases hx with rfl | rfl | rfl <;> rcases hy with rfl | rfl | rfl <;>
  first
  | (intro _; simp [equivB, dispatchTag, allIn, allCovered, anyEquiv]; done)
  | (intro e; exact absurd e (by decide +kernel))

/-- **WITNESS (the reader rejects the printed diff), SET reading.** `[void]` → `[]`: both documents
    satisfy every hypothesis of the C01 set theorem and of `diff_render_read_patch_set` except
    `voidFree wA`; the diff applies in memory; its text is `@ [{}]` alone, which `ReadDiffString`
    rejects. -/
theorem void_element_witness_set :
    wA.setDoc = true ∧ wB.setDoc = true ∧ DPL.memOK wA = true ∧ DPL.memOK wB = true ∧
    HashFaithful [.set] (subterms wA ++ subterms wB) ∧
    E2E.voidFree wA = false ∧ E2E.voidFree wB = true ∧
    patchM wA (diffM [.set] wA wB) = .ok (.arr .set []) ∧
    ∃ text, renderM exCodec [] (diffM [.set] wA wB) = some text ∧ readDiffM exCodec text = .err :=
  ⟨by decide, by decide, by decide, by decide, w_hashFaithful, by decide, by decide, w_patch,
    _, w_render, w_read⟩

end Witness

/-! ## 12. what `ReadDiffString` returns for ANY rendered hunk sequence: the Merge flag is inherited

  `NativeRT.read_render` asks `mergeMono` (no strict hunk after a merge hunk).  Without it the
  reader still accepts the text; a `^ {"Merge":true}` line stays in force for every following hunk
  (diff_read.go: the metadata of the element being built is copied from the previous one), so a
  strict hunk that follows a merge hunk comes back as a MERGE hunk. -/


/-- the hunk with its Merge flag set to `m` -/
def setMerge (m : Bool) (h : Hunk) : Hunk := { h with merge := m }

/-- what the reader does with the metadata line: the Merge flag is inherited by every following
    hunk -/
def inheritMerge : Bool → Diff → Diff
  | _, [] => []
  | m, h :: r => setMerge (m || h.merge) h :: inheritMerge (m || h.merge) r

theorem inheritMerge_of_mono : ∀ (m : Bool) (d : Diff), mergeMono m d = true →
    inheritMerge m d = d
  | _, [], _ => rfl
  | m, h :: r, hm => by
    simp only [mergeMono, Bool.and_eq_true, Bool.or_eq_true, Bool.not_eq_true'] at hm
    have e : (m || h.merge) = h.merge := by
      rcases hm.1 with h0 | h0 <;> simp [h0]
    simp only [inheritMerge, e, setMerge]
    rw [inheritMerge_of_mono h.merge r hm.2]

theorem checkHunk_setMerge (h : Hunk) (m : Bool) : checkHunk (setMerge m h) = checkHunk h := rfl

/-- one hunk from any hunk boundary, whatever the inherited flag -/
theorem readLines_hunk_gen (nc : NumCodec) (h : Hunk) (ls : List String) (acc : RAcc)
    (hw : wfHunk h = true) (hp : PathOK nc h.path) (hv : ∀ v ∈ payloads h, ValOK nc v)
    (hl : hunkLines nc h = some ls) (hb : AtBoundary acc) :
    ∃ st', readLines nc acc ls =
        .ok { st := st', cur := setMerge (acc.cur.merge || h.merge) (normHunk h),
              out := flushOut acc } ∧
      (st' = .remove ∨ st' = .add ∨ st' = .after) := by
  cases hmg : h.merge with
  | true =>
    obtain ⟨st', e, hst⟩ := readLines_hunk nc h ls acc hw hp hv hl hb (fun _ => hmg)
    refine ⟨st', ?_, hst⟩
    rw [e]
    simp [normHunk, hmg, setMerge]
  | false =>
    simp only [hunkLines, Option.bind_eq_bind, Option.pure_def, Option.bind_eq_some_iff,
      Option.some.injEq] at hl
    obtain ⟨pt, hpt, b, hbb, r, hr, a, ha, f, hf, rfl⟩ := hl
    have hw' := hw
    simp only [wfHunk, Bool.and_eq_true] at hw'
    obtain ⟨⟨⟨hidx, hw1⟩, hw2⟩, _⟩ := hw'
    have hread := (hp pt hpt).2
    have hnp := newPathM_norm h.path hidx
    have hhead : readLines nc acc ["@ " ++ pt] =
        .ok { st := .at, cur := { merge := acc.cur.merge, path := normPath h.path },
              out := flushOut acc } := by
      simp only [readLines, readLine_at nc acc pt _ _ hb hread hnp]
    obtain ⟨st', hbody, hst'⟩ := readLines_body nc h b r a f
      { st := .at, cur := { merge := acc.cur.merge, path := normPath h.path }, out := flushOut acc }
      hw1 hw2 hv hbb hr ha hf rfl
    refine ⟨st', ?_, hst'⟩
    have : (if h.merge then ["^ {\"Merge\":true}"] else []) ++ ("@ " ++ pt) :: (b ++ (r ++ (a ++ f))) =
        ["@ " ++ pt] ++ (b ++ (r ++ (a ++ f))) := by
      simp [hmg]
    rw [this, readLines_append nc _ _ _ _ hhead, hbody]
    simp [normHunk, setMerge, hmg]

theorem readLines_diff_gen (nc : NumCodec) : ∀ (d : Diff) (ls : List String) (acc : RAcc),
    d.all wfHunk = true → CodecOK nc d →
    diffLines nc d = some ls → AtBoundary acc →
    ∃ acc', readLines nc acc ls = .ok acc' ∧ AtBoundary acc' ∧
      flushOut acc' = flushOut acc ++ inheritMerge acc.cur.merge (normDiff d)
  | [], ls, acc, _, _, hl, hb => by
    simp only [diffLines, List.map_nil, optAll, Option.map_some, List.flatten_nil,
      Option.some.injEq] at hl
    subst hl
    exact ⟨acc, by simp [readLines], hb, by simp [normDiff, inheritMerge]⟩
  | h :: r, ls, acc, hw, hc, hl, hb => by
    simp only [diffLines, List.map_cons, Option.map_eq_some_iff] at hl
    obtain ⟨lss, hlss, rfl⟩ := hl
    obtain ⟨lh, lr, hlh, hlr, rfl⟩ := optAll_cons_some hlss
    simp only [List.all_cons, Bool.and_eq_true] at hw
    have hch := hc h (List.mem_cons_self ..)
    obtain ⟨st', e1, hst'⟩ := readLines_hunk_gen nc h lh acc hw.1 hch.1 hch.2 hlh hb
    have hb1 : AtBoundary ⟨st', setMerge (acc.cur.merge || h.merge) (normHunk h), flushOut acc⟩ :=
      Or.inr ⟨hst', by rw [checkHunk_setMerge]; exact checkHunk_norm h hw.1⟩
    obtain ⟨acc', e2, hb2, hf2⟩ := readLines_diff_gen nc r lr.flatten
      ⟨st', setMerge (acc.cur.merge || h.merge) (normHunk h), flushOut acc⟩ hw.2
      (fun x hx => hc x (List.mem_cons_of_mem _ hx))
      (by simp [diffLines, hlr]) hb1
    refine ⟨acc', ?_, hb2, ?_⟩
    · rw [List.flatten_cons, readLines_append nc lh _ acc _ e1, e2]
    · rw [hf2]
      have : flushOut ⟨st', setMerge (acc.cur.merge || h.merge) (normHunk h), flushOut acc⟩ =
          flushOut acc ++ [setMerge (acc.cur.merge || h.merge) (normHunk h)] := by
        unfold flushOut
        rcases hst' with h0 | h0 | h0 <;> simp [h0]
      rw [this]
      simp [normDiff, inheritMerge, normHunk, setMerge]

/-- **what `ReadDiffString` returns for ANY rendered hunk sequence** (no `mergeMono`): the hunks as
    `normDiff` describes them, with the Merge flag INHERITED from the preceding hunks — a strict hunk
    that follows a merge hunk comes back as a merge hunk -/
theorem read_render_inherit (nc : NumCodec) (d : Diff) (text : String)
    (hw : d.all wfHunk = true) (hc : CodecOK nc d) (hr : renderM nc [] d = some text) :
    readDiffM nc text = .ok (inheritMerge false (normDiff d)) := by
  rw [renderM_lines, Option.map_eq_some_iff] at hr
  obtain ⟨ls, hl, rfl⟩ := hr
  obtain ⟨acc, e, hb, hf⟩ := readLines_diff_gen nc d ls {} hw hc hl (Or.inl rfl)
  have e' : readLines nc {} (ls ++ [""]) = .ok acc := by
    rw [readLines_append nc ls _ _ _ e]
    simp [readLines, readLine_empty]
  have hnt : Gen.readerNonTerminal.contains acc.st.name = false := by
    rw [nonTerminal_eq]
    rcases hb with h | ⟨h | h | h, _⟩ <;> simp [h]
  unfold readDiffM
  rw [unlines, splitOn_unlines ls (diffLines_noNL nc d ls hc hl), e']
  simp only [hnt, Bool.false_eq_true, ↓reduceIte]
  have h0 : flushOut ({} : RAcc) = [] := by simp [flushOut]
  rw [h0, List.nil_append] at hf
  have hm0 : ({} : RAcc).cur.merge = false := rfl
  rw [hm0] at hf
  rw [← hf]
  unfold flushOut
  rcases hb with h | ⟨h | h | h, hck⟩
  · simp [h]
  all_goals simp [h, hck]


/-- `NativeRT.read_render` is the special case `mergeMono` -/
theorem read_render_inherit_mono (nc : NumCodec) (d : Diff) (text : String)
    (hw : wfDiff d = true) (hc : CodecOK nc d) (hr : renderM nc [] d = some text) :
    readDiffM nc text = .ok (normDiff d) := by
  simp only [wfDiff, Bool.and_eq_true] at hw
  rw [read_render_inherit nc d text hw.1 hc hr, inheritMerge_of_mono]
  have : ∀ (m : Bool) (d : Diff), mergeMono m (normDiff d) = mergeMono m d := by
    intro m d
    induction d generalizing m with
    | nil => rfl
    | cons h r ih =>
      have e : (normHunk h).merge = h.merge := rfl
      simp only [normDiff, List.map_cons, mergeMono, e] at ih ⊢
      rw [ih]
  rw [this]; exact hw.2

/-! ## 13. (C) without `HashFaithful`: a genuine FNV-1a collision makes `Diff` emit a strict hunk
    AFTER a merge hunk, and the text round trip FAILS while the in-memory patch succeeds

  `{"a":"x","b":["aedb68afb","b7cdeb749"]}` → `{"a":"y","b":["a568b3ad2","b76a57d20"]}` under
  `[SET, MERGE]`.  The two arrays have no member in common but the same hash code (the FNV-1a 64
  collision of JdProofs.DiffEmptySet, `DES.Witness.fnv_collision_breaks_converse`), so the merge
  strategy takes them for `Equal`, hands them to the STRICT set diff, and that one reports two
  removed and two added members.  The diff is
      ^ {"Merge":true} / @ ["a"] / + "y" / @ ["b",{}] / - "b7cdeb749" / - "aedb68afb" / + … / + …
  In memory the second hunk is strict and `Patch` gives a document that `Equals` the target.  In the
  text the second hunk has no metadata line of its own, the reader lets it inherit `Merge`, and
  `Patch` of the diff read back is an ERROR (two values in a merge hunk).  Class: known finding
  KF-C04 (hash collisions); every hypothesis of `diff_render_read_patch_mergeSet` holds except
  `HashFaithful`. -/

namespace Collision

def o : Opts := [.set, .merge]
def wa : Json := .obj [("a", .str "x"), ("b", .arr .raw [.str "aedb68afb", .str "b7cdeb749"])]
def wb : Json := .obj [("a", .str "y"), ("b", .arr .raw [.str "a568b3ad2", .str "b76a57d20"])]

theorem i1 : identOf [.set, .merge] (.str "aedb68afb") = 4552083900063150030 := by decide +kernel
theorem i2 : identOf [.set, .merge] (.str "b7cdeb749") = 3132245598567651616 := by decide +kernel
theorem i3 : identOf [.set, .merge] (.str "a568b3ad2") = 6503725428846445143 := by decide +kernel
theorem i4 : identOf [.set, .merge] (.str "b76a57d20") = 5386053966893192923 := by decide +kernel

theorem l12 : hashLt 4552083900063150030 3132245598567651616 = false := by decide +kernel
theorem l34 : hashLt 6503725428846445143 5386053966893192923 = true := by decide +kernel

theorem heq : equals [.set, .merge] (.arr .set [.str "aedb68afb", .str "b7cdeb749"])
    (.arr .set [.str "a568b3ad2", .str "b76a57d20"]) = true := by decide +kernel

theorem w_diff : diffM o wa wb =
    [ { merge := true, path := [.key "a"], add := [.str "y"] },
      { path := [.key "b", .set], remove := [.str "b7cdeb749", .str "aedb68afb"],
        add := [.str "a568b3ad2", .str "b76a57d20"] } ] := by
  unfold diffM wa wb o
  rw [show isMerge [.set, .merge] = true from rfl, DE.diffNode_obj_obj, DE.diffKvs_cons,
    DE.diffKvs_cons, DE.diffKvs_nil]
  simp only [alookup, if_true, String.reduceEq, if_false, List.nil_append, List.append_nil, List.filter_cons, List.filter_nil, Option.isNone_some, Bool.false_eq_true, List.map_nil]
  rw [Merge.diffNode_scalar [.set, .merge] (a := .str "x") rfl rfl]
  rw [DES.diffNode_set (o := [.set, .merge]) rfl true _ _ [.str "a568b3ad2", .str "b76a57d20"] (by rfl), heq]
  simp [DES.setBody, diffSetElems, identLookup, ksort, kinsert, setAdd, hsort, hdedup, subOf, remOf,
    i1, i2, i3, i4, l12, l34, hinsert, diffCommon, equals]

theorem j1 : identOf [.set] (.str "aedb68afb") = 4552083900063150030 := by decide +kernel
theorem j2 : identOf [.set] (.str "b7cdeb749") = 3132245598567651616 := by decide +kernel
theorem j3 : identOf [.set] (.str "a568b3ad2") = 6503725428846445143 := by decide +kernel
theorem j4 : identOf [.set] (.str "b76a57d20") = 5386053966893192923 := by decide +kernel

theorem w_wf : (diffM o wa wb).all wfHunk = true ∧ wfDiff (diffM o wa wb) = false := by
  rw [w_diff]; exact ⟨by decide, by decide⟩

set_option linter.unusedSimpArgs false in
theorem w_codec : CodecOK exCodec (diffM o wa wb) ∧
    ∀ h ∈ diffM o wa wb, (renderHunk exCodec [] h).isSome = true := by
  rw [w_diff]
  have p1 : (jsonM exCodec (pathToJson [.key "a"])).isSome = true ∧ PathOK exCodec [.key "a"] := by
    spath_ok "[\"a\"]"
  have p2 : (jsonM exCodec (pathToJson [.key "b", .set])).isSome = true ∧
      PathOK exCodec [.key "b", .set] := by spath_ok "[\"b\",{}]"
  have v0 : (marshalNode exCodec (.str "y")).isSome = true ∧ ValOK exCodec (.str "y") := by
    val_ok "\"y\""
  have v1 : (marshalNode exCodec (.str "aedb68afb")).isSome = true ∧
      ValOK exCodec (.str "aedb68afb") := by val_ok "\"aedb68afb\""
  have v2 : (marshalNode exCodec (.str "b7cdeb749")).isSome = true ∧
      ValOK exCodec (.str "b7cdeb749") := by val_ok "\"b7cdeb749\""
  have v3 : (marshalNode exCodec (.str "a568b3ad2")).isSome = true ∧
      ValOK exCodec (.str "a568b3ad2") := by val_ok "\"a568b3ad2\""
  have v4 : (marshalNode exCodec (.str "b76a57d20")).isSome = true ∧
      ValOK exCodec (.str "b76a57d20") := by val_ok "\"b76a57d20\""
  have pay : ∀ h ∈ ([ { merge := true, path := [.key "a"], add := [.str "y"] },
      { path := [.key "b", .set], remove := [.str "b7cdeb749", .str "aedb68afb"],
        add := [.str "a568b3ad2", .str "b76a57d20"] } ] : Diff), ∀ v ∈ payloads h,
      (marshalNode exCodec v).isSome = true ∧ ValOK exCodec v := by
    intro h hh v hv
    simp only [List.mem_cons, List.not_mem_nil, or_false] at hh
    rcases hh with rfl | rfl <;>
      simp [payloads, Json.isVoid] at hv
    · rw [hv]; exact v0
    · rcases hv with rfl | rfl | rfl | rfl
      · exact v2
      · exact v1
      · exact v3
      · exact v4
  have pth : ∀ h ∈ ([ { merge := true, path := [.key "a"], add := [.str "y"] },
      { path := [.key "b", .set], remove := [.str "b7cdeb749", .str "aedb68afb"],
        add := [.str "a568b3ad2", .str "b76a57d20"] } ] : Diff),
      (jsonM exCodec (pathToJson h.path)).isSome = true ∧ PathOK exCodec h.path := by
    intro h hh
    simp only [List.mem_cons, List.not_mem_nil, or_false] at hh
    rcases hh with rfl | rfl
    · exact p1
    · exact p2
  exact ⟨fun h hh => ⟨(pth h hh).2, fun v hv => (pay h hh v hv).2⟩,
    fun h hh => E2E.renderHunk_isSome exCodec h (pth h hh).1 (fun v hv => (pay h hh v hv).1)⟩

/-- the diff read back: the strict set hunk has become a MERGE hunk -/
theorem w_read (text : String) (hr : renderM exCodec [] (diffM o wa wb) = some text) :
    readDiffM exCodec text = .ok
      [ { merge := true, path := [.key "a"], add := [.str "y"] },
        { merge := true, path := [.key "b", .set], remove := [.str "b7cdeb749", .str "aedb68afb"],
          add := [.str "a568b3ad2", .str "b76a57d20"] } ] := by
  rw [read_render_inherit exCodec _ text w_wf.1 w_codec.1 hr, w_diff]
  simp [normDiff, normHunk, normPath, normElem, NativeRT.remLines, NativeRT.addLines, untag,
    Json.isVoid, inheritMerge, setMerge]

theorem w_patch_back : patchM wa
      [ { merge := true, path := [.key "a"], add := [.str "y"] },
        { merge := true, path := [.key "b", .set], remove := [.str "b7cdeb749", .str "aedb68afb"],
          add := [.str "a568b3ad2", .str "b76a57d20"] } ] = .err := by
  have h1 := Merge.patchNode_merge true (.str "y") [] [] ["a"] wa
  simp only [List.map_cons, List.map_nil] at h1
  simp only [patchM, patchAll, h1]
  simp only [wa, Merge.mset, Merge.getK, Merge.putKvs, alookup, Json.isVoid]
  simp [ainsert]
  rw [patchNode.eq_def]
  simp only [alookup, String.reduceEq, if_false, if_true]
  have hc := patchObjChild_eq true true "b" [.set] [] [.str "b7cdeb749", .str "aedb68afb"]
    [.str "a568b3ad2", .str "b76a57d20"] []
    [("a", .str "y"), ("b", .arr .raw [.str "aedb68afb", .str "b7cdeb749"])]
    (.arr .raw [.str "aedb68afb", .str "b7cdeb749"]) (by simp [alookup])
  rw [hc]
  have he : patchNode true true (.arr .raw [.str "aedb68afb", .str "b7cdeb749"]) [.set] []
      [.str "b7cdeb749", .str "aedb68afb"] [.str "a568b3ad2", .str "b76a57d20"] [] = .err := by
    rw [patchNode.eq_def]
    simp [effTag, pathMeta, dispatchTag, patchFresh, Path.isLeaf]
  rw [he]
  rfl


theorem w_patch_mem : patchM wa (diffM o wa wb) = .ok
      (.obj [("a", .str "y"), ("b", .arr .set [.str "a568b3ad2", .str "b76a57d20"])]) := by
  rw [w_diff]
  have h1 := Merge.patchNode_merge true (.str "y") [] [] ["a"] wa
  simp only [List.map_cons, List.map_nil] at h1
  simp only [patchM, patchAll, h1]
  simp only [wa, Merge.mset, Merge.getK, Merge.putKvs, alookup, Json.isVoid]
  simp only [ainsert, String.reduceLT, String.reduceEq, if_true, if_false, Bool.false_eq_true]
  rw [patchNode_obj_key, show alookup "b" [("a", Json.str "y"),
      ("b", Json.arr Tag.raw [Json.str "aedb68afb", Json.str "b7cdeb749"])] =
      some (Json.arr Tag.raw [Json.str "aedb68afb", Json.str "b7cdeb749"]) by simp [alookup]]
  simp only [Option.getD_some, patchNode_set_leaf true .raw (.inl rfl)]
  simp [patchSetLeaf, hmapSet, setRemoveLoop, hmapGet, hmapErase, equals, j1, j2, j3, j4, ksort,
    kinsert, l34, DPL.aput, ainsert]
  rfl

theorem w_equals : equals o (.obj [("a", .str "y"),
    ("b", .arr .set [.str "a568b3ad2", .str "b76a57d20"])]) wb = true := by decide +kernel


theorem w_not_faithful : ¬ HashFaithful o (subterms wa ++ subterms wb) := by
  intro HF
  have h := HF (.arr .raw [.str "aedb68afb", .str "b7cdeb749"]) (by simp [wa, subterms, subtermsKvs])
    (.arr .raw [.str "a568b3ad2", .str "b76a57d20"])
    (by simp [wa, wb, subterms, subtermsKvs, subtermsList]) (by decide +kernel)
  simp [equivB, o, dispatchTag, allIn, allCovered, anyEquiv] at h

/-- **WITNESS (SET + MERGE, FNV collision): the printed diff read back does NOT patch `a`.** -/
theorem collision_witness_setMerge :
    isMerge o = true ∧ dispatchTag o = .set ∧ keysOf o = none ∧ precOf o = 0 ∧
    wa.setDoc = true ∧ wb.setDoc = true ∧ wb.nullFree = true ∧ Merge.objVoidFree wb = true ∧
    ¬ HashFaithful o (subterms wa ++ subterms wb) ∧
    (∃ h1 h2, diffM o wa wb = [h1, h2] ∧ h1.merge = true ∧ h2.merge = false) ∧
    wfDiff (diffM o wa wb) = false ∧
    (∃ r, patchM wa (diffM o wa wb) = .ok r ∧ equals o r wb = true) ∧
    ∃ text d', renderM exCodec [] (diffM o wa wb) = some text ∧
      readDiffM exCodec text = .ok d' ∧ patchM wa d' = .err := by
  refine ⟨rfl, rfl, rfl, rfl, by decide, by decide, by decide, by decide, w_not_faithful,
    ⟨_, _, w_diff, rfl, rfl⟩, w_wf.2, ⟨_, w_patch_mem, w_equals⟩, ?_⟩
  obtain ⟨text, ht⟩ := E2E.renderM_isSome exCodec _ w_codec.2
  exact ⟨text, _, ht, w_read text ht, w_patch_back⟩

end Collision

end Jd.E2ES

/-! ### axioms -/

#print axioms Jd.E2ES.sdiff_ok
#print axioms Jd.E2ES.diffM_shunk
#print axioms Jd.E2ES.diffM_premises_set
#print axioms Jd.E2ES.diffM_codecOK_set
#print axioms Jd.E2ES.diffM_pathOK_of_inputs_set
#print axioms Jd.E2ES.diff_text_lossless_set
#print axioms Jd.E2ES.diff_render_read_patch_set
#print axioms Jd.E2ES.diffM_renders_set
#print axioms Jd.E2ES.diff_print_read_patch_set
#print axioms Jd.E2ES.normDiff_mh
#print axioms Jd.E2ES.wfDiff_mh
#print axioms Jd.E2ES.pureMerge_ok
#print axioms Jd.E2ES.memSoundU_list
#print axioms Jd.E2ES.memSoundU_set
#print axioms Jd.E2ES.read_render_mh
#print axioms Jd.E2ES.renderM_mh_untag
#print axioms Jd.E2ES.patchAll_mh_untag
#print axioms Jd.E2ES.diffM_premises_mergeList
#print axioms Jd.E2ES.diffM_codecOK_mergeList
#print axioms Jd.E2ES.diffM_pathOK_of_inputs_mergeList
#print axioms Jd.E2ES.diff_text_lossless_mergeList
#print axioms Jd.E2ES.diff_render_read_patch_mergeList
#print axioms Jd.E2ES.diffM_renders_mergeList
#print axioms Jd.E2ES.diff_print_read_patch_mergeList
#print axioms Jd.E2ES.diffM_premises_mergeSet
#print axioms Jd.E2ES.diffM_codecOK_mergeSet
#print axioms Jd.E2ES.diff_text_lossless_mergeSet
#print axioms Jd.E2ES.diff_render_read_patch_mergeSet
#print axioms Jd.E2ES.diff_print_read_patch_mergeSet
#print axioms Jd.E2ES.read_render_inherit
#print axioms Jd.E2ES.Example.ex_set_end_to_end
#print axioms Jd.E2ES.Example.ex_merge_end_to_end
#print axioms Jd.E2ES.Example.ex_setMerge_end_to_end
#print axioms Jd.E2ES.Witness.void_element_witness_set
#print axioms Jd.E2ES.Collision.collision_witness_setMerge
