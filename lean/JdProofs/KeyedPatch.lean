/-
  JdProofs.KeyedPatch — property C08, the keyed-member clause (v2 library):
  "For a keyed member {"k":v} the nested change is applied strictly inside the object matching the
  keys, and a failure there fails the whole patch."

  Model: `patchNode sw false (.arr t xs) (.setKeys po :: rest) …` (JdModel/Patch.lean), which runs the
  search loop `patchKeyed` with the pass chosen by `keyedTol` and the 64-bit identities `pathIdent` /
  `pathIdentTol` / `identObj` (JdModel/Hash.lean). `sw = true` is the Go code as it is (set.go discards
  the result of the nested patch), `sw = false` the error-propagating variant.
  Reference: `Jd.Spec.applyHunkRef` on `.setKeys po :: rest` with `keyedMembers`, `matchesKeys`,
  `matchesKeysTol` (JdSpec/HunkSem.lean) — no hashes.

  STAGE REACHED: C (full nesting: the rest of the path may contain keys, indices, keyed elements and a
  final set `{}` / multiset `[]` leaf).

  HYPOTHESES (all explicit; Bool-valued, i.e. decidable, on the inputs)
    * `t = .raw ∨ t = .set`         the addressed array is a plain `jsonArray` (what the readers
                                    produce) or a `jsonSet` (what an earlier set hunk leaves). For a
                                    `jsonList` / `jsonMultiset` the code rejects every keyed element
                                    (`keyed_on_list_typed`), the reference ignores Go dynamic types.
    * `wfList xs`, `keysSorted po`  members of the target and the path object have distinct (sorted)
                                    keys: what a Go map guarantees. Needed to identify "the hashed
                                    restricted object is equivalent to the path object" with "the
                                    member carries the key values" (`equivB_restrict_iff`,
                                    `equivB_tolObj_iff`: a counting argument on distinct keys).
    * `KeyedFaithful po xs`         NO HASH COLLISION between the path object and the objects hashed
                                    by the two passes (`restrictKeys kvs po` for `pathIdent`,
                                    `tolObj kvs po` for `pathIdentTol`), for every object member
                                    `kvs` of `xs`: the FNV-1a codes coincide exactly when the objects
                                    are equivalent (`equivB [.set]`). Without it the search acts on
                                    hash codes, not on key values. (It asks both passes to be faithful
                                    even when the second pass is not run: slightly more than needed.)
    * `(xs.filter (keyedMembers xs po)).length ≤ 1`
                                    at most one member matches (precondition of the task). With two or
                                    more the reference rejects the hunk as ambiguous and the code
                                    patches the first match: `keyed_ambiguous`.
    * for the comparison of the NESTED change with the reference:
        stage A  `strictPath rest`, `listDocList xs`, `hunkListDoc h` (the domain of StrictPatch);
        stage B  `navPath rest` and `okAlong rest m` for the matching member `m`: the same
                 conditions at every further keyed element on the way, arrays entered by an index
                 plain or list-typed, the value / list edited at the end a list-mode document;
        stage C  `navElems q`, `okNav q n`, `target q n = some (.arr t xs)` and the hypothesis
                 `Faithful` of JdProofs.SetPatch on the addressed array for the final `{}` / `[]`.

  MAIN THEOREMS
    keyed_step            ANY rest of the path, both variants: no member matches → error / rejected;
                          otherwise the target is `l1 ++ m :: l2`, `m` the first matching member (an
                          object), the code returns `keyedOut sw l1 m l2 (nested outcome)` and the
                          reference the nested reference result in place of `m` (unique match) or
                          rejects (another match).
    (1) keyed_strict_eq_ref   stage A: `sw = false` IS `applyHunkRef`, up to `untag`.
        keyed_eq_ref, nav_eq_ref   stage B: the same for keys / indices / nested keyed elements.
        nav_decomp, nav_set_ref, nav_mset_ref, nav_leaf_no_array   stage C: decomposition along any
                          navigation prefix with explicit contexts (`plug`, `plug_untag`); final set
                          leaf: results equal as sets (`setEqB`), multiset leaf: equal as bags.
    (2) keyed_failure_is_swallowed      general form (any rest): the nested patch of the matching
                          member fails ⇒ `Patch` answers `.ok (.arr .set xs)` — KF-C08-swallow.
        keyed_failure_is_swallowed_nested   the same below any navigation prefix.
        keyed_failure_returns_document      … and the result is the input document up to tags
                          (`plug_target`, under `stepsOK`: sorted keys and no void member on the way).
        keyed_success, keyed_failure_propagated(_nested), keyed_no_member   the other outcomes.
        keyed_strict_swallow  stage A, against the reference: agrees where the reference applies;
                          error when no member matches; `.ok` unchanged where a member matches and
                          the reference rejects the nested change (there `sw = false` and the
                          reference reject).
        nav_swallow_success   stage B: the code as it is agrees with the reference wherever the
                          reference applies the hunk.
    (3) keyed_perm        both variants, any rest: for a permutation `xs'` of `xs` both are rejected, or
                          the results are `xs.map f` and `xs'.map f` for ONE member-wise `f`.
        keyed_ref_perm    the same for the reference (no hypothesis).

  WHAT IS FALSE / NOT PROVED
    * "a failure there fails the whole patch" is FALSE for the code as it is (`sw = true`): proved in
      general form (`keyed_failure_is_swallowed`, `keyed_strict_swallow` (c), example below). Known
      finding KF-C08-swallow; it holds for the error-propagating variant.
    * Outside the preconditions: two matching members (`keyed_ambiguous`: code patches the first, the
      reference rejects); list- / multiset-typed target (`keyed_on_list_typed`).
    * For `sw = true` no general description is given of a run in which an INNER keyed element
      swallows a failure and an outer part of the path then goes on (only: the outermost keyed level at
      which the nested patch reports an error returns its array unchanged).
    * `msetKeys` elements: the model has no branch for them (both sides reject); not treated.
-/
import JdModel
import JdSpec
import JdProofs.StrictPatch
import JdProofs.SetPatch
import JdProofs.MapOrder

namespace Jd.Keyed
open Jd Jd.Spec

/-! ### 0. lists with distinct members -/

theorem nodup_subset_length_le {α} [DecidableEq α] :
    ∀ (l l' : List α), l.Nodup → (∀ a ∈ l, a ∈ l') → l.length ≤ l'.length
  | [], _, _, _ => by simp
  | a :: r, l', hnd, hsub => by
    rw [List.nodup_cons] at hnd
    have ha : a ∈ l' := hsub a (by simp)
    have hr : ∀ b ∈ r, b ∈ l'.erase a := by
      intro b hb
      have hne : b ≠ a := fun e => hnd.1 (e ▸ hb)
      exact (List.mem_erase_of_ne hne).2 (hsub b (by simp [hb]))
    have ih := nodup_subset_length_le r (l'.erase a) hnd.2 hr
    have hl : (l'.erase a).length = l'.length - 1 := List.length_erase_of_mem ha
    have hpos : 0 < l'.length := List.length_pos_of_mem ha
    simp only [List.length_cons]
    omega

theorem nodup_subset_of_length_le {α} [DecidableEq α] {l l' : List α} (hnd : l.Nodup)
    (hsub : ∀ a ∈ l, a ∈ l') (hlen : l'.length ≤ l.length) : ∀ a ∈ l', a ∈ l := by
  intro a ha
  apply Classical.byContradiction
  intro hna
  have hnd' : (a :: l).Nodup := List.nodup_cons.2 ⟨hna, hnd⟩
  have := nodup_subset_length_le (a :: l) l' hnd' (by
    intro b hb
    rcases List.mem_cons.1 hb with rfl | hb
    · exact ha
    · exact hsub b hb)
  simp only [List.length_cons] at this
  omega

/-! ### 1. equivalence of objects through lookups -/

theorem equivKvs_iff (o : Opts) (P : List (String × Json)) :
    ∀ (A : List (String × Json)), equivKvs o A P = true ↔
      ∀ k v, (k, v) ∈ A → ∃ v', alookup k P = some v' ∧ equivB o v v' = true
  | [] => by simp [equivKvs]
  | (k, v) :: r => by
    rw [equivKvs, Bool.and_eq_true, equivKvs_iff o P r]
    constructor
    · rintro ⟨h1, h2⟩ k' v' hm
      rcases List.mem_cons.1 hm with e | hm
      · cases e
        cases hl : alookup k P with
        | none => simp [hl] at h1
        | some w => exact ⟨w, rfl, by simpa [hl] using h1⟩
      · exact h2 k' v' hm
    · intro h
      refine ⟨?_, fun k' v' hm => h k' v' (List.mem_cons_of_mem _ hm)⟩
      obtain ⟨w, hl, he⟩ := h k v List.mem_cons_self
      simp [hl, he]

open Jd.MapOrder in
/-- two objects with distinct keys, the keys of the first among those of the second: they are
    equivalent iff every member of the second has an equivalent member under the same key in the first -/
theorem equivB_obj_iff (o : Opts) {A P : List (String × Json)}
    (hA : (A.map Prod.fst).Nodup) (hP : (P.map Prod.fst).Nodup)
    (hsub : ∀ k, (alookup k A).isSome = true → (alookup k P).isSome = true) :
    equivB o (.obj A) (.obj P) = true ↔
      ∀ k v', alookup k P = some v' → ∃ v, alookup k A = some v ∧ equivB o v v' = true := by
  have hsubK : ∀ k ∈ A.map Prod.fst, k ∈ P.map Prod.fst := by
    intro k hk
    exact (alookup_isSome_iff k P).1 (hsub k ((alookup_isSome_iff k A).2 hk))
  rw [equivB, Bool.and_eq_true, equivKvs_iff]
  constructor
  · rintro ⟨hlen, hk⟩ k v' hl
    have hlen' : (P.map Prod.fst).length ≤ (A.map Prod.fst).length := by
      have : A.length = P.length := by simpa using hlen
      simp [this]
    have hkA : k ∈ A.map Prod.fst :=
      nodup_subset_of_length_le hA hsubK hlen' k
        ((alookup_isSome_iff k P).1 (by simp [hl]))
    obtain ⟨⟨k0, v⟩, hm, rfl⟩ := List.mem_map.1 hkA
    obtain ⟨w, hw, he⟩ := hk k0 v hm
    simp only at hl hw
    rw [hl] at hw; cases hw
    exact ⟨v, alookup_of_mem_nodup hA hm, he⟩
  · intro h
    have hsubK' : ∀ k ∈ P.map Prod.fst, k ∈ A.map Prod.fst := by
      intro k hk
      have := (alookup_isSome_iff k P).2 hk
      cases hl : alookup k P with
      | none => simp [hl] at this
      | some v' =>
        obtain ⟨v, hv, _⟩ := h k v' hl
        exact (alookup_isSome_iff k A).1 (by simp [hv])
    refine ⟨?_, ?_⟩
    · have h1 := nodup_subset_length_le _ _ hA hsubK
      have h2 := nodup_subset_length_le _ _ hP hsubK'
      simp only [List.length_map] at h1 h2
      simp; omega
    · intro k v hm
      have hv := alookup_of_mem_nodup hA hm
      have := hsub k (by simp [hv])
      cases hl : alookup k P with
      | none => simp [hl] at this
      | some v' =>
        obtain ⟨v0, hv0, he⟩ := h k v' hl
        rw [hv] at hv0; cases hv0
        exact ⟨v', rfl, he⟩


/-! ### 2. the two hashed objects of `pathIdent` / `pathIdentTol` and their lookups -/

/-- the object hashed by `pathIdentTol`: the restriction, plus `null` under every key that is null in
    the path object and absent from the member -/
def tolObj (kvs po : List (String × Json)) : List (String × Json) :=
  (po.filter (fun kv => (match kv.2 with | .null => true | _ => false) && (alookup kv.1 kvs).isNone)).foldl
    (fun acc kv => ainsert kv.1 .null acc) (restrictKeys kvs po)

theorem pathIdentTol_eq (o : Opts) (kvs po : List (String × Json)) :
    pathIdentTol o kvs po = hashCode o (.obj (tolObj kvs po)) := rfl

theorem pathIdent_eq (o : Opts) (kvs po : List (String × Json)) :
    pathIdent o kvs po = hashCode o (.obj (restrictKeys kvs po)) := rfl

theorem identObj_set (po : List (String × Json)) :
    identObj [.set] po = hashCode [.set] (.obj po) := rfl

theorem alookup_restrictKeys (k : String) (kvs po : List (String × Json)) :
    alookup k (restrictKeys kvs po) = if (alookup k po).isSome then alookup k kvs else none :=
  Merge.alookup_filter (fun k => (alookup k po).isSome) k kvs

theorem alookup_foldl_ainsert_const (c : Json) (j : String) :
    ∀ (l init : List (String × Json)),
      alookup j (l.foldl (fun acc kv => ainsert kv.1 c acc) init) =
        if j ∈ l.map Prod.fst then some c else alookup j init
  | [], _ => by simp
  | (k, v) :: r, init => by
    simp only [List.foldl_cons]
    rw [alookup_foldl_ainsert_const c j r]
    by_cases hr : j ∈ r.map Prod.fst
    · simp [hr]
    · by_cases hj : j = k
      · subst hj; simp [Merge.alookup_ainsert_self]
      · have : j ∉ ((k, v) :: r).map Prod.fst := by simp [hj]; simpa using hr
        rw [if_neg hr, if_neg this, Merge.alookup_ainsert_ne c hj]

theorem isNullMatch (v : Json) : (match v with | .null => true | _ => false) = v.isNull := by
  cases v <;> rfl

open Jd.MapOrder in
/-- lookups in the object of the tolerant pass, for a key of the path object -/
theorem alookup_tolObj {k : String} {v' : Json} {kvs po : List (String × Json)}
    (hP : (po.map Prod.fst).Nodup) (hl : alookup k po = some v') :
    alookup k (tolObj kvs po) =
      if v'.isNull && (alookup k kvs).isNone then some .null else alookup k kvs := by
  unfold tolObj
  rw [alookup_foldl_ainsert_const, alookup_restrictKeys, hl]
  simp only [Option.isSome_some, if_true, isNullMatch]
  have hiff : k ∈ (po.filter (fun kv => kv.2.isNull && (alookup kv.1 kvs).isNone)).map Prod.fst ↔
      (v'.isNull && (alookup k kvs).isNone) = true := by
    constructor
    · intro hm
      obtain ⟨⟨k0, w⟩, hm2, rfl⟩ := List.mem_map.1 hm
      obtain ⟨hm3, hc⟩ := List.mem_filter.1 hm2
      have := alookup_of_mem_nodup hP hm3
      simp only at hl this hc
      rw [hl] at this; cases this
      exact hc
    · intro hc
      exact List.mem_map.2 ⟨(k, v'), List.mem_filter.2 ⟨mem_of_alookup_some hl, hc⟩, rfl⟩
  by_cases hc : (v'.isNull && (alookup k kvs).isNone) = true
  · rw [if_pos (hiff.2 hc), if_pos hc]
  · rw [if_neg (fun h => hc (hiff.1 h)), if_neg hc]

/-- a key of the object of the tolerant pass is a key of the path object -/
theorem alookup_tolObj_isSome {k : String} {kvs po : List (String × Json)}
    (h : (alookup k (tolObj kvs po)).isSome = true) : (alookup k po).isSome = true := by
  unfold tolObj at h
  rw [alookup_foldl_ainsert_const, alookup_restrictKeys] at h
  split at h
  · rename_i hm
    obtain ⟨⟨k0, w⟩, hm2, rfl⟩ := List.mem_map.1 hm
    have := (List.mem_filter.1 hm2).1
    exact (Jd.MapOrder.alookup_isSome_iff _ _).2 (List.mem_map.2 ⟨_, this, rfl⟩)
  · split at h
    · assumption
    · simp at h

theorem keysSorted_tolObj {kvs : List (String × Json)} (h : keysSorted kvs = true)
    (po : List (String × Json)) : keysSorted (tolObj kvs po) = true :=
  Jd.MapOrder.keysSorted_foldl_ainsert (fun kv : String × Json => kv.1) (fun _ => Json.null) _
    (Jd.MapOrder.keysSorted_restrictKeys h po)

/-! ### 3. the hash test of the code and the key test of the reference -/

theorem matchesKeys_iff (kvs po : List (String × Json)) (hP : (po.map Prod.fst).Nodup) :
    matchesKeys kvs po = true ↔
      ∀ k v', alookup k po = some v' → ∃ v, alookup k kvs = some v ∧ equivB [.set] v v' = true := by
  simp only [matchesKeys, List.all_eq_true]
  constructor
  · intro h k v' hl
    have := h (k, v') (Jd.MapOrder.mem_of_alookup_some hl)
    simp only at this
    cases hk : alookup k kvs with
    | none => simp [hk] at this
    | some v => exact ⟨v, rfl, by simpa [hk] using this⟩
  · rintro h ⟨k, v'⟩ hm
    obtain ⟨v, hv, he⟩ := h k v' (Jd.MapOrder.alookup_of_mem_nodup hP hm)
    simp [hv, he]

theorem matchesKeysTol_iff (kvs po : List (String × Json)) (hP : (po.map Prod.fst).Nodup) :
    matchesKeysTol kvs po = true ↔
      ∀ k v', alookup k po = some v' →
        (match alookup k kvs with
          | some v => equivB [.set] v v'
          | none => v'.isNull) = true := by
  simp only [matchesKeysTol, List.all_eq_true]
  constructor
  · intro h k v' hl
    exact h (k, v') (Jd.MapOrder.mem_of_alookup_some hl)
  · rintro h ⟨k, v'⟩ hm
    exact h k v' (Jd.MapOrder.alookup_of_mem_nodup hP hm)

/-- the restricted member is equivalent to the path object iff the member carries the key values -/
theorem equivB_restrict_iff {kvs po : List (String × Json)} (hK : keysSorted kvs = true)
    (hP : keysSorted po = true) :
    equivB [.set] (.obj (restrictKeys kvs po)) (.obj po) = matchesKeys kvs po := by
  have hPn := keysSorted_nodup hP
  rw [Bool.eq_iff_iff, matchesKeys_iff _ _ hPn,
    equivB_obj_iff [.set] (keysSorted_nodup (Jd.MapOrder.keysSorted_restrictKeys hK po)) hPn]
  · constructor
    · intro h k v' hl
      obtain ⟨v, hv, he⟩ := h k v' hl
      rw [alookup_restrictKeys, hl] at hv
      exact ⟨v, by simpa using hv, he⟩
    · intro h k v' hl
      obtain ⟨v, hv, he⟩ := h k v' hl
      exact ⟨v, by rw [alookup_restrictKeys, hl]; simpa using hv, he⟩
  · intro k hk
    rw [alookup_restrictKeys] at hk
    split at hk
    · assumption
    · simp at hk

/-- the object of the tolerant pass is equivalent to the path object iff the member carries the key
    values where it has the key and lacks only keys that are null in the path object -/
theorem equivB_tolObj_iff {kvs po : List (String × Json)} (hK : keysSorted kvs = true)
    (hP : keysSorted po = true) :
    equivB [.set] (.obj (tolObj kvs po)) (.obj po) = matchesKeysTol kvs po := by
  have hPn := keysSorted_nodup hP
  rw [Bool.eq_iff_iff, matchesKeysTol_iff _ _ hPn,
    equivB_obj_iff [.set] (keysSorted_nodup (keysSorted_tolObj hK po)) hPn
      (fun k => alookup_tolObj_isSome)]
  have hnull : equivB [.set] .null .null = true := by simp [equivB]
  constructor
  · intro h k v' hl
    obtain ⟨v, hv, he⟩ := h k v' hl
    rw [alookup_tolObj hPn hl] at hv
    cases hk : alookup k kvs with
    | some w => simp [hk] at hv; subst hv; simpa using he
    | none =>
      cases hn : v'.isNull with
      | true => rfl
      | false => simp [hk, hn] at hv
  · intro h k v' hl
    have := h k v' hl
    rw [alookup_tolObj hPn hl]
    cases hk : alookup k kvs with
    | some w => exact ⟨w, by simp, by simpa [hk] using this⟩
    | none =>
      have hn : v'.isNull = true := by simpa [hk] using this
      have : v' = .null := by cases v' <;> simp_all [Json.isNull]
      subst this
      exact ⟨.null, by simp [Json.isNull], hnull⟩


/-! ### 4. the faithfulness hypothesis; the member test of the code is the member test of the reference -/

/-- no collision between the hash code of the object `a` and that of the path object `po`: the 64-bit
    FNV values agree exactly when the objects are equivalent -/
def objFaithful (a po : List (String × Json)) : Bool :=
  decide (hashCode [.set] (.obj a) = hashCode [.set] (.obj po)) == equivB [.set] (.obj a) (.obj po)

/-- **the faithfulness hypothesis** (decidable, on the path object and the members of the target): for
    every object member, neither the restriction to the keys of the path object (`pathIdent`, first
    pass) nor the restriction completed by nulls (`pathIdentTol`, second pass) collides with the path
    object -/
def KeyedFaithful (po : List (String × Json)) (xs : List Json) : Bool :=
  xs.all (fun x => match x with
    | .obj kvs => objFaithful (restrictKeys kvs po) po && objFaithful (tolObj kvs po) po
    | _ => true)

/-- the member test of `jsonSet.patch` (pass `tol`), for an arbitrary identity looked for -/
def hashMatchL (tol : Bool) (lf : UInt64) (po : List (String × Json)) : Json → Bool
  | .obj kvs => (if tol then pathIdentTol [.set] kvs po else pathIdent [.set] kvs po) == lf
  | _ => false

/-- the member test of `jsonSet.patch` (pass `tol`) -/
abbrev hashMatch (tol : Bool) (po : List (String × Json)) : Json → Bool :=
  hashMatchL tol (identObj [.set] po) po

/-- the exact member test of the reference -/
def exactMember (po : List (String × Json)) : Json → Bool
  | .obj kvs => matchesKeys kvs po
  | _ => false

/-- the tolerant member test of the reference -/
def tolMember (po : List (String × Json)) : Json → Bool
  | .obj kvs => matchesKeysTol kvs po
  | _ => false

theorem keyedMembers_eq (xs : List Json) (po : List (String × Json)) :
    keyedMembers xs po = if xs.any (exactMember po) then exactMember po else tolMember po := by
  rfl

theorem keyedTol_eq (po : List (String × Json)) (xs : List Json) :
    keyedTol po xs = !(xs.any (hashMatch false po)) := by
  unfold keyedTol
  congr 2

theorem wf_member {xs : List Json} (hwf : wfList xs = true) {kvs : List (String × Json)}
    (hm : Json.obj kvs ∈ xs) : keysSorted kvs = true := by
  induction xs with
  | nil => simp at hm
  | cons x r ih =>
    simp only [wfList, Bool.and_eq_true] at hwf
    rcases List.mem_cons.1 hm with e | hm
    · subst e
      simp only [Json.wf, Bool.and_eq_true] at hwf
      exact hwf.1.1
    · exact ih hwf.2 hm

theorem hashMatch_eq {po : List (String × Json)} {xs : List Json} (hwf : wfList xs = true)
    (hpo : keysSorted po = true) (hF : KeyedFaithful po xs = true) {x : Json} (hx : x ∈ xs) :
    hashMatch false po x = exactMember po x ∧ hashMatch true po x = tolMember po x := by
  cases x with
  | obj kvs =>
    have hK := wf_member hwf hx
    have := (List.all_eq_true.1 hF) _ hx
    simp only [Bool.and_eq_true, objFaithful, beq_iff_eq] at this
    obtain ⟨f1, f2⟩ := this
    rw [equivB_restrict_iff hK hpo] at f1
    rw [equivB_tolObj_iff hK hpo] at f2
    simp only [hashMatchL, exactMember, tolMember, identObj_set, pathIdent_eq, pathIdentTol_eq,
      if_true, if_false, Bool.false_eq_true]
    rw [← f1, ← f2]
    exact ⟨Bool.beq_eq_decide_eq _ _, Bool.beq_eq_decide_eq _ _⟩
  | _ => simp [hashMatchL, exactMember, tolMember]

/-- under the hypotheses, the member test of the code (with the pass chosen by `keyedTol`) is the
    member test `keyedMembers` of the reference, on every member of the target -/
theorem hashMatch_keyedMembers {po : List (String × Json)} {xs : List Json}
    (hwf : wfList xs = true) (hpo : keysSorted po = true) (hF : KeyedFaithful po xs = true)
    {x : Json} (hx : x ∈ xs) :
    hashMatch (keyedTol po xs) po x = keyedMembers xs po x := by
  have hany : xs.any (hashMatch false po) = xs.any (exactMember po) := by
    rw [Bool.eq_iff_iff, List.any_eq_true, List.any_eq_true]
    constructor
    · rintro ⟨y, hy, e⟩; exact ⟨y, hy, by rw [← (hashMatch_eq hwf hpo hF hy).1]; exact e⟩
    · rintro ⟨y, hy, e⟩; exact ⟨y, hy, by rw [(hashMatch_eq hwf hpo hF hy).1]; exact e⟩
  rw [keyedTol_eq, keyedMembers_eq, hany]
  cases xs.any (exactMember po)
  · simpa using (hashMatch_eq hwf hpo hF hx).2
  · simpa using (hashMatch_eq hwf hpo hF hx).1

theorem keyedMembers_obj {xs : List Json} {po : List (String × Json)} {x : Json}
    (h : keyedMembers xs po x = true) : ∃ kvs, x = .obj kvs := by
  rw [keyedMembers_eq] at h
  cases x with
  | obj kvs => exact ⟨kvs, rfl⟩
  | _ => split at h <;> simp [exactMember, tolMember] at h

/-! ### 5. the search loop `patchKeyed` -/

/-- what `jsonSet.patch` does with the outcome of the nested patch of the member `m` found between
    `l1` and `l2` -/
def keyedOut (sw : Bool) (l1 : List Json) (m : Json) (l2 : List Json) : Outcome Json → Outcome Json
  | .ok v' => .ok (.arr .set (l1 ++ v' :: l2))
  | .err => if sw then .ok (.arr .set (l1 ++ m :: l2)) else .err
  | .panic => .panic

theorem patchKeyed_none (sw tol : Bool) (lf : UInt64) (po : List (String × Json)) (rest : Path)
    (before remove add after : List Json) :
    ∀ (xs pre : List Json), (∀ x ∈ xs, hashMatchL tol lf po x = false) →
      patchKeyed sw tol lf po rest before remove add after pre xs = .err
  | [], _, _ => by rw [patchKeyed.eq_def]
  | x :: r, pre, h => by
    have hx := h x (by simp)
    have ih := patchKeyed_none sw tol lf po rest before remove add after r (pre ++ [x])
      (fun y hy => h y (by simp [hy]))
    rw [patchKeyed.eq_def]
    cases x with
    | obj kvs =>
      simp only [hashMatchL] at hx
      simp only [hx, Bool.false_eq_true, if_false]
      exact ih
    | _ => exact ih

theorem patchKeyed_found (sw tol : Bool) (lf : UInt64) (po : List (String × Json)) (rest : Path)
    (before remove add after : List Json) (kvs : List (String × Json)) (l2 : List Json)
    (hm : hashMatchL tol lf po (.obj kvs) = true) :
    ∀ (l1 pre : List Json), (∀ x ∈ l1, hashMatchL tol lf po x = false) →
      patchKeyed sw tol lf po rest before remove add after pre (l1 ++ .obj kvs :: l2) =
        keyedOut sw (pre ++ l1) (.obj kvs) l2
          (patchNode sw false (.obj kvs) rest before remove add after)
  | [], pre, _ => by
    rw [patchKeyed.eq_def]
    simp only [hashMatchL] at hm
    simp only [List.nil_append, hm, if_true, List.append_nil]
    cases patchNode sw false (.obj kvs) rest before remove add after <;> simp [keyedOut]
  | x :: r, pre, h => by
    have hx := h x (by simp)
    have ih := patchKeyed_found sw tol lf po rest before remove add after kvs l2 hm r (pre ++ [x])
      (fun y hy => h y (by simp [hy]))
    rw [List.append_assoc] at ih
    rw [List.cons_append, patchKeyed.eq_def]
    cases x with
    | obj kvs' =>
      simp only [hashMatchL] at hx
      simp only [hx, Bool.false_eq_true, if_false]
      exact ih
    | _ => exact ih

/-- how `patchNode` reaches the search loop -/
theorem patchNode_setKeys (sw : Bool) (t : Tag) (ht : t = .raw ∨ t = .set) (xs : List Json)
    (po : List (String × Json)) (rest : Path) (hrest : rest ≠ [])
    (before remove add after : List Json) :
    patchNode sw false (.arr t xs) (.setKeys po :: rest) before remove add after =
      patchKeyed sw (keyedTol po xs) (identObj [.set] po) po rest before remove add after [] xs := by
  have hre : rest.isEmpty = false := by cases rest <;> simp_all
  rw [patchNode.eq_def]
  rcases ht with rfl | rfl <;> simp [effTag, pathMeta, dispatchTag, hre]

/-- a keyed element at the end of the path is rejected -/
theorem patchNode_setKeys_last (sw : Bool) (t : Tag) (xs : List Json)
    (po : List (String × Json)) (before remove add after : List Json) :
    patchNode sw false (.arr t xs) [.setKeys po] before remove add after = .err := by
  rw [patchNode.eq_def]
  cases t <;> simp [effTag, pathMeta, dispatchTag]

/-! ### 6. the first member satisfying a test -/

theorem first_match {α} (p : α → Bool) :
    ∀ xs : List α, (∀ x ∈ xs, p x = false) ∨
      ∃ l1 m l2, xs = l1 ++ m :: l2 ∧ (∀ x ∈ l1, p x = false) ∧ p m = true
  | [] => Or.inl (by simp)
  | x :: r => by
    cases hx : p x with
    | true => exact Or.inr ⟨[], x, r, rfl, by simp, hx⟩
    | false =>
      rcases first_match p r with h | ⟨l1, m, l2, e, h1, h2⟩
      · exact Or.inl (by intro y hy; rcases List.mem_cons.1 hy with rfl | hy; exacts [hx, h y hy])
      · refine Or.inr ⟨x :: l1, m, l2, by simp [e], ?_, h2⟩
        intro y hy; rcases List.mem_cons.1 hy with rfl | hy; exacts [hx, h1 y hy]

theorem filter_split {α} (p : α → Bool) {l1 l2 : List α} {m : α} (h1 : ∀ x ∈ l1, p x = false)
    (hm : p m = true) : (l1 ++ m :: l2).filter p = m :: l2.filter p := by
  have : l1.filter p = [] := List.filter_eq_nil_iff.2 (fun x hx => by simp [h1 x hx])
  simp [List.filter_append, this, hm]

theorem map_replace {p : Json → Bool} {l1 l2 : List Json} {m v : Json}
    (h1 : ∀ x ∈ l1, p x = false) (hm : p m = true) (h2 : ∀ x ∈ l2, p x = false) :
    (l1 ++ m :: l2).map (fun x => if p x then v else x) = l1 ++ v :: l2 := by
  have e1 : l1.map (fun x => if p x then v else x) = l1 := by
    conv => rhs; rw [← List.map_id l1]
    exact List.map_congr_left (fun x hx => by simp [h1 x hx])
  have e2 : l2.map (fun x => if p x then v else x) = l2 := by
    conv => rhs; rw [← List.map_id l2]
    exact List.map_congr_left (fun x hx => by simp [h2 x hx])
  simp [e1, e2, hm]

/-! ### 7. the reference on a keyed element -/

theorem applyHunkRef_setKeys (t : Tag) (xs : List Json) (po : List (String × Json)) (rest : Path)
    (hrest : rest ≠ []) (h : Hunk) :
    applyHunkRef (.arr t xs) (.setKeys po :: rest) h =
      match xs.filter (keyedMembers xs po) with
      | [m] => (applyHunkRef m rest h).map (fun v =>
          Json.arr .raw (xs.map (fun x => if keyedMembers xs po x then v else x)))
      | _ => none := by
  have hre : rest.isEmpty = false := by cases rest <;> simp_all
  rw [applyHunkRef]
  simp only [hre, Bool.false_eq_true, if_false]
  rfl

theorem applyHunkRef_setKeys_last (n : Json) (po : List (String × Json)) (h : Hunk) :
    applyHunkRef n [.setKeys po] h = none := by
  simp [applyHunkRef]


/-! ### 8. one keyed element: the code and the reference, for ANY rest of the path -/

/-- **The keyed step.** Under the hypotheses (sorted keys, faithful hashes) either no member of the
    target matches the path object — the code reports an error and the reference rejects — or the
    target is `l1 ++ m :: l2` with `m` the FIRST matching member, an object; the code patches `m` with
    the rest of the path and puts the result back in place (`keyedOut`); the reference does the same
    when no other member matches, and rejects the hunk when another member matches too. -/
theorem keyed_step (sw : Bool) (t : Tag) (ht : t = .raw ∨ t = .set) (xs : List Json)
    (po : List (String × Json)) (rest : Path) (hrest : rest ≠ []) (h : Hunk)
    (hwf : wfList xs = true) (hpo : keysSorted po = true) (hF : KeyedFaithful po xs = true) :
    ((∀ x ∈ xs, keyedMembers xs po x = false) ∧
      patchNode sw false (.arr t xs) (.setKeys po :: rest) h.before h.remove h.add h.after = .err ∧
      applyHunkRef (.arr t xs) (.setKeys po :: rest) h = none) ∨
    ∃ l1 kvs l2, xs = l1 ++ .obj kvs :: l2 ∧ (∀ x ∈ l1, keyedMembers xs po x = false) ∧
      keyedMembers xs po (.obj kvs) = true ∧
      patchNode sw false (.arr t xs) (.setKeys po :: rest) h.before h.remove h.add h.after =
        keyedOut sw l1 (.obj kvs) l2
          (patchNode sw false (.obj kvs) rest h.before h.remove h.add h.after) ∧
      ((∀ x ∈ l2, keyedMembers xs po x = false) →
        applyHunkRef (.arr t xs) (.setKeys po :: rest) h =
          (applyHunkRef (.obj kvs) rest h).map (fun v => Json.arr .raw (l1 ++ v :: l2))) ∧
      ((∃ x ∈ l2, keyedMembers xs po x = true) →
        applyHunkRef (.arr t xs) (.setKeys po :: rest) h = none) := by
  have hmm : ∀ x ∈ xs, hashMatchL (keyedTol po xs) (identObj [.set] po) po x = keyedMembers xs po x :=
    fun x hx => hashMatch_keyedMembers hwf hpo hF hx
  rw [patchNode_setKeys sw t ht xs po rest hrest, applyHunkRef_setKeys t xs po rest hrest]
  rcases first_match (keyedMembers xs po) xs with hno | ⟨l1, m, l2, e, h1, hm⟩
  · refine Or.inl ⟨hno, ?_, ?_⟩
    · exact patchKeyed_none _ _ _ _ _ _ _ _ _ _ _ (fun x hx => by rw [hmm x hx]; exact hno x hx)
    · have : xs.filter (keyedMembers xs po) = [] :=
        List.filter_eq_nil_iff.2 (fun x hx => by simp [hno x hx])
      rw [this]
  · obtain ⟨kvs, rfl⟩ := keyedMembers_obj hm
    refine Or.inr ⟨l1, kvs, l2, e, h1, hm, ?_, ?_, ?_⟩
    · have hm' : hashMatchL (keyedTol po xs) (identObj [.set] po) po (.obj kvs) = true := by
        rw [hmm _ (by simp [e])]; exact hm
      have h1' : ∀ x ∈ l1, hashMatchL (keyedTol po xs) (identObj [.set] po) po x = false := by
        intro x hx; rw [hmm x (by simp [e, hx])]; exact h1 x hx
      have := patchKeyed_found sw (keyedTol po xs) (identObj [.set] po) po rest h.before h.remove
        h.add h.after kvs l2 hm' l1 [] h1'
      rw [List.nil_append, ← e] at this
      exact this
    · intro h2
      have hf : xs.filter (keyedMembers xs po) = [.obj kvs] := by
        have := filter_split (keyedMembers xs po) (l2 := l2) h1 hm
        have hnil : l2.filter (keyedMembers xs po) = [] :=
          List.filter_eq_nil_iff.2 (fun x hx => by simp [h2 x hx])
        rw [← e, hnil] at this
        exact this
      have hfun : (fun v => Json.arr .raw (xs.map (fun x => if keyedMembers xs po x then v else x)))
          = (fun v => Json.arr .raw (l1 ++ v :: l2)) := by
        funext v
        have := map_replace (p := keyedMembers xs po) (v := v) h1 hm h2
        rw [← e] at this
        rw [this]
      rw [hf]
      simp only [hfun]
    · rintro ⟨x, hx, hkx⟩
      have hf : xs.filter (keyedMembers xs po) = .obj kvs :: l2.filter (keyedMembers xs po) := by
        have := filter_split (keyedMembers xs po) (l2 := l2) h1 hm
        rw [← e] at this
        exact this
      rw [hf]
      have : x ∈ l2.filter (keyedMembers xs po) := List.mem_filter.2 ⟨hx, hkx⟩
      cases hl : l2.filter (keyedMembers xs po) with
      | nil => rw [hl] at this; simp at this
      | cons y r => rfl

/-- with at most one matching member, no member after the first match matches -/
theorem unique_after {xs : List Json} {p : Json → Bool} {l1 l2 : List Json} {m : Json}
    (huniq : (xs.filter p).length ≤ 1) (e : xs = l1 ++ m :: l2) (h1 : ∀ x ∈ l1, p x = false)
    (hm : p m = true) : ∀ x ∈ l2, p x = false := by
  rw [e, filter_split p h1 hm] at huniq
  have : l2.filter p = [] := by
    cases hl : l2.filter p with
    | nil => rfl
    | cons y r => rw [hl] at huniq; simp at huniq
  intro x hx
  have := List.filter_eq_nil_iff.1 this x hx
  simpa using this


/-! ### 9. stage A: the rest of the path consists of keys and indices (the domain of StrictPatch) -/

/-- on key / index paths the reference interpreter of hunks is the strict reference interpreter -/
theorem applyHunkRef_strict (h : Hunk) :
    ∀ (p : Path) (n : Json), strictPath p = true → applyHunkRef n p h = applyStrict n p h
  | [], n, _ => by simp [applyHunkRef, applyStrict]
  | .key k :: rest, n, hp => by
    simp only [strictPath] at hp
    cases n with
    | obj kvs => simp [applyHunkRef, applyStrict, applyHunkRef_strict h rest _ hp]
    | _ => simp [applyHunkRef, applyStrict]
  | .idx i :: rest, n, hp => by
    simp only [strictPath] at hp
    cases rest with
    | nil => cases n <;> simp [applyHunkRef, applyStrict]
    | cons e r =>
      cases n with
      | arr t xs =>
        simp only [applyHunkRef, applyStrict]
        split
        · rfl
        · cases hx : xs[i.toNat]? with
          | none => rfl
          | some x => simp [applyHunkRef_strict h (e :: r) x hp]
      | _ => simp [applyHunkRef, applyStrict]
  | .set :: _, _, hp => by simp [strictPath] at hp
  | .mset :: _, _, hp => by simp [strictPath] at hp
  | .setKeys _ :: _, _, hp => by simp [strictPath] at hp
  | .msetKeys _ :: _, _, hp => by simp [strictPath] at hp

theorem untag_arr_mid (t t' : Tag) (l1 l2 : List Json) {v v' : Json} (h : untag v = untag v') :
    untag (.arr t (l1 ++ v :: l2)) = untag (.arr t' (l1 ++ v' :: l2)) := by
  simp [untag, untagList_eq_map, h]

theorem listDoc_mem {xs : List Json} (hl : listDocList xs = true) {x : Json} (hx : x ∈ xs) :
    x.listDoc = true := listDocList_iff.1 hl x hx

/-- **(1), stage A.** The error-propagating variant on a keyed element followed by a key / index path
    IS the reference interpreter, up to array tags: error when no member matches, error when the
    nested strict patch fails, the nested result in place of the member and the other members
    untouched otherwise. -/
theorem keyed_strict_eq_ref (t : Tag) (ht : t = .raw ∨ t = .set) (xs : List Json)
    (po : List (String × Json)) (rest : Path) (hrest : rest ≠ []) (hp : strictPath rest = true)
    (h : Hunk) (hh : hunkListDoc h = true) (hl : listDocList xs = true)
    (hwf : wfList xs = true) (hpo : keysSorted po = true) (hF : KeyedFaithful po xs = true)
    (huniq : (xs.filter (keyedMembers xs po)).length ≤ 1) :
    Outcome.mapO untag
        (patchNode false false (.arr t xs) (.setKeys po :: rest) h.before h.remove h.add h.after)
      = Outcome.mapO untag (optToOutcome (applyHunkRef (.arr t xs) (.setKeys po :: rest) h)) := by
  rcases keyed_step false t ht xs po rest hrest h hwf hpo hF with
    ⟨_, e1, e2⟩ | ⟨l1, kvs, l2, e, h1, hm, e1, e2, _⟩
  · rw [e1, e2]; rfl
  · have h2 := unique_after huniq e h1 hm
    rw [e1, e2 h2, applyHunkRef_strict h rest _ hp]
    have hn : (Json.obj kvs).listDoc = true := listDoc_mem hl (by simp [e])
    have := patchNode_strict_eq_ref false (.obj kvs) h rest hp hn hh
    revert this
    generalize patchNode false false (.obj kvs) rest h.before h.remove h.add h.after = P
    generalize applyStrict (.obj kvs) rest h = S
    intro this
    cases P <;> cases S <;> simp [Outcome.mapO, optToOutcome, keyedOut] at this ⊢
    exact untag_arr_mid _ _ l1 l2 this


/-! ### 10. the code as it is (`sw = true`): the nested failure is swallowed (KF-C08-swallow) -/

/-- with at most one matching member, THE matching member is the first match -/
theorem unique_member {xs : List Json} {p : Json → Bool} {l1 l2 : List Json} {m m' : Json}
    (huniq : (xs.filter p).length ≤ 1) (e : xs = l1 ++ m :: l2) (h1 : ∀ x ∈ l1, p x = false)
    (hm : p m = true) (hmem : m' ∈ xs) (hm' : p m' = true) : m' = m := by
  have h2 := unique_after huniq e h1 hm
  rw [e] at hmem
  rcases List.mem_append.1 hmem with hx | hx
  · rw [h1 _ hx] at hm'; cases hm'
  · rcases List.mem_cons.1 hx with rfl | hx
    · rfl
    · rw [h2 _ hx] at hm'; cases hm'

/-- **(2) KF-C08-swallow, general form** (any rest of the path). The code as it is: when the nested
    patch of the matching member fails, `Patch` reports SUCCESS and returns the array unchanged (as a
    set-typed array) -/
theorem keyed_failure_is_swallowed (t : Tag) (ht : t = .raw ∨ t = .set) (xs : List Json)
    (po : List (String × Json)) (rest : Path) (hrest : rest ≠ []) (h : Hunk)
    (hwf : wfList xs = true) (hpo : keysSorted po = true) (hF : KeyedFaithful po xs = true)
    (huniq : (xs.filter (keyedMembers xs po)).length ≤ 1)
    {m : Json} (hmem : m ∈ xs) (hkm : keyedMembers xs po m = true)
    (hfail : patchNode true false m rest h.before h.remove h.add h.after = .err) :
    patchNode true false (.arr t xs) (.setKeys po :: rest) h.before h.remove h.add h.after
      = .ok (.arr .set xs) := by
  rcases keyed_step true t ht xs po rest hrest h hwf hpo hF with
    ⟨hno, _, _⟩ | ⟨l1, kvs, l2, e, h1, hm, e1, _, _⟩
  · rw [hno m hmem] at hkm; cases hkm
  · have := unique_member huniq e h1 hm hmem hkm
    subst this
    rw [e1, hfail, e]
    rfl

/-- … and a nested patch that succeeds is put in place of the member (both variants) -/
theorem keyed_success (sw : Bool) (t : Tag) (ht : t = .raw ∨ t = .set) (xs : List Json)
    (po : List (String × Json)) (rest : Path) (hrest : rest ≠ []) (h : Hunk)
    (hwf : wfList xs = true) (hpo : keysSorted po = true) (hF : KeyedFaithful po xs = true)
    (huniq : (xs.filter (keyedMembers xs po)).length ≤ 1)
    {m v : Json} (hmem : m ∈ xs) (hkm : keyedMembers xs po m = true)
    (hok : patchNode sw false m rest h.before h.remove h.add h.after = .ok v) :
    patchNode sw false (.arr t xs) (.setKeys po :: rest) h.before h.remove h.add h.after
      = .ok (.arr .set (xs.map (fun x => if keyedMembers xs po x then v else x))) := by
  rcases keyed_step sw t ht xs po rest hrest h hwf hpo hF with
    ⟨hno, _, _⟩ | ⟨l1, kvs, l2, e, h1, hm, e1, _, _⟩
  · rw [hno m hmem] at hkm; cases hkm
  · have := unique_member huniq e h1 hm hmem hkm
    subst this
    have h2 := unique_after huniq e h1 hm
    have hmap := map_replace (p := keyedMembers xs po) (v := v) h1 hm h2
    rw [← e] at hmap
    rw [e1, hok, hmap]
    rfl

/-- **(2), stage A: the code as it is against the reference**, rest of the path made of keys and
    indices. (a) where the reference applies the hunk, so does the code, with the same result up to
    tags; (b) no member matches: error; (c) a member matches but the reference rejects the nested
    change: the code answers `.ok` with the array unchanged, where the error-propagating variant and
    the reference reject — "a failure there fails the whole patch" is false for the code as it is. -/
theorem keyed_strict_swallow (t : Tag) (ht : t = .raw ∨ t = .set) (xs : List Json)
    (po : List (String × Json)) (rest : Path) (hrest : rest ≠ []) (hp : strictPath rest = true)
    (h : Hunk) (hh : hunkListDoc h = true) (hl : listDocList xs = true)
    (hwf : wfList xs = true) (hpo : keysSorted po = true) (hF : KeyedFaithful po xs = true)
    (huniq : (xs.filter (keyedMembers xs po)).length ≤ 1) :
    (∀ r, applyHunkRef (.arr t xs) (.setKeys po :: rest) h = some r →
      Outcome.mapO untag
        (patchNode true false (.arr t xs) (.setKeys po :: rest) h.before h.remove h.add h.after)
        = .ok (untag r)) ∧
    ((∀ x ∈ xs, keyedMembers xs po x = false) →
      patchNode true false (.arr t xs) (.setKeys po :: rest) h.before h.remove h.add h.after = .err) ∧
    (∀ m ∈ xs, keyedMembers xs po m = true → applyHunkRef m rest h = none →
      patchNode true false (.arr t xs) (.setKeys po :: rest) h.before h.remove h.add h.after
        = .ok (.arr .set xs) ∧
      patchNode false false (.arr t xs) (.setKeys po :: rest) h.before h.remove h.add h.after = .err ∧
      applyHunkRef (.arr t xs) (.setKeys po :: rest) h = none) := by
  have nested : ∀ (sw : Bool) (kvs : List (String × Json)), Json.obj kvs ∈ xs →
      Outcome.mapO untag (patchNode sw false (.obj kvs) rest h.before h.remove h.add h.after)
        = Outcome.mapO untag (optToOutcome (applyHunkRef (.obj kvs) rest h)) := by
    intro sw kvs hx
    rw [applyHunkRef_strict h rest _ hp]
    exact patchNode_strict_eq_ref sw (.obj kvs) h rest hp (listDoc_mem hl hx) hh
  refine ⟨?_, ?_, ?_⟩
  · intro r hr
    rcases keyed_step true t ht xs po rest hrest h hwf hpo hF with
      ⟨_, _, e2⟩ | ⟨l1, kvs, l2, e, h1, hm, e1, e2, _⟩
    · rw [e2] at hr; cases hr
    · have h2 := unique_after huniq e h1 hm
      rw [e2 h2] at hr
      have := nested true kvs (by simp [e])
      rw [e1]
      revert this hr
      generalize patchNode true false (.obj kvs) rest h.before h.remove h.add h.after = P
      generalize applyHunkRef (.obj kvs) rest h = S
      intro hr this
      cases P <;> cases S <;> simp [Outcome.mapO, optToOutcome, keyedOut] at this hr ⊢
      subst hr
      exact untag_arr_mid _ _ l1 l2 this
  · intro hno
    rcases keyed_step true t ht xs po rest hrest h hwf hpo hF with
      ⟨_, e1, _⟩ | ⟨l1, kvs, l2, e, h1, hm, _, _, _⟩
    · exact e1
    · rw [hno _ (by simp [e])] at hm; cases hm
  · intro m hmem hkm hnone
    obtain ⟨kvs, rfl⟩ := keyedMembers_obj hkm
    have nerr : ∀ sw, patchNode sw false (.obj kvs) rest h.before h.remove h.add h.after = .err := by
      intro sw
      have := nested sw kvs hmem
      rw [hnone] at this
      revert this
      generalize patchNode sw false (.obj kvs) rest h.before h.remove h.add h.after = P
      intro this
      cases P <;> simp [Outcome.mapO, optToOutcome] at this ⊢
    refine ⟨keyed_failure_is_swallowed t ht xs po rest hrest h hwf hpo hF huniq hmem hkm (nerr true),
      ?_, ?_⟩
    · rcases keyed_step false t ht xs po rest hrest h hwf hpo hF with
        ⟨hno, _, _⟩ | ⟨l1, kvs', l2, e, h1, hm, e1, _, _⟩
      · rw [hno _ hmem] at hkm; cases hkm
      · have := unique_member huniq e h1 hm hmem hkm
        cases this
        rw [e1, nerr false]; rfl
    · rcases keyed_step false t ht xs po rest hrest h hwf hpo hF with
        ⟨_, _, e2⟩ | ⟨l1, kvs', l2, e, h1, hm, _, e2, _⟩
      · exact e2
      · have := unique_member huniq e h1 hm hmem hkm
        cases this
        rw [e2 (unique_after huniq e h1 hm), hnone]; rfl


/-- the error-propagating variant: when the nested patch of the matching member fails, the hunk fails -/
theorem keyed_failure_propagated (t : Tag) (ht : t = .raw ∨ t = .set) (xs : List Json)
    (po : List (String × Json)) (rest : Path) (hrest : rest ≠ []) (h : Hunk)
    (hwf : wfList xs = true) (hpo : keysSorted po = true) (hF : KeyedFaithful po xs = true)
    (huniq : (xs.filter (keyedMembers xs po)).length ≤ 1)
    {m : Json} (hmem : m ∈ xs) (hkm : keyedMembers xs po m = true)
    (hfail : patchNode false false m rest h.before h.remove h.add h.after = .err) :
    patchNode false false (.arr t xs) (.setKeys po :: rest) h.before h.remove h.add h.after = .err := by
  rcases keyed_step false t ht xs po rest hrest h hwf hpo hF with
    ⟨hno, _, _⟩ | ⟨l1, kvs, l2, e, h1, hm, e1, _, _⟩
  · rw [hno m hmem] at hkm; cases hkm
  · have := unique_member huniq e h1 hm hmem hkm
    subst this
    rw [e1, hfail]
    rfl

/-- no member matches: error (both variants) -/
theorem keyed_no_member (sw : Bool) (t : Tag) (ht : t = .raw ∨ t = .set) (xs : List Json)
    (po : List (String × Json)) (rest : Path) (hrest : rest ≠ []) (h : Hunk)
    (hwf : wfList xs = true) (hpo : keysSorted po = true) (hF : KeyedFaithful po xs = true)
    (hno : ∀ x ∈ xs, keyedMembers xs po x = false) :
    patchNode sw false (.arr t xs) (.setKeys po :: rest) h.before h.remove h.add h.after = .err := by
  rcases keyed_step sw t ht xs po rest hrest h hwf hpo hF with
    ⟨_, e1, _⟩ | ⟨l1, kvs, l2, e, h1, hm, _, _, _⟩
  · exact e1
  · rw [hno _ (by simp [e])] at hm; cases hm

/-! ### 11. (3) the order of the members of the target is irrelevant -/

theorem keyedMembers_perm {xs xs' : List Json} (hp : xs'.Perm xs) (po : List (String × Json)) :
    keyedMembers xs' po = keyedMembers xs po := by
  rw [keyedMembers_eq, keyedMembers_eq, hp.any_eq]

theorem wfList_iff : ∀ {l : List Json}, wfList l = true ↔ ∀ x ∈ l, x.wf = true
  | [] => by simp [wfList]
  | x :: r => by simp [wfList, wfList_iff (l := r)]

theorem wfList_perm {xs xs' : List Json} (hp : xs'.Perm xs) (h : wfList xs = true) :
    wfList xs' = true :=
  wfList_iff.2 (fun x hx => wfList_iff.1 h x (hp.mem_iff.1 hx))

theorem KeyedFaithful_perm {xs xs' : List Json} (hp : xs'.Perm xs) (po : List (String × Json)) :
    KeyedFaithful po xs' = KeyedFaithful po xs := hp.all_eq

theorem unique_perm {xs xs' : List Json} (hp : xs'.Perm xs) (po : List (String × Json))
    (huniq : (xs.filter (keyedMembers xs po)).length ≤ 1) :
    (xs'.filter (keyedMembers xs' po)).length ≤ 1 := by
  rw [keyedMembers_perm hp, (hp.filter _).length_eq]; exact huniq

/-- **(3) permutation invariance** (both variants, any rest of the path). The result is a function of
    the members, applied member by member: for a permutation `xs'` of the target `xs` the hunk is
    rejected in both cases, or applies in both with results `xs.map f` and `xs'.map f` for one and the
    same `f` — permuting the target permutes the result accordingly. -/
theorem keyed_perm (sw : Bool) (t : Tag) (ht : t = .raw ∨ t = .set) {xs xs' : List Json}
    (hperm : xs'.Perm xs) (po : List (String × Json)) (rest : Path) (hrest : rest ≠ []) (h : Hunk)
    (hwf : wfList xs = true) (hpo : keysSorted po = true) (hF : KeyedFaithful po xs = true)
    (huniq : (xs.filter (keyedMembers xs po)).length ≤ 1) :
    (patchNode sw false (.arr t xs) (.setKeys po :: rest) h.before h.remove h.add h.after = .err ∧
      patchNode sw false (.arr t xs') (.setKeys po :: rest) h.before h.remove h.add h.after = .err) ∨
    ∃ f : Json → Json,
      patchNode sw false (.arr t xs) (.setKeys po :: rest) h.before h.remove h.add h.after
        = .ok (.arr .set (xs.map f)) ∧
      patchNode sw false (.arr t xs') (.setKeys po :: rest) h.before h.remove h.add h.after
        = .ok (.arr .set (xs'.map f)) := by
  have hwf' := wfList_perm hperm hwf
  have hF' : KeyedFaithful po xs' = true := by rw [KeyedFaithful_perm hperm]; exact hF
  have huniq' := unique_perm hperm po huniq
  have hkm := keyedMembers_perm hperm po
  by_cases hno : ∀ x ∈ xs, keyedMembers xs po x = false
  · refine Or.inl ⟨keyed_no_member sw t ht xs po rest hrest h hwf hpo hF hno,
      keyed_no_member sw t ht xs' po rest hrest h hwf' hpo hF' ?_⟩
    intro x hx; rw [hkm]; exact hno x (hperm.mem_iff.1 hx)
  · have : ∃ m ∈ xs, keyedMembers xs po m = true := by
      apply Classical.byContradiction
      intro hc
      apply hno
      intro x hx
      cases hk : keyedMembers xs po x with
      | false => rfl
      | true => exact absurd ⟨x, hx, hk⟩ hc
    obtain ⟨m, hmem, hk⟩ := this
    have hmem' : m ∈ xs' := hperm.mem_iff.2 hmem
    have hk' : keyedMembers xs' po m = true := by rw [hkm]; exact hk
    cases hP : patchNode sw false m rest h.before h.remove h.add h.after with
    | ok v =>
      refine Or.inr ⟨fun x => if keyedMembers xs po x then v else x, ?_, ?_⟩
      · exact keyed_success sw t ht xs po rest hrest h hwf hpo hF huniq hmem hk hP
      · have := keyed_success sw t ht xs' po rest hrest h hwf' hpo hF' huniq' hmem' hk' hP
        rw [hkm] at this
        exact this
    | err =>
      cases sw with
      | false =>
        exact Or.inl ⟨keyed_failure_propagated t ht xs po rest hrest h hwf hpo hF huniq hmem hk hP,
          keyed_failure_propagated t ht xs' po rest hrest h hwf' hpo hF' huniq' hmem' hk' hP⟩
      | true =>
        refine Or.inr ⟨id, ?_, ?_⟩
        · rw [List.map_id]
          exact keyed_failure_is_swallowed t ht xs po rest hrest h hwf hpo hF huniq hmem hk hP
        · rw [List.map_id]
          exact keyed_failure_is_swallowed t ht xs' po rest hrest h hwf' hpo hF' huniq' hmem' hk' hP
    | panic => exact absurd hP (patchNode_ne_panic _ _ _ _ _ _ _ _)


/-! ### 12. stage B: keyed elements nested in key / index / keyed paths -/

/-- paths made of object keys, list indices and keyed elements, ending in a value or a list position -/
def navPath : Path → Bool
  | [] => true
  | .key _ :: r => navPath r
  | .idx _ :: r => navPath r
  | .setKeys _ :: r => navPath r
  | _ => false

/-- **the hypotheses along the path** (decidable, by recursion on the path through the document):
    * the value replaced at the end of the path, or the list edited there, is a list-mode document
      (arrays plain or list-typed: `equals` without options is then the structural equality);
    * an array entered by an index is plain or list-typed;
    * an array entered by a keyed element is plain or set-typed, its members have sorted keys, the path
      object has sorted keys, the hashes are faithful (`KeyedFaithful`), at most one member matches,
      and the hypotheses hold for the rest of the path in the matching member. -/
def okAlong : Path → Json → Bool
  | [], n => n.listDoc
  | .key k :: rest, n =>
    match n with
    | .obj kvs => okAlong rest ((alookup k kvs).getD .void)
    | _ => true
  | .idx i :: rest, n =>
    match n with
    | .arr t xs => (t == .raw || t == .list) &&
        (if rest.isEmpty then listDocList xs
         else if i < 0 then true
         else match xs[i.toNat]? with
           | some x => okAlong rest x
           | none => true)
    | _ => true
  | .setKeys po :: rest, n =>
    match n with
    | .arr t xs => rest.isEmpty ||
        ((t == .raw || t == .set) && wfList xs && keysSorted po && KeyedFaithful po xs &&
          decide ((xs.filter (keyedMembers xs po)).length ≤ 1) &&
          xs.all (fun x => !(keyedMembers xs po x) || okAlong rest x))
    | _ => true
  | _, _ => true

/-! mismatches between the path element and the kind of node: error -/

theorem patchNode_key_nonobj (sw : Bool) (n : Json) (k : String) (rest : Path)
    (before remove add after : List Json) (hn : ∀ kvs, n ≠ .obj kvs) :
    patchNode sw false n (.key k :: rest) before remove add after = .err := by
  rw [patchNode.eq_def]
  cases n with
  | obj kvs => exact absurd rfl (hn kvs)
  | arr t xs => cases t <;> simp [effTag, pathMeta, dispatchTag]
  | _ => simp [patchFresh, Path.isLeaf]

theorem patchNode_idx_nonarr (sw : Bool) (n : Json) (i : Int) (rest : Path)
    (before remove add after : List Json) (hn : ∀ t xs, n ≠ .arr t xs) :
    patchNode sw false n (.idx i :: rest) before remove add after = .err := by
  rw [patchNode.eq_def]
  have hl : Path.isLeaf (.idx i :: rest) = false := by cases rest <;> simp [Path.isLeaf]
  cases n with
  | arr t xs => exact absurd rfl (hn t xs)
  | obj kvs => simp
  | _ => simp [patchFresh, hl]

theorem patchNode_setKeys_nonarr (sw : Bool) (n : Json) (po : List (String × Json)) (rest : Path)
    (before remove add after : List Json) (hn : ∀ t xs, n ≠ .arr t xs) :
    patchNode sw false n (.setKeys po :: rest) before remove add after = .err := by
  rw [patchNode.eq_def]
  cases n with
  | arr t xs => exact absurd rfl (hn t xs)
  | obj kvs => simp
  | _ =>
    simp only [patchFresh]
    split <;> simp

/-! the navigation steps, without any hypothesis on the rest of the document -/

theorem patchNode_key_obj (sw : Bool) (kvs : List (String × Json)) (k : String) (rest : Path)
    (before remove add after : List Json) :
    patchNode sw false (.obj kvs) (.key k :: rest) before remove add after
      = (do
          let v ← patchNode sw false ((alookup k kvs).getD .void) rest before remove add after
          if v.isVoid then pure (.obj (aerase k kvs)) else pure (.obj (ainsert k v kvs))) := by
  rw [patchNode.eq_def]
  simp only
  cases hl : alookup k kvs with
  | some v => simp [patchObjChild_eq _ _ _ _ _ _ _ _ kvs v hl]
  | none => simp [patchNew, patchNode_void]

theorem patchNode_idx_arr (sw : Bool) (t : Tag) (ht : t = .raw ∨ t = .list) (xs : List Json)
    (i : Int) (rest : Path) (before remove add after : List Json) (hrest : rest ≠ []) :
    patchNode sw false (.arr t xs) (.idx i :: rest) before remove add after
      = if i < 0 then .err
        else match xs[i.toNat]? with
          | some x => do
            let v ← patchNode sw false x rest before remove add after
            pure (.arr .list (xs.set i.toNat v))
          | none => .err := by
  have ht' : effTag (pathMeta (.idx i :: rest)) t = .list := by
    rcases ht with rfl | rfl <;> rfl
  have hre : rest.isEmpty = false := by cases rest <;> simp_all
  rw [patchNode.eq_def]
  simp only [ht', hre]
  by_cases h0 : i < 0
  · simp [h0]
  · by_cases h1 : i.toNat < xs.length
    · have hx := List.getElem?_eq_getElem h1
      have hs : setAtP xs i = fun v => .ok (xs.set i.toNat v) := by
        funext v; simp [setAtP, h0, h1]
      rw [hx]
      simp only [patchListChild_eq sw rest before remove add after xs i.toNat _ hx, hs]
      simp [h0, show ¬ (i > (xs.length : Int) - 1) by omega]
    · rw [List.getElem?_eq_none (by omega)]
      simp [h0, show (i > (xs.length : Int) - 1) by omega]


/-- agreement of the variant `sw` of the code with the reference: where the reference applies the
    hunk, so does the code, with the same result up to tags (BOTH variants); where the reference
    rejects it, the error-propagating variant reports an error -/
def AgreeSw (sw : Bool) (M : Outcome Json) (S : Option Json) : Prop :=
  (∀ r, S = some r → Outcome.mapO untag M = .ok (untag r)) ∧ (sw = false → S = none → M = .err)

theorem AgreeSw.of_eq {sw : Bool} {M : Outcome Json} {S : Option Json}
    (h : Outcome.mapO untag M = Outcome.mapO untag (optToOutcome S)) : AgreeSw sw M S := by
  constructor
  · intro r hr; subst hr; simpa [optToOutcome, Outcome.mapO] using h
  · intro _ hs; subst hs
    cases M <;> simp [optToOutcome, Outcome.mapO] at h ⊢

theorem AgreeSw.eq {M : Outcome Json} {S : Option Json} (h : AgreeSw false M S) :
    Outcome.mapO untag M = Outcome.mapO untag (optToOutcome S) := by
  cases S with
  | none => rw [h.2 rfl rfl]; rfl
  | some r => rw [h.1 r rfl]; rfl

theorem AgreeSw.err_none (sw : Bool) : AgreeSw sw .err none :=
  ⟨fun _ h => (by cases h), fun _ _ => rfl⟩

theorem AgreeSw.map {sw : Bool} {P : Outcome Json} {S : Option Json} (h : AgreeSw sw P S)
    {C C' : Json → Json} (hC : ∀ v v', untag v = untag v' → untag (C v) = untag (C' v')) :
    AgreeSw sw (Outcome.mapO C P) (S.map C') := by
  constructor
  · intro r hr
    cases S with
    | none => cases hr
    | some v' =>
      simp only [Option.map_some, Option.some.injEq] at hr
      subst hr
      have := h.1 v' rfl
      cases P <;> simp [Outcome.mapO] at this ⊢
      exact hC _ _ this
  · intro hsw hs
    cases S with
    | none => rw [h.2 hsw rfl]; rfl
    | some v' => cases hs

theorem AgreeSw.keyedOut {sw : Bool} {P : Outcome Json} {S : Option Json} (h : AgreeSw sw P S)
    (l1 : List Json) (m : Json) (l2 : List Json) :
    AgreeSw sw (keyedOut sw l1 m l2 P) (S.map (fun v => Json.arr .raw (l1 ++ v :: l2))) := by
  constructor
  · intro r hr
    cases S with
    | none => cases hr
    | some v' =>
      simp only [Option.map_some, Option.some.injEq] at hr
      subst hr
      have := h.1 v' rfl
      cases P <;> simp [Outcome.mapO, Keyed.keyedOut] at this ⊢
      exact untag_arr_mid _ _ l1 l2 this
  · intro hsw hs
    cases S with
    | none => subst hsw; rw [h.2 rfl rfl]; rfl
    | some v' => cases hs

theorem bind_objUpdate (P : Outcome Json) (k : String) (kvs : List (String × Json)) :
    (do let v ← P
        if v.isVoid then pure (Json.obj (aerase k kvs)) else pure (Json.obj (ainsert k v kvs)))
      = Outcome.mapO (fun v => if v.isVoid then Json.obj (aerase k kvs) else Json.obj (ainsert k v kvs)) P := by
  cases P with
  | ok v => simp only [Outcome.bind_ok, Outcome.mapO]; split <;> rfl
  | err => rfl
  | panic => rfl

theorem bind_arrSet (P : Outcome Json) (xs : List Json) (j : Nat) :
    (do let v ← P
        pure (Json.arr .list (xs.set j v)))
      = Outcome.mapO (fun v => Json.arr .list (xs.set j v)) P := by
  cases P <;> rfl

/-- **Stage B, both variants.** On a path of keys, indices and keyed elements, under the hypotheses
    along the path: where the reference applies the hunk the code (either variant) applies it with
    the same result up to tags; where the reference rejects it the error-propagating variant fails. -/
theorem nav_agree (sw : Bool) (h : Hunk) (hh : hunkListDoc h = true) :
    ∀ (p : Path) (n : Json), navPath p = true → okAlong p n = true →
      AgreeSw sw (patchNode sw false n p h.before h.remove h.add h.after) (applyHunkRef n p h)
  | [], n, _, hok => by
    simp only [okAlong] at hok
    apply AgreeSw.of_eq
    rw [applyHunkRef_strict h [] n rfl]
    exact patchNode_strict_eq_ref sw n h [] rfl hok hh
  | .key k :: rest, n, hp, hok => by
    simp only [navPath] at hp
    cases n with
    | obj kvs =>
      simp only [okAlong] at hok
      have ih := nav_agree sw h hh rest _ hp hok
      rw [patchNode_key_obj, bind_objUpdate]
      simp only [applyHunkRef]
      exact ih.map (fun v v' e => untag_objUpdate k kvs e)
    | _ =>
      rw [patchNode_key_nonobj _ _ _ _ _ _ _ _ (by intro kvs e; cases e)]
      simp only [applyHunkRef]
      exact AgreeSw.err_none sw
  | .idx i :: rest, n, hp, hok => by
    simp only [navPath] at hp
    cases n with
    | arr t xs =>
      simp only [okAlong, Bool.and_eq_true, Bool.or_eq_true, beq_iff_eq] at hok
      obtain ⟨ht, hok⟩ := hok
      cases rest with
      | nil =>
        simp only [List.isEmpty_nil, if_true] at hok
        have hn : (Json.arr t xs).listDoc = true := by
          simp only [Json.listDoc, Bool.and_eq_true, Bool.or_eq_true, beq_iff_eq]
          exact ⟨ht, hok⟩
        apply AgreeSw.of_eq
        rw [applyHunkRef_strict h [.idx i] _ rfl]
        exact patchNode_strict_eq_ref sw _ h [.idx i] rfl hn hh
      | cons e r =>
        simp only [List.isEmpty_cons, Bool.false_eq_true, if_false] at hok
        rw [patchNode_idx_arr sw t ht xs i (e :: r) _ _ _ _ (by simp)]
        simp only [applyHunkRef]
        by_cases h0 : i < 0
        · simp only [h0, if_true]; exact AgreeSw.err_none sw
        · simp only [h0, if_false] at hok ⊢
          cases hx : xs[i.toNat]? with
          | none => exact AgreeSw.err_none sw
          | some x =>
            rw [hx] at hok
            have ih := nav_agree sw h hh (e :: r) x hp hok
            simp only [bind_arrSet]
            exact ih.map (fun v v' e => untag_arrSet .list .raw xs i.toNat e)
    | _ =>
      rw [patchNode_idx_nonarr _ _ _ _ _ _ _ _ (by intro t xs e; cases e)]
      cases rest <;> simp only [applyHunkRef] <;> exact AgreeSw.err_none sw
  | .setKeys po :: rest, n, hp, hok => by
    simp only [navPath] at hp
    cases n with
    | arr t xs =>
      cases rest with
      | nil =>
        rw [patchNode_setKeys_last, applyHunkRef_setKeys_last]
        exact AgreeSw.err_none sw
      | cons e r =>
        simp only [okAlong, List.isEmpty_cons, Bool.false_or, Bool.and_eq_true, Bool.or_eq_true,
          beq_iff_eq, decide_eq_true_eq, List.all_eq_true, Bool.not_eq_true'] at hok
        obtain ⟨⟨⟨⟨⟨ht, hwf⟩, hpo⟩, hF⟩, huniq⟩, hall⟩ := hok
        rcases keyed_step sw t ht xs po (e :: r) (by simp) h hwf hpo hF with
          ⟨_, e1, e2⟩ | ⟨l1, kvs, l2, ex, h1, hm, e1, e2, _⟩
        · rw [e1, e2]; exact AgreeSw.err_none sw
        · have h2 := unique_after huniq ex h1 hm
          rw [e1, e2 h2]
          have hokm : okAlong (e :: r) (.obj kvs) = true := by
            rcases hall (.obj kvs) (by simp [ex]) with hc | hc
            · rw [hm] at hc; cases hc
            · exact hc
          exact (nav_agree sw h hh (e :: r) (.obj kvs) hp hokm).keyedOut l1 (.obj kvs) l2
    | _ =>
      rw [patchNode_setKeys_nonarr _ _ _ _ _ _ _ _ (by intro t xs e; cases e)]
      cases rest <;> simp only [applyHunkRef, List.isEmpty_nil, List.isEmpty_cons, if_true,
        Bool.false_eq_true, if_false] <;> exact AgreeSw.err_none sw
  | .set :: _, _, hp, _ => by simp [navPath] at hp
  | .mset :: _, _, hp, _ => by simp [navPath] at hp
  | .msetKeys _ :: _, _, hp, _ => by simp [navPath] at hp


/-- **(1), stage B.** The error-propagating variant IS the reference interpreter, up to array tags, on
    every path of keys, indices and (nested) keyed elements -/
theorem nav_eq_ref (h : Hunk) (hh : hunkListDoc h = true) (p : Path) (n : Json)
    (hp : navPath p = true) (hok : okAlong p n = true) :
    Outcome.mapO untag (patchNode false false n p h.before h.remove h.add h.after)
      = Outcome.mapO untag (optToOutcome (applyHunkRef n p h)) :=
  (nav_agree false h hh p n hp hok).eq

/-- **(2), stage B, success half.** The code as it is agrees with the reference wherever the reference
    applies the hunk -/
theorem nav_swallow_success (h : Hunk) (hh : hunkListDoc h = true) (p : Path) (n : Json)
    (hp : navPath p = true) (hok : okAlong p n = true) (r : Json)
    (hr : applyHunkRef n p h = some r) :
    Outcome.mapO untag (patchNode true false n p h.before h.remove h.add h.after) = .ok (untag r) :=
  (nav_agree true h hh p n hp hok).1 r hr

theorem okAlong_key (k : String) (rest : Path) (kvs : List (String × Json)) :
    okAlong (.key k :: rest) (.obj kvs) = okAlong rest ((alookup k kvs).getD .void) := by
  simp only [okAlong]

/-- how the hypotheses along the path are established at a keyed element -/
theorem okAlong_setKeys {t : Tag} {xs : List Json} {po : List (String × Json)} {rest : Path}
    (ht : t = .raw ∨ t = .set) (hwf : wfList xs = true) (hpo : keysSorted po = true)
    (hF : KeyedFaithful po xs = true) (huniq : (xs.filter (keyedMembers xs po)).length ≤ 1)
    (hm : ∀ m ∈ xs, keyedMembers xs po m = true → okAlong rest m = true) :
    okAlong (.setKeys po :: rest) (.arr t xs) = true := by
  simp only [okAlong, Bool.or_eq_true, Bool.and_eq_true, beq_iff_eq, decide_eq_true_eq,
    List.all_eq_true, Bool.not_eq_true']
  refine Or.inr ⟨⟨⟨⟨⟨ht, hwf⟩, hpo⟩, hF⟩, huniq⟩, ?_⟩
  intro x hx
  cases hk : keyedMembers xs po x with
  | false => exact Or.inl rfl
  | true => exact Or.inr (hm x hx hk)

/-- (1) in the form of the task: a keyed element on top of an array, the rest of the path any path of
    keys, indices and keyed elements -/
theorem keyed_eq_ref (t : Tag) (ht : t = .raw ∨ t = .set) (xs : List Json)
    (po : List (String × Json)) (rest : Path) (hp : navPath rest = true)
    (h : Hunk) (hh : hunkListDoc h = true)
    (hwf : wfList xs = true) (hpo : keysSorted po = true) (hF : KeyedFaithful po xs = true)
    (huniq : (xs.filter (keyedMembers xs po)).length ≤ 1)
    (hm : ∀ m ∈ xs, keyedMembers xs po m = true → okAlong rest m = true) :
    Outcome.mapO untag
        (patchNode false false (.arr t xs) (.setKeys po :: rest) h.before h.remove h.add h.after)
      = Outcome.mapO untag (optToOutcome (applyHunkRef (.arr t xs) (.setKeys po :: rest) h)) := by
  exact nav_eq_ref h hh _ _ (by simpa [navPath] using hp) (okAlong_setKeys ht hwf hpo hF huniq hm)


/-! ### 13. stage C: a set / multiset leaf (or any other continuation) below keys, indices and keyed elements -/

/-- navigation prefixes: keys, indices, keyed elements -/
def navElems : Path → Bool
  | [] => true
  | .key _ :: r => navElems r
  | .idx _ :: r => navElems r
  | .setKeys _ :: r => navElems r
  | _ => false

/-- the sub-document a navigation prefix addresses (reference navigation: an absent key is void, a
    keyed element denotes the one matching member) -/
def target : Path → Json → Option Json
  | [], n => some n
  | .key k :: q, n =>
    match n with
    | .obj kvs => target q ((alookup k kvs).getD .void)
    | _ => none
  | .idx i :: q, n =>
    match n with
    | .arr _ xs => if i < 0 then none else
        match xs[i.toNat]? with
        | some x => target q x
        | none => none
    | _ => none
  | .setKeys po :: q, n =>
    match n with
    | .arr _ xs =>
      match xs.filter (keyedMembers xs po) with
      | [m] => target q m
      | _ => none
    | _ => none
  | _, _ => none

/-- the hypotheses along a navigation prefix (as `okAlong`, without the conditions on the end) -/
def okNav : Path → Json → Bool
  | [], _ => true
  | .key k :: q, n =>
    match n with
    | .obj kvs => okNav q ((alookup k kvs).getD .void)
    | _ => true
  | .idx i :: q, n =>
    match n with
    | .arr t xs => (t == .raw || t == .list) &&
        (if i < 0 then true
         else match xs[i.toNat]? with
           | some x => okNav q x
           | none => true)
    | _ => true
  | .setKeys po :: q, n =>
    match n with
    | .arr t xs =>
        (t == .raw || t == .set) && wfList xs && keysSorted po && KeyedFaithful po xs &&
          decide ((xs.filter (keyedMembers xs po)).length ≤ 1) &&
          xs.all (fun x => !(keyedMembers xs po x) || okNav q x)
    | _ => true
  | _, _ => true

theorem okNav_key (k : String) (q : Path) (kvs : List (String × Json)) :
    okNav (.key k :: q) (.obj kvs) = okNav q ((alookup k kvs).getD .void) := by
  simp only [okNav]

/-- how the hypotheses along a navigation prefix are established at a keyed element -/
theorem okNav_setKeys {t : Tag} {xs : List Json} {po : List (String × Json)} {q : Path}
    (ht : t = .raw ∨ t = .set) (hwf : wfList xs = true) (hpo : keysSorted po = true)
    (hF : KeyedFaithful po xs = true) (huniq : (xs.filter (keyedMembers xs po)).length ≤ 1)
    (hm : ∀ m ∈ xs, keyedMembers xs po m = true → okNav q m = true) :
    okNav (.setKeys po :: q) (.arr t xs) = true := by
  simp only [okNav, Bool.and_eq_true, Bool.or_eq_true, beq_iff_eq, decide_eq_true_eq,
    List.all_eq_true, Bool.not_eq_true']
  refine ⟨⟨⟨⟨⟨ht, hwf⟩, hpo⟩, hF⟩, huniq⟩, ?_⟩
  intro x hx
  cases hk : keyedMembers xs po x with
  | false => exact Or.inl rfl
  | true => exact Or.inr (hm x hx hk)

theorem target_setKeys {t : Tag} {xs : List Json} {po : List (String × Json)} {q : Path} {m : Json}
    (hf : xs.filter (keyedMembers xs po) = [m]) :
    target (.setKeys po :: q) (.arr t xs) = target q m := by
  simp only [target, hf]

theorem target_key (k : String) (q : Path) (kvs : List (String × Json)) :
    target (.key k :: q) (.obj kvs) = target q ((alookup k kvs).getD .void) := by
  simp only [target]

/-- putting a value `v` in place of the sub-document addressed by the navigation prefix, the arrays
    on the way typed `tl` (entered by an index) / `ts` (entered by a keyed element): the reference
    builds `plug .raw .raw`, the code `plug .list .set` -/
def plug (tl ts : Tag) : Path → Json → Json → Json
  | [], _, v => v
  | .key k :: q, n, v =>
    match n with
    | .obj kvs =>
      if (plug tl ts q ((alookup k kvs).getD .void) v).isVoid then .obj (aerase k kvs)
      else .obj (ainsert k (plug tl ts q ((alookup k kvs).getD .void) v) kvs)
    | _ => n
  | .idx i :: q, n, v =>
    match n with
    | .arr _ xs =>
      match xs[i.toNat]? with
      | some x => .arr tl (xs.set i.toNat (plug tl ts q x v))
      | none => n
    | _ => n
  | .setKeys po :: q, n, v =>
    match n with
    | .arr _ xs => .arr ts (xs.map (fun x => if keyedMembers xs po x then plug tl ts q x v else x))
    | _ => n
  | _, n, _ => n

theorem map_replace_fn {p : Json → Bool} (g : Json → Json) {l1 l2 : List Json} {m : Json}
    (h1 : ∀ x ∈ l1, p x = false) (hm : p m = true) (h2 : ∀ x ∈ l2, p x = false) :
    (l1 ++ m :: l2).map (fun x => if p x then g x else x) = l1 ++ g m :: l2 := by
  have e1 : l1.map (fun x => if p x then g x else x) = l1 := by
    conv => rhs; rw [← List.map_id l1]
    exact List.map_congr_left (fun x hx => by simp [h1 x hx])
  have e2 : l2.map (fun x => if p x then g x else x) = l2 := by
    conv => rhs; rw [← List.map_id l2]
    exact List.map_congr_left (fun x hx => by simp [h2 x hx])
  simp [e1, e2, hm]

/-- the two ways of putting a value back differ in tags only -/
theorem plug_untag (tl ts tl' ts' : Tag) :
    ∀ (q : Path) (n : Json) {v v' : Json}, untag v = untag v' →
      untag (plug tl ts q n v) = untag (plug tl' ts' q n v')
  | [], _, _, _, e => by simpa [plug] using e
  | .key k :: q, n, v, v', e => by
    cases n with
    | obj kvs =>
      simp only [plug]
      exact untag_objUpdate k kvs (plug_untag tl ts tl' ts' q _ e)
    | _ => simp [plug]
  | .idx i :: q, n, v, v', e => by
    cases n with
    | arr t xs =>
      simp only [plug]
      cases hx : xs[i.toNat]? with
      | none => rfl
      | some x => exact untag_arrSet _ _ xs i.toNat (plug_untag tl ts tl' ts' q x e)
    | _ => simp [plug]
  | .setKeys po :: q, n, v, v', e => by
    cases n with
    | arr t xs =>
      simp only [plug, untag, untagList_eq_map, List.map_map, Json.arr.injEq, true_and]
      apply List.map_congr_left
      intro x _
      simp only [Function.comp]
      split
      · exact plug_untag tl ts tl' ts' q x e
      · rfl
    | _ => simp [plug]
  | .set :: _, _, _, _, _ => by simp [plug]
  | .mset :: _, _, _, _, _ => by simp [plug]
  | .msetKeys _ :: _, _, _, _, _ => by simp [plug]

/-- **Decomposition along a navigation prefix** `q`, for ANY non-empty continuation `lf` of the path.
    If the prefix addresses no sub-document, the reference rejects the hunk and the error-propagating
    variant fails. If it addresses `m`: the reference result is the reference result on `m` put back
    in place (`plug .raw .raw`); a successful patch of `m` by the code (either variant) is put back in
    place (`plug .list .set`: the same document up to tags, `plug_untag`); and (error-propagating
    variant) a failure on `m` is a failure. -/
theorem nav_decomp (sw : Bool) (h : Hunk) (lf : Path) (hlf : lf ≠ []) :
    ∀ (q : Path) (n : Json), navElems q = true → okNav q n = true →
      (target q n = none →
        applyHunkRef n (q ++ lf) h = none ∧
        (sw = false → patchNode sw false n (q ++ lf) h.before h.remove h.add h.after = .err)) ∧
      (∀ m, target q n = some m →
        applyHunkRef n (q ++ lf) h = (applyHunkRef m lf h).map (plug .raw .raw q n) ∧
        (∀ v, patchNode sw false m lf h.before h.remove h.add h.after = .ok v →
          patchNode sw false n (q ++ lf) h.before h.remove h.add h.after
            = .ok (plug .list .set q n v)) ∧
        (sw = false → patchNode sw false m lf h.before h.remove h.add h.after = .err →
          patchNode sw false n (q ++ lf) h.before h.remove h.add h.after = .err))
  | [], n, _, _ => by
    refine ⟨fun hn => by simp [target] at hn, fun m hm => ?_⟩
    simp only [target, Option.some.injEq] at hm
    subst hm
    refine ⟨?_, fun v hv => hv, fun _ he => he⟩
    have : plug .raw .raw [] n = id := by funext v; rfl
    simp [this]
  | .key k :: q, n, hq, hok => by
    simp only [navElems] at hq
    cases n with
    | obj kvs =>
      simp only [okNav] at hok
      obtain ⟨ihn, ihs⟩ := nav_decomp sw h lf hlf q _ hq hok
      simp only [target, List.cons_append, patchNode_key_obj, bind_objUpdate]
      simp only [applyHunkRef]
      constructor
      · intro hn
        obtain ⟨e1, e2⟩ := ihn hn
        refine ⟨by rw [e1]; rfl, fun hsw => by rw [e2 hsw]; rfl⟩
      · intro m hm
        obtain ⟨e1, e2, e3⟩ := ihs m hm
        refine ⟨?_, ?_, ?_⟩
        · rw [e1, Option.map_map]; rfl
        · intro v hv; rw [e2 v hv]; rfl
        · intro hsw he; rw [e3 hsw he]; rfl
    | _ =>
      simp only [target, List.cons_append]
      refine ⟨fun _ => ⟨by simp only [applyHunkRef], fun _ =>
        patchNode_key_nonobj _ _ _ _ _ _ _ _ (by intro kvs e; cases e)⟩, fun m hm => by cases hm⟩
  | .idx i :: q, n, hq, hok => by
    simp only [navElems] at hq
    have hne : q ++ lf ≠ [] := by simp [hlf]
    cases n with
    | arr t xs =>
      simp only [okNav, Bool.and_eq_true, Bool.or_eq_true, beq_iff_eq] at hok
      obtain ⟨ht, hok⟩ := hok
      have href : applyHunkRef (.arr t xs) (.idx i :: (q ++ lf)) h =
          if i < 0 then none else match xs[i.toNat]? with
            | some x => (applyHunkRef x (q ++ lf) h).map (fun v => Json.arr .raw (xs.set i.toNat v))
            | none => none := by
        cases hql : q ++ lf with
        | nil => exact absurd hql hne
        | cons e r => simp only [applyHunkRef]; rfl
      simp only [target, List.cons_append, patchNode_idx_arr sw t ht xs i (q ++ lf) _ _ _ _ hne, href]
      by_cases h0 : i < 0
      · simp only [h0, if_true]
        refine ⟨fun _ => ⟨?_, fun _ => ?_⟩, fun m hm => by cases hm⟩ <;> first | rfl | trivial
      · simp only [h0, if_false] at hok ⊢
        cases hx : xs[i.toNat]? with
        | none =>
          refine ⟨fun _ => ⟨?_, fun _ => ?_⟩, fun m hm => by cases hm⟩ <;> rfl
        | some x =>
          rw [hx] at hok
          obtain ⟨ihn, ihs⟩ := nav_decomp sw h lf hlf q x hq hok
          have hplug : ∀ tl ts v, plug tl ts (.idx i :: q) (.arr t xs) v
              = .arr tl (xs.set i.toNat (plug tl ts q x v)) := by
            intro tl ts v; simp only [plug, hx]
          simp only [bind_arrSet, hplug]
          constructor
          · intro hn
            obtain ⟨e1, e2⟩ := ihn hn
            exact ⟨by rw [e1]; rfl, fun hsw => by rw [e2 hsw]; rfl⟩
          · intro m hm
            obtain ⟨e1, e2, e3⟩ := ihs m hm
            refine ⟨?_, ?_, ?_⟩
            · rw [e1, Option.map_map]; congr 1; funext v; exact (hplug _ _ v).symm
            · intro v hv; rw [e2 v hv]; rfl
            · intro hsw he; rw [e3 hsw he]; rfl
    | _ =>
      simp only [target, List.cons_append]
      refine ⟨fun _ => ⟨?_, fun _ =>
        patchNode_idx_nonarr _ _ _ _ _ _ _ _ (by intro t xs e; cases e)⟩, fun m hm => by cases hm⟩
      cases hql : q ++ lf <;> simp only [applyHunkRef]
  | .setKeys po :: q, n, hq, hok => by
    simp only [navElems] at hq
    have hne : q ++ lf ≠ [] := by simp [hlf]
    cases n with
    | arr t xs =>
      simp only [okNav, Bool.and_eq_true, Bool.or_eq_true, beq_iff_eq, decide_eq_true_eq,
        List.all_eq_true, Bool.not_eq_true'] at hok
      obtain ⟨⟨⟨⟨⟨ht, hwf⟩, hpo⟩, hF⟩, huniq⟩, hall⟩ := hok
      simp only [target, List.cons_append]
      rcases keyed_step sw t ht xs po (q ++ lf) hne h hwf hpo hF with
        ⟨hno, e1, e2⟩ | ⟨l1, kvs, l2, ex, h1, hm, e1, e2, _⟩
      · have hf : xs.filter (keyedMembers xs po) = [] :=
          List.filter_eq_nil_iff.2 (fun x hx => by simp [hno x hx])
        rw [hf]
        exact ⟨fun _ => ⟨e2, fun _ => e1⟩, fun m hm => by cases hm⟩
      · have h2 := unique_after huniq ex h1 hm
        have hf : xs.filter (keyedMembers xs po) = [.obj kvs] := by
          have := filter_split (keyedMembers xs po) (l2 := l2) h1 hm
          have hnil : l2.filter (keyedMembers xs po) = [] :=
            List.filter_eq_nil_iff.2 (fun x hx => by simp [h2 x hx])
          rw [← ex, hnil] at this
          exact this
        have hokm : okNav q (.obj kvs) = true := by
          rcases hall (.obj kvs) (by simp [ex]) with hc | hc
          · rw [hm] at hc; cases hc
          · exact hc
        have hplug : ∀ tl ts v, plug tl ts (.setKeys po :: q) (.arr t xs) v
            = .arr ts (l1 ++ plug tl ts q (.obj kvs) v :: l2) := by
          intro tl ts v
          have := map_replace_fn (p := keyedMembers xs po) (fun x => plug tl ts q x v) h1 hm h2
          rw [← ex] at this
          simp only [plug, this]
        obtain ⟨ihn, ihs⟩ := nav_decomp sw h lf hlf q (.obj kvs) hq hokm
        rw [hf, e1, e2 h2]
        simp only [hplug]
        constructor
        · intro hn
          obtain ⟨e3, e4⟩ := ihn hn
          exact ⟨by rw [e3]; rfl, fun hsw => by subst hsw; rw [e4 rfl]; rfl⟩
        · intro m hm'
          obtain ⟨e3, e4, e5⟩ := ihs m hm'
          refine ⟨?_, ?_, ?_⟩
          · rw [e3, Option.map_map]; congr 1; funext v; exact (hplug _ _ v).symm
          · intro v hv; rw [e4 v hv]; rfl
          · intro hsw he; subst hsw; rw [e5 rfl he]; rfl
    | _ =>
      simp only [target, List.cons_append]
      refine ⟨fun _ => ⟨?_, fun _ =>
        patchNode_setKeys_nonarr _ _ _ _ _ _ _ _ (by intro t xs e; cases e)⟩, fun m hm => by cases hm⟩
      cases hql : q ++ lf <;> simp only [applyHunkRef, List.isEmpty_nil, List.isEmpty_cons, if_true,
        Bool.false_eq_true, if_false]
  | .set :: _, _, hq, _ => by simp [navElems] at hq
  | .mset :: _, _, hq, _ => by simp [navElems] at hq
  | .msetKeys _ :: _, _, hq, _ => by simp [navElems] at hq


/-- **Stage C, set leaf `{}` below keys, indices and keyed elements.** With the `Faithful` hypothesis
    of JdProofs.SetPatch on the addressed array: the reference rejects and the error-propagating
    variant fails, or both apply and the results are the addressed array as a set (equal as sets up to
    the advertised equivalence) put back in place, the same place up to tags (`plug_untag`). -/
theorem nav_set_ref (sw : Bool) (h : Hunk) (q r : Path) (n : Json) (hq : navElems q = true)
    (hok : okNav q n = true) {t : Tag} {xs : List Json} (ht : t = .raw ∨ t = .set)
    (htg : target q n = some (.arr t xs))
    (hF : Faithful [.set] (xs ++ h.remove ++ h.add)) (hd : distinctEq [.set] h.remove = true) :
    (applyHunkRef n (q ++ .set :: r) h = none ∧
      (sw = false → patchNode sw false n (q ++ .set :: r) h.before h.remove h.add h.after = .err)) ∨
    ∃ zs ys, applyHunkRef n (q ++ .set :: r) h = some (plug .raw .raw q n (.arr .raw zs)) ∧
      patchNode sw false n (q ++ .set :: r) h.before h.remove h.add h.after
        = .ok (plug .list .set q n (.arr .set ys)) ∧
      setEqB [.set] ys zs = true := by
  obtain ⟨e1, e2, e3⟩ := (nav_decomp sw h (.set :: r) (by simp) q n hq hok).2 _ htg
  rcases patchNode_set_ref sw t ht xs r h hF hd with ⟨r1, r2⟩ | ⟨zs, ys, r1, r2, r3⟩
  · exact Or.inl ⟨by rw [e1, r1]; rfl, fun hsw => e3 hsw r2⟩
  · exact Or.inr ⟨zs, ys, by rw [e1, r1]; rfl, e2 _ r2, r3⟩

/-- **Stage C, multiset leaf `[]`.** As `nav_set_ref`, the results equal as bags on the elements at hand -/
theorem nav_mset_ref (sw : Bool) (h : Hunk) (q r : Path) (n : Json) (hq : navElems q = true)
    (hok : okNav q n = true) {t : Tag} {xs : List Json} (ht : t = .raw ∨ t = .mset)
    (htg : target q n = some (.arr t xs))
    (hF : Faithful [.mset] (xs ++ h.remove ++ h.add)) :
    (applyHunkRef n (q ++ .mset :: r) h = none ∧
      (sw = false → patchNode sw false n (q ++ .mset :: r) h.before h.remove h.add h.after = .err)) ∨
    ∃ zs ys, applyHunkRef n (q ++ .mset :: r) h = some (plug .raw .raw q n (.arr .raw zs)) ∧
      patchNode sw false n (q ++ .mset :: r) h.before h.remove h.add h.after
        = .ok (plug .list .set q n (.arr .mset ys)) ∧
      ∀ z ∈ xs ++ h.remove ++ h.add, cntEq [.mset] z ys = cntEq [.mset] z zs := by
  obtain ⟨e1, e2, e3⟩ := (nav_decomp sw h (.mset :: r) (by simp) q n hq hok).2 _ htg
  rcases patchNode_mset_ref sw t ht xs r h hF with ⟨r1, r2⟩ | ⟨zs, ys, r1, r2, r3⟩
  · exact Or.inl ⟨by rw [e1, r1]; rfl, fun hsw => e3 hsw r2⟩
  · exact Or.inr ⟨zs, ys, by rw [e1, r1]; rfl, e2 _ r2, r3⟩

/-- the prefix addresses nothing, or something that is not an array: a set / multiset leaf is rejected
    by the reference and by the error-propagating variant -/
theorem nav_leaf_no_array (h : Hunk) (q r : Path) (e : PathElem) (he : e = .set ∨ e = .mset)
    (n : Json) (hq : navElems q = true) (hok : okNav q n = true)
    (htg : ∀ t xs, target q n ≠ some (.arr t xs)) :
    applyHunkRef n (q ++ e :: r) h = none ∧
      patchNode false false n (q ++ e :: r) h.before h.remove h.add h.after = .err := by
  obtain ⟨hn, hs⟩ := nav_decomp false h (e :: r) (by simp) q n hq hok
  cases hm : target q n with
  | none => exact ⟨(hn hm).1, (hn hm).2 rfl⟩
  | some m =>
    obtain ⟨e1, _, e3⟩ := hs m hm
    have hne : ∀ t xs, m ≠ .arr t xs := fun t xs em => htg t xs (by rw [hm, em])
    have hr : applyHunkRef m (e :: r) h = none := by
      rcases he with rfl | rfl <;> cases m <;> first | rfl | exact absurd rfl (hne _ _)
    have hp : patchNode false false m (e :: r) h.before h.remove h.add h.after = .err := by
      rw [patchNode.eq_def]
      rcases he with rfl | rfl <;> cases m <;>
        first
          | exact absurd rfl (hne _ _)
          | (simp only [patchFresh]; split <;> simp)
          | simp
    exact ⟨by rw [e1, hr]; rfl, e3 rfl hp⟩


/-! ### 14. outside the preconditions: what the code does there -/

/-- **two or more matching members** (excluded by the precondition "at most one member matches"): the
    reference rejects the hunk as ambiguous, the code patches the FIRST matching member -/
theorem keyed_ambiguous (sw : Bool) (t : Tag) (ht : t = .raw ∨ t = .set) (xs : List Json)
    (po : List (String × Json)) (rest : Path) (hrest : rest ≠ []) (h : Hunk)
    (hwf : wfList xs = true) (hpo : keysSorted po = true) (hF : KeyedFaithful po xs = true)
    (hmany : 2 ≤ (xs.filter (keyedMembers xs po)).length) :
    applyHunkRef (.arr t xs) (.setKeys po :: rest) h = none ∧
    ∃ l1 kvs l2, xs = l1 ++ .obj kvs :: l2 ∧ (∀ x ∈ l1, keyedMembers xs po x = false) ∧
      keyedMembers xs po (.obj kvs) = true ∧
      patchNode sw false (.arr t xs) (.setKeys po :: rest) h.before h.remove h.add h.after =
        keyedOut sw l1 (.obj kvs) l2
          (patchNode sw false (.obj kvs) rest h.before h.remove h.add h.after) := by
  rcases keyed_step sw t ht xs po rest hrest h hwf hpo hF with
    ⟨hno, _, _⟩ | ⟨l1, kvs, l2, e, h1, hm, e1, _, e3⟩
  · have : xs.filter (keyedMembers xs po) = [] :=
      List.filter_eq_nil_iff.2 (fun x hx => by simp [hno x hx])
    rw [this] at hmany; simp at hmany
  · refine ⟨e3 ?_, l1, kvs, l2, e, h1, hm, e1⟩
    have hf := filter_split (keyedMembers xs po) (l2 := l2) h1 hm
    rw [← e] at hf
    rw [hf] at hmany
    cases hl : l2.filter (keyedMembers xs po) with
    | nil => rw [hl] at hmany; simp at hmany
    | cons y r =>
      have : y ∈ l2.filter (keyedMembers xs po) := by rw [hl]; simp
      exact ⟨y, (List.mem_filter.1 this).1, (List.mem_filter.1 this).2⟩

/-- **a list-typed or multiset-typed array** (excluded by the hypothesis on the tag; it arises when an
    earlier hunk of the same diff has edited the array by index): the code rejects every keyed
    element, whatever the members; the reference does not look at the Go dynamic type -/
theorem keyed_on_list_typed (sw : Bool) (t : Tag) (ht : t = .list ∨ t = .mset) (xs : List Json)
    (po : List (String × Json)) (rest : Path) (before remove add after : List Json) :
    patchNode sw false (.arr t xs) (.setKeys po :: rest) before remove add after = .err := by
  rw [patchNode.eq_def]
  rcases ht with rfl | rfl <;> simp [effTag]

/-- the reference is order-independent in the same sense as `keyed_perm`: one member-wise function -/
theorem keyed_ref_perm (t : Tag) {xs xs' : List Json} (hperm : xs'.Perm xs)
    (po : List (String × Json)) (rest : Path) (hrest : rest ≠ []) (h : Hunk) :
    (applyHunkRef (.arr t xs) (.setKeys po :: rest) h = none ∧
      applyHunkRef (.arr t xs') (.setKeys po :: rest) h = none) ∨
    ∃ f : Json → Json,
      applyHunkRef (.arr t xs) (.setKeys po :: rest) h = some (.arr .raw (xs.map f)) ∧
      applyHunkRef (.arr t xs') (.setKeys po :: rest) h = some (.arr .raw (xs'.map f)) := by
  rw [applyHunkRef_setKeys t xs po rest hrest, applyHunkRef_setKeys t xs' po rest hrest,
    keyedMembers_perm hperm]
  have hp := hperm.filter (keyedMembers xs po)
  cases hf : xs.filter (keyedMembers xs po) with
  | nil =>
    rw [hf] at hp
    rw [List.perm_nil.1 hp]
    exact Or.inl ⟨rfl, rfl⟩
  | cons m r =>
    cases r with
    | nil =>
      rw [hf] at hp
      rw [List.perm_singleton.1 hp]
      simp only
      cases applyHunkRef m rest h with
      | none => exact Or.inl ⟨rfl, rfl⟩
      | some v => exact Or.inr ⟨fun x => if keyedMembers xs po x then v else x, rfl, rfl⟩
    | cons m' r' =>
      rw [hf] at hp
      have hl := hp.length_eq
      cases hf' : xs'.filter (keyedMembers xs po) with
      | nil => rw [hf'] at hl; simp at hl
      | cons a b =>
        cases b with
        | nil => rw [hf'] at hl; simp at hl
        | cons c d => exact Or.inl ⟨rfl, rfl⟩


/-! ### 15. KF-C08-swallow below a navigation prefix -/

/-- **(2) KF-C08-swallow, nested form.** The keyed element stands below any prefix `q` of keys, indices
    and keyed elements addressing the array `xs`; the nested patch of the matching member fails. The
    code as it is reports SUCCESS and returns the document with the addressed array put back unchanged
    (`plug … (.arr .set xs)`), where the error-propagating variant fails. -/
theorem keyed_failure_is_swallowed_nested (h : Hunk) (q : Path) (n : Json)
    (hq : navElems q = true) (hok : okNav q n = true) {t : Tag} {xs : List Json}
    (ht : t = .raw ∨ t = .set) (htg : target q n = some (.arr t xs))
    (po : List (String × Json)) (rest : Path) (hrest : rest ≠ [])
    (hwf : wfList xs = true) (hpo : keysSorted po = true) (hF : KeyedFaithful po xs = true)
    (huniq : (xs.filter (keyedMembers xs po)).length ≤ 1)
    {m : Json} (hmem : m ∈ xs) (hkm : keyedMembers xs po m = true)
    (hfail : patchNode true false m rest h.before h.remove h.add h.after = .err) :
    patchNode true false n (q ++ .setKeys po :: rest) h.before h.remove h.add h.after
      = .ok (plug .list .set q n (.arr .set xs)) :=
  ((nav_decomp true h (.setKeys po :: rest) (by simp) q n hq hok).2 _ htg).2.1 _
    (keyed_failure_is_swallowed t ht xs po rest hrest h hwf hpo hF huniq hmem hkm hfail)

theorem keyed_failure_propagated_nested (h : Hunk) (q : Path) (n : Json)
    (hq : navElems q = true) (hok : okNav q n = true) {t : Tag} {xs : List Json}
    (ht : t = .raw ∨ t = .set) (htg : target q n = some (.arr t xs))
    (po : List (String × Json)) (rest : Path) (hrest : rest ≠ [])
    (hwf : wfList xs = true) (hpo : keysSorted po = true) (hF : KeyedFaithful po xs = true)
    (huniq : (xs.filter (keyedMembers xs po)).length ≤ 1)
    {m : Json} (hmem : m ∈ xs) (hkm : keyedMembers xs po m = true)
    (hfail : patchNode false false m rest h.before h.remove h.add h.after = .err) :
    patchNode false false n (q ++ .setKeys po :: rest) h.before h.remove h.add h.after = .err :=
  ((nav_decomp false h (.setKeys po :: rest) (by simp) q n hq hok).2 _ htg).2.2 rfl
    (keyed_failure_propagated t ht xs po rest hrest h hwf hpo hF huniq hmem hkm hfail)


/-! #### the document comes back unchanged -/

theorem keysSorted_untagKvs' : ∀ kvs : List (String × Json), keysSorted (untagKvs kvs) = keysSorted kvs
  | [] => rfl
  | [(_, _)] => rfl
  | (k, v) :: (k', v') :: r => by
    have := keysSorted_untagKvs' ((k', v') :: r)
    simp only [untagKvs] at this
    simp [untagKvs, keysSorted, this]

theorem ainsert_self_sorted {β} {k : String} {v : β} :
    ∀ {kvs : List (String × β)}, keysSorted kvs = true → alookup k kvs = some v → ainsert k v kvs = kvs
  | [], _, h => by simp [alookup] at h
  | (k0, v0) :: r, hs, h => by
    simp only [ainsert]
    by_cases hlt : k < k0
    · exfalso
      have hm := mem_of_alookup h
      rcases List.mem_cons.1 hm with e | hm
      · cases e; exact String.lt_irrefl _ hlt
      · exact String.lt_irrefl _ (String.lt_trans hlt (keysSorted_head_lt hs k v hm))
    · simp only [hlt, if_false]
      simp only [alookup] at h
      split at h
      · rename_i he; cases h; subst he; simp
      · rename_i hne
        simp [hne, ainsert_self_sorted (keysSorted_tail hs) h]

/-- conditions under which putting the addressed sub-document back gives the document again: objects
    on the way have sorted keys and the member entered is not void (decidable) -/
def stepsOK : Path → Json → Bool
  | [], _ => true
  | .key k :: q, n =>
    match n with
    | .obj kvs => keysSorted kvs &&
        (match alookup k kvs with
          | some c => !c.isVoid && stepsOK q c
          | none => true)
    | _ => true
  | .idx i :: q, n =>
    match n with
    | .arr _ xs =>
      match xs[i.toNat]? with
      | some x => stepsOK q x
      | none => true
    | _ => true
  | .setKeys po :: q, n =>
    match n with
    | .arr _ xs => xs.all (fun x => !(keyedMembers xs po x) || stepsOK q x)
    | _ => true
  | _, _ => true

/-- putting back the addressed sub-document (or anything equal to it up to tags) gives the document,
    up to tags -/
theorem plug_target (tl ts : Tag) :
    ∀ (q : Path) (n m m' : Json), target q n = some m → stepsOK q n = true →
      untag m' = untag m → untag (plug tl ts q n m') = untag n
  | [], n, m, m', ht, _, e => by
    simp only [target, Option.some.injEq] at ht
    subst ht
    simpa [plug] using e
  | .key k :: q, n, m, m', ht, hs, e => by
    cases n with
    | obj kvs =>
      simp only [target] at ht
      simp only [stepsOK, Bool.and_eq_true] at hs
      obtain ⟨hsort, hs⟩ := hs
      simp only [plug]
      cases hl : alookup k kvs with
      | none =>
        rw [hl] at ht
        simp only [Option.getD_none] at ht ⊢
        have hq : q = [] := by
          cases q with
          | nil => rfl
          | cons e' r => cases e' <;> simp [target] at ht
        subst hq
        simp only [target, Option.some.injEq] at ht
        subst ht
        have hv : m' = .void := by cases m' <;> simp [untag] at e; rfl
        subst hv
        simp [plug, Json.isVoid, Merge.aerase_of_none hl]
      | some c =>
        rw [hl] at ht hs
        simp only [Option.getD_some, Bool.and_eq_true, Bool.not_eq_true'] at ht hs ⊢
        have ih := plug_target tl ts q c m m' ht hs.2 e
        have hv : (plug tl ts q c m').isVoid = false := by
          rw [← untag_isVoid, ih, untag_isVoid]; exact hs.1
        simp only [hv, Bool.false_eq_true, if_false, untag, untagKvs_ainsert, ih, Json.obj.injEq]
        apply ainsert_self_sorted
        · rw [keysSorted_untagKvs']; exact hsort
        · rw [alookup_untagKvs, hl]; rfl
    | _ => simp [target] at ht
  | .idx i :: q, n, m, m', ht, hs, e => by
    cases n with
    | arr t xs =>
      simp only [target] at ht
      split at ht
      · cases ht
      · cases hx : xs[i.toNat]? with
        | none => rw [hx] at ht; cases ht
        | some x =>
          rw [hx] at ht
          simp only [stepsOK, hx] at hs
          have ih := plug_target tl ts q x m m' ht hs e
          simp only [plug, hx, untag, untagList_eq_map, List.map_set, ih, Json.arr.injEq, true_and]
          apply List.ext_getElem?
          intro j
          rw [List.getElem?_set]
          split
          · rename_i hj; subst hj
            split
            · rw [List.getElem?_map, hx]; rfl
            · rename_i hlen
              rw [List.getElem?_eq_none (by omega)]
          · rfl
    | _ => simp [target] at ht
  | .setKeys po :: q, n, m, m', ht, hs, e => by
    cases n with
    | arr t xs =>
      simp only [target] at ht
      simp only [stepsOK, List.all_eq_true, Bool.or_eq_true, Bool.not_eq_true'] at hs
      cases hf : xs.filter (keyedMembers xs po) with
      | nil => rw [hf] at ht; cases ht
      | cons m0 r =>
        cases r with
        | cons a b => rw [hf] at ht; cases ht
        | nil =>
          rw [hf] at ht
          simp only at ht
          simp only [plug, untag, untagList_eq_map, List.map_map, Json.arr.injEq, true_and]
          apply List.map_congr_left
          intro x hx
          simp only [Function.comp]
          split
          · rename_i hk
            have hm : x ∈ xs.filter (keyedMembers xs po) := List.mem_filter.2 ⟨hx, hk⟩
            rw [hf, List.mem_singleton] at hm
            subst hm
            rcases hs x hx with hc | hc
            · rw [hk] at hc; cases hc
            · exact plug_target tl ts q x m m' ht hc e
          · rfl
    | _ => simp [target] at ht
  | .set :: _, _, _, _, ht, _, _ => by simp [target] at ht
  | .mset :: _, _, _, _, ht, _, _ => by simp [target] at ht
  | .msetKeys _ :: _, _, _, _, ht, _, _ => by simp [target] at ht

/-- **(2) KF-C08-swallow, whole-document form.** Under `keyed_failure_is_swallowed_nested` and
    `stepsOK`: the code as it is answers `.ok r` with `r` the input document up to array tags — a hunk
    whose nested change fails is silently NOT applied. -/
theorem keyed_failure_returns_document (h : Hunk) (q : Path) (n : Json)
    (hq : navElems q = true) (hok : okNav q n = true) (hst : stepsOK q n = true)
    {t : Tag} {xs : List Json}
    (ht : t = .raw ∨ t = .set) (htg : target q n = some (.arr t xs))
    (po : List (String × Json)) (rest : Path) (hrest : rest ≠ [])
    (hwf : wfList xs = true) (hpo : keysSorted po = true) (hF : KeyedFaithful po xs = true)
    (huniq : (xs.filter (keyedMembers xs po)).length ≤ 1)
    {m : Json} (hmem : m ∈ xs) (hkm : keyedMembers xs po m = true)
    (hfail : patchNode true false m rest h.before h.remove h.add h.after = .err) :
    ∃ r, patchNode true false n (q ++ .setKeys po :: rest) h.before h.remove h.add h.after = .ok r ∧
      untag r = untag n :=
  ⟨_, keyed_failure_is_swallowed_nested h q n hq hok ht htg po rest hrest hwf hpo hF huniq hmem hkm
      hfail,
    plug_target .list .set q n (.arr t xs) (.arr .set xs) htg hst (by simp [untag])⟩

/-! ### 16. non-vacuity: concrete inputs satisfying the hypotheses

  Target `[{"id":"x","v":"a"},{"id":"y","v":"c"}]`, path object `{"id":"x"}`, rest `"v"`. -/

namespace Example

def m1 : Json := .obj [("id", .str "x"), ("v", .str "a")]
def m2 : Json := .obj [("id", .str "y"), ("v", .str "c")]
def xs : List Json := [m1, m2]
def po : List (String × Json) := [("id", .str "x")]
def good : Hunk := { path := [.setKeys po, .key "v"], remove := [.str "a"], add := [.str "b"] }
def bad : Hunk := { path := [.setKeys po, .key "v"], remove := [.str "WRONG"], add := [.str "b"] }

theorem hash_y_x : (hashCode [.set] (.obj [("id", .str "y")]) = hashCode [.set] (.obj [("id", .str "x")])) = False := by
  simp only [eq_iff_iff, iff_false]; decide +kernel

theorem hF : KeyedFaithful po xs = true := by
  simp [KeyedFaithful, xs, m1, m2, po, objFaithful, tolObj, restrictKeys, alookup, hash_y_x, equivB, equivKvs]

theorem hwf : wfList xs = true := by decide
theorem hpo : keysSorted po = true := by decide
theorem hl : listDocList xs = true := by decide

theorem km : keyedMembers xs po = exactMember po := by
  have : xs.any (exactMember po) = true := by
    simp [xs, m1, m2, po, exactMember, matchesKeys, alookup, equivB]
  rw [keyedMembers_eq, this]; rfl

theorem hfilter : xs.filter (keyedMembers xs po) = [m1] := by
  rw [km]; simp [xs, m1, m2, po, exactMember, matchesKeys, alookup, equivB, List.filter]

theorem huniq : (xs.filter (keyedMembers xs po)).length ≤ 1 := by rw [hfilter]; simp

theorem ref_good : applyHunkRef (.arr .raw xs) [.setKeys po, .key "v"] good
    = some (.arr .raw [.obj [("id", .str "x"), ("v", .str "b")], m2]) := by
  rw [applyHunkRef_setKeys _ _ _ _ (by simp), hfilter, km]
  simp [xs, m1, m2, po, good, exactMember, matchesKeys, applyHunkRef, alookup, specEq, single,
    Json.singleValue, equivB, Json.isVoid, ainsert]

example : Outcome.mapO untag (patchNode false false (.arr .raw xs) [.setKeys po, .key "v"] good.before good.remove good.add good.after)
    = .ok (.arr .raw [.obj [("id", .str "x"), ("v", .str "b")], m2]) := by
  rw [keyed_strict_eq_ref .raw (.inl rfl) xs po [.key "v"] (by simp) rfl good rfl hl hwf hpo hF huniq, ref_good]
  simp [optToOutcome, Outcome.mapO, untag, untagList, untagKvs, m2]


/-- the nested change does not match (`v` is `"a"`, not `"WRONG"`): the reference rejects it inside `m1` -/
theorem ref_bad_nested : applyHunkRef m1 [.key "v"] bad = none := by
  simp [m1, bad, applyHunkRef, alookup, specEq, single, Json.singleValue, equivB]

/-- (2) on the example: the code as it is answers `.ok` with the array unchanged; the
    error-propagating variant and the reference reject -/
example :
    patchNode true false (.arr .raw xs) [.setKeys po, .key "v"] bad.before bad.remove bad.add bad.after
      = .ok (.arr .set xs) ∧
    patchNode false false (.arr .raw xs) [.setKeys po, .key "v"] bad.before bad.remove bad.add bad.after
      = .err ∧
    applyHunkRef (.arr .raw xs) [.setKeys po, .key "v"] bad = none :=
  (keyed_strict_swallow .raw (.inl rfl) xs po [.key "v"] (by simp) rfl bad rfl hl hwf hpo hF huniq).2.2
    m1 (by simp [xs]) (by rw [km]; simp [m1, po, exactMember, matchesKeys, alookup, equivB]) ref_bad_nested

/-- the nested strict patch of `m1` by the bad hunk fails, in both variants -/
theorem bad_nested_err (sw : Bool) :
    patchNode sw false m1 [.key "v"] bad.before bad.remove bad.add bad.after = .err := by
  have := patchNode_strict_eq_ref sw m1 bad [.key "v"] rfl (by decide) rfl
  rw [← applyHunkRef_strict bad [.key "v"] m1 rfl, ref_bad_nested] at this
  revert this
  generalize patchNode sw false m1 [.key "v"] bad.before bad.remove bad.add bad.after = P
  intro this
  cases P <;> simp [Outcome.mapO, optToOutcome] at this ⊢

/-- (2), whole-document form, on `{"a":[{"id":"x","v":"a"},{"id":"y","v":"c"}]}` with the hunk
    `@ ["a",{"id":"x"},"v"] - "WRONG" + "b"`: the code answers `.ok` with the document unchanged -/
example : ∃ r, patchNode true false (.obj [("a", .arr .raw xs)]) ([.key "a"] ++ .setKeys po :: [.key "v"])
      bad.before bad.remove bad.add bad.after = .ok r ∧
    untag r = untag (.obj [("a", .arr .raw xs)]) :=
  keyed_failure_returns_document bad [.key "a"] (.obj [("a", .arr .raw xs)]) rfl
    (by simp [okNav]) (by simp [stepsOK, alookup, keysSorted, Json.isVoid]) (.inl rfl)
    (by simp [target, alookup]) po [.key "v"] (by simp) hwf hpo hF huniq
    (m := m1) (by simp [xs]) (by rw [km]; simp [m1, po, exactMember, matchesKeys, alookup, equivB])
    (bad_nested_err true)

/-- (3) on the example: the two orders of the members -/
example :
    (patchNode true false (.arr .raw xs) [.setKeys po, .key "v"] bad.before bad.remove bad.add bad.after = .err ∧
      patchNode true false (.arr .raw [m2, m1]) [.setKeys po, .key "v"] bad.before bad.remove bad.add bad.after = .err) ∨
    ∃ f : Json → Json,
      patchNode true false (.arr .raw xs) [.setKeys po, .key "v"] bad.before bad.remove bad.add bad.after
        = .ok (.arr .set (xs.map f)) ∧
      patchNode true false (.arr .raw [m2, m1]) [.setKeys po, .key "v"] bad.before bad.remove bad.add bad.after
        = .ok (.arr .set ([m2, m1].map f)) :=
  keyed_perm true .raw (.inl rfl) (List.Perm.swap m1 m2 []) po [.key "v"] (by simp) bad hwf hpo hF huniq

/-! #### the tolerant second pass: the path object holds null for a key the member lacks -/

def t1 : Json := .obj [("v", .str "a")]
def poN : List (String × Json) := [("id", .null)]
def xsN : List Json := [t1, m2]
def goodN : Hunk := { path := [.setKeys poN, .key "v"], remove := [.str "a"], add := [.str "b"] }

theorem hash_empty_null :
    (hashCode [.set] (.obj []) = hashCode [.set] (.obj [("id", .null)])) = False := by
  simp only [eq_iff_iff, iff_false]; decide +kernel
theorem hash_y_null :
    (hashCode [.set] (.obj [("id", .str "y")]) = hashCode [.set] (.obj [("id", .null)])) = False := by
  simp only [eq_iff_iff, iff_false]; decide +kernel

theorem hFN : KeyedFaithful poN xsN = true := by
  simp [KeyedFaithful, xsN, t1, m2, poN, objFaithful, tolObj, restrictKeys, alookup, ainsert,
    hash_empty_null, hash_y_null, equivB, equivKvs]

theorem kmN : keyedMembers xsN poN = tolMember poN := by
  have : xsN.any (exactMember poN) = false := by
    simp [xsN, t1, m2, poN, exactMember, matchesKeys, alookup, equivB]
  rw [keyedMembers_eq, this]; rfl

theorem hfilterN : xsN.filter (keyedMembers xsN poN) = [t1] := by
  rw [kmN]
  simp [xsN, t1, m2, poN, tolMember, matchesKeysTol, alookup, equivB, List.filter, Json.isNull]

example : Outcome.mapO untag (patchNode false false (.arr .raw xsN) [.setKeys poN, .key "v"]
      goodN.before goodN.remove goodN.add goodN.after)
    = .ok (.arr .raw [.obj [("v", .str "b")], m2]) := by
  rw [keyed_strict_eq_ref .raw (.inl rfl) xsN poN [.key "v"] (by simp) rfl goodN rfl (by decide)
    (by decide) (by decide) hFN (by rw [hfilterN]; simp)]
  rw [applyHunkRef_setKeys _ _ _ _ (by simp), hfilterN, kmN]
  simp [xsN, t1, m2, poN, goodN, tolMember, matchesKeysTol, applyHunkRef, alookup, specEq, single,
    Json.singleValue, equivB, Json.isVoid, Json.isNull, ainsert, optToOutcome, Outcome.mapO, untag,
    untagList, untagKvs]


/-! #### a keyed element below a key and another keyed element (stage B) -/

def i1 : Json := .obj [("k", .str "p"), ("v", .str "a")]
def i2 : Json := .obj [("k", .str "q"), ("v", .str "c")]
def o1 : Json := .obj [("id", .str "x"), ("items", .arr .raw [i1, i2])]
def o2 : Json := .obj [("id", .str "y"), ("items", .arr .raw [])]
def doc : Json := .obj [("a", .arr .raw [o1, o2])]
def poK : List (String × Json) := [("k", .str "p")]
def deep : Hunk :=
  { path := [.key "a", .setKeys po, .key "items", .setKeys poK, .key "v"],
    remove := [.str "a"], add := [.str "b"] }

theorem hash_q_p :
    (hashCode [.set] (.obj [("k", .str "q")]) = hashCode [.set] (.obj [("k", .str "p")])) = False := by
  simp only [eq_iff_iff, iff_false]; decide +kernel

theorem hFo : KeyedFaithful po [o1, o2] = true := by
  simp [KeyedFaithful, o1, o2, po, objFaithful, tolObj, restrictKeys, alookup, hash_y_x, equivB, equivKvs]
theorem hFi : KeyedFaithful poK [i1, i2] = true := by
  simp [KeyedFaithful, i1, i2, poK, objFaithful, tolObj, restrictKeys, alookup, hash_q_p, equivB, equivKvs]

theorem kmo : keyedMembers [o1, o2] po = exactMember po := by
  have : [o1, o2].any (exactMember po) = true := by
    simp [o1, o2, po, exactMember, matchesKeys, alookup, equivB]
  rw [keyedMembers_eq, this]; rfl
theorem kmi : keyedMembers [i1, i2] poK = exactMember poK := by
  have : [i1, i2].any (exactMember poK) = true := by
    simp [i1, i2, poK, exactMember, matchesKeys, alookup, equivB]
  rw [keyedMembers_eq, this]; rfl

theorem fi : [i1, i2].filter (keyedMembers [i1, i2] poK) = [i1] := by
  rw [kmi]; simp [i1, i2, poK, exactMember, matchesKeys, alookup, equivB, List.filter]
theorem fo : [o1, o2].filter (keyedMembers [o1, o2] po) = [o1] := by
  rw [kmo]; simp [o1, o2, po, exactMember, matchesKeys, alookup, equivB, List.filter]

theorem inner_ok : okAlong [.setKeys poK, .key "v"] (.arr .raw [i1, i2]) = true := by
  refine okAlong_setKeys (.inl rfl) (by decide) (by decide) hFi (by rw [fi]; simp) ?_
  intro m hm hk
  have : m ∈ [i1, i2].filter (keyedMembers [i1, i2] poK) := List.mem_filter.2 ⟨hm, hk⟩
  rw [fi] at this
  simp only [List.mem_singleton] at this
  subst this
  simp [i1, okAlong, alookup, Json.listDoc]

theorem deep_ok : okAlong deep.path doc = true := by
  simp only [deep, doc, okAlong_key, alookup, if_true, Option.getD_some]
  refine okAlong_setKeys (.inl rfl)
    (by simp [wfList, Json.wf, keysSorted, wfKvs, o1, o2, i1, i2]) (by decide) hFo (by rw [fo]; simp) ?_
  intro m hm hk
  have : m ∈ [o1, o2].filter (keyedMembers [o1, o2] po) := List.mem_filter.2 ⟨hm, hk⟩
  rw [fo] at this
  simp only [List.mem_singleton] at this
  subst this
  simp only [o1, okAlong_key, alookup, String.reduceEq, if_false, if_true, Option.getD_some]
  exact inner_ok

example : Outcome.mapO untag (patchNode false false doc deep.path deep.before deep.remove deep.add deep.after)
    = Outcome.mapO untag (optToOutcome (applyHunkRef doc deep.path deep)) :=
  nav_eq_ref deep rfl deep.path doc rfl deep_ok


/-! #### a set leaf below a keyed element and a key (stage C) -/

def s1 : Json := .obj [("id", .str "x"), ("tags", .arr .raw [.bool true, .null])]
def s2 : Json := .obj [("id", .str "y"), ("tags", .arr .raw [])]
def setHunk : Hunk :=
  { path := [.setKeys po, .key "tags", .set], remove := [.null], add := [.bool false] }

theorem hFs : KeyedFaithful po [s1, s2] = true := by
  simp [KeyedFaithful, s1, s2, po, objFaithful, tolObj, restrictKeys, alookup, hash_y_x, equivB, equivKvs]
theorem kms : keyedMembers [s1, s2] po = exactMember po := by
  have : [s1, s2].any (exactMember po) = true := by
    simp [s1, s2, po, exactMember, matchesKeys, alookup, equivB]
  rw [keyedMembers_eq, this]; rfl
theorem fs : [s1, s2].filter (keyedMembers [s1, s2] po) = [s1] := by
  rw [kms]; simp [s1, s2, po, exactMember, matchesKeys, alookup, equivB, List.filter]

theorem set_ok : okNav [.setKeys po, .key "tags"] (.arr .raw [s1, s2]) = true := by
  refine okNav_setKeys (.inl rfl)
    (by simp [wfList, Json.wf, keysSorted, wfKvs, s1, s2]) (by decide) hFs (by rw [fs]; simp) ?_
  intro m _ _
  cases m <;> simp [okNav]

theorem set_target : target [.setKeys po, .key "tags"] (.arr .raw [s1, s2])
    = some (.arr .raw [.bool true, .null]) := by
  rw [target_setKeys fs, s1, target_key]
  simp [alookup, target]

example :
    (applyHunkRef (.arr .raw [s1, s2]) ([.setKeys po, .key "tags"] ++ [.set]) setHunk = none ∧
      (false = false → patchNode false false (.arr .raw [s1, s2]) ([.setKeys po, .key "tags"] ++ [.set])
        setHunk.before setHunk.remove setHunk.add setHunk.after = .err)) ∨
    ∃ zs ys, applyHunkRef (.arr .raw [s1, s2]) ([.setKeys po, .key "tags"] ++ [.set]) setHunk
        = some (plug .raw .raw [.setKeys po, .key "tags"] (.arr .raw [s1, s2]) (.arr .raw zs)) ∧
      patchNode false false (.arr .raw [s1, s2]) ([.setKeys po, .key "tags"] ++ [.set])
        setHunk.before setHunk.remove setHunk.add setHunk.after
        = .ok (plug .list .set [.setKeys po, .key "tags"] (.arr .raw [s1, s2]) (.arr .set ys)) ∧
      setEqB [.set] ys zs = true :=
  nav_set_ref false setHunk [.setKeys po, .key "tags"] [] (.arr .raw [s1, s2]) rfl set_ok (.inl rfl)
    set_target faithful_scalars (by simp [setHunk, distinctEq, memEq])

end Example

/-! ### axioms -/

#print axioms keyed_step
#print axioms keyed_strict_eq_ref
#print axioms keyed_eq_ref
#print axioms nav_eq_ref
#print axioms nav_agree
#print axioms nav_swallow_success
#print axioms nav_decomp
#print axioms nav_set_ref
#print axioms nav_mset_ref
#print axioms nav_leaf_no_array
#print axioms plug_untag
#print axioms keyed_failure_is_swallowed
#print axioms keyed_failure_is_swallowed_nested
#print axioms keyed_failure_propagated
#print axioms keyed_failure_returns_document
#print axioms plug_target
#print axioms keyed_failure_propagated_nested
#print axioms keyed_success
#print axioms keyed_no_member
#print axioms keyed_strict_swallow
#print axioms keyed_perm
#print axioms keyed_ref_perm
#print axioms keyed_ambiguous
#print axioms keyed_on_list_typed
#print axioms hashMatch_keyedMembers
#print axioms Example.hF
#print axioms Example.deep_ok
#print axioms Example.set_ok

end Jd.Keyed
