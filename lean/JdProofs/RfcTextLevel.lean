/-
  JdProofs.RfcTextLevel (namespace `Jd.RTL`) — properties C09, C10, C11, C12 of the v2 library at the
  level of the JSON TEXT: the strings `Diff.RenderPatch()` / `Diff.RenderMerge()` return and
  `ReadPatchString` / `ReadMergeString` parse. The existing theorems (JdProps/C09 … C12) stop at the
  patch DOCUMENT (`renderPatchOps`, `readPatchOps` / `readPatchDoc`, `renderMergeDoc`, `readMergeDoc`);
  here they are composed with the print / parse round trip of the model's JSON codec
  (JdProofs/JsonTextRoundTrip.lean, `Jd.JText`), as JdProofs/V1JsonText.lean does for the v1 library.

  Library functions: `diffM`, `renderPatchM nc`, `readPatchM nc`, `renderMergeM nc`, `readMergeM nc`,
  `patchM` / `patchAll true`, `parseJson nc` (= `json.Unmarshal` into a document). Independent
  specifications: `Spec.opsOfJson` (decoder of a parsed RFC 6902 document: an array of objects with
  string `op`, `path` and a `value` where the operation needs one) + `Spec.eval` (JdSpec/Rfc6902.lean),
  `Spec.mergePatch` (JdSpec/Rfc7386.lean), `specEq` / `equivB`.

  ═══ MAIN THEOREMS ═══
  §0  `parseJson_shape`: whatever `parseJson` returns is `rawDoc`, `wf` and `Yaml.voidFree` (any codec,
      any text); `parseJson_not_blank`, `readJsonM_of_parseJson`: on a JSON text `ReadJsonString` IS the
      parser. These turn the document-level hypotheses "`p.wf`, `objVoidFree p`, `doc.listDoc` …" into
      theorems about the TEXT.
  §1  C11 / C12 (JSON Merge Patch; MERGE, list reading, no Precision)
      `merge_text_rfc`      ∃ text p, renderMergeM nc (diffM o a b) = ok (some text) ∧ parseJson nc text =
                            some p ∧ p not void, not null ∧ equivB o (mergePatch a p) b ∧ specEq … ;
      `merge_text_rfc_obj`  the same without "that differ" when `a` is an object (text `{}`);
      `merge_text_core`     the text parses to `untag (V1M.pdoc a b)` and `ReadMergeString` reads
                            `readMergeDoc` of it;
      `merge_text_read_apply_iff`  C12 SHARP, for EVERY text `s` with `parseJson nc s = some p` and every
                            `t.wf`: ∃ d, readMergeM nc s = ok d ∧ (patchAll true t d = ok (mergePatch t p)
                            ↔ Clean t p) — no hypothesis on `p` left;
      `merge_text_read_apply` the direction used as the property (also with `patchM`, up to tags);
      `merge_text_invalid`  non-JSON, non-blank text: rejected; `merge_text_blank` (observation): a
                            blank text is read as the empty diff.
  §2  C09 (JSON Patch output; list reading, strict strategy)
      `patch_text_rfc_of_paths` / `patch_text_rfc`   ∃ text doc sops r,
            renderPatchM nc (diffM o a b) = ok (some text) ∧ parseJson nc text = some doc ∧
            Spec.opsOfJson doc = some sops ∧ (every op test / remove / add) ∧
            eval a sops = some r ∧ specEq r b ∧ specEq b r;
      `patch_text_core`     what C09 / C10 share; `patch_text_refused`: an inexpressible path ⇒ no text
                            (`.err`).
  §3  C10 (JSON Patch input)
      `patch_text_readback_of_paths` / `patch_text_readback`   LAST SENTENCE at the text level:
            ∃ text d' r, renderPatchM … = ok (some text) ∧ readPatchM nc text = ok d' ∧
            patchM a d' = ok r ∧ specEq r b ∧ specEq b r ∧ r.listDoc ∧ (PrecMono o → equivB o r b ∧
            equals o r b)  (generalises `CliRTM.patch_lib_round_trip` from `rawDoc` to `listDoc` inputs);
      `readPatchM_inv`, `go_cons_inv` (what the repaired decoder accepts, element by element),
            `opsOfJson_lib` (where both decoders accept, the operations carry the same `op`, `path`,
            `value`), `opsOfJson_of_lib` (AFTER THE REPAIR D31: whatever the library's decoder accepts
            as operations none of which is a `replace`, the independent decoder accepts too),
            `lib_accepts_rfc_rejects` (the only gap: a `replace` without `value`, refused by the
            element loop), `eval_rel`, `accepted_ops_wfOps` (every accepted and applied operation is
            a test / remove / add);
      `patch_text_rfc6902`   the FULL statement, for EVERY text `s`: readPatchM nc s = ok d →
            patchM t d = ok r → (array-index tokens of the parsed text's `path` members below 2^53:
            `docIdxOK`; `i + |Remove| < 2^53`) → ∃ doc sops r', parseJson nc s = some doc ∧
            Spec.opsOfJson doc = some sops ∧ eval t sops = some r' ∧ untag r' = untag r — no hypothesis
            on the independent decoder, none on the spelling of pointers (uses
            `NMP.readPatchOps_never_more_permissive_all_pointers_min`);
      `patch_text_ops_shape` the independent decoder's operations are test / remove / add;
      `patch_text_never_more_permissive`   the form with the independent decoding given.
      REGRESSIONS of D31 (the former findings, every codec; `Witness.*`):
      `null_text_rejected`, `add_without_value_rejected`, `op_without_path_rejected` — now `.err`;
      `add_null_value_accepted` (a `value` holding null is a value), `other_case_names_rejected`,
      `other_case_member_ignored`, `replace_without_value`.

  ═══ HYPOTHESES ═══
   `LT nc x` (§2, §3): `x.listDoc`, `x.wf`, `Yaml.voidFree x` (no void node, root included),
      `JText.NumOK nc x` (every number of `x` is printed by the codec to ONE JSON number token that the
      codec reads back to the same bits; `strconv` is a parameter of the model; a theorem for integers
      below 10^15, `JText.numOK_int`). On the INPUT documents only: the values written are sub-terms of
      `a` / `b` (`E2E.diffM_payloads`). All other hypotheses are those of the document-level theorems
      (`PRC.rendered_patch_of_diff_yields_target_of_paths`, `Own.own_patch_output_reproduces_target…`,
      `Merge.merge_render_correct`, `NMP.readPatchOps_never_more_permissive_all_pointers_min`); `PRC.vfree` and
      `(a.isObj && b.isVoid) = false` follow from `Yaml.voidFree`.
   §1: `Yaml.voidFree b`, `JText.NumOK nc b` on `b` only (the merge document is made of parts of `b`).

  NOT PROVED: SET / MULTISET / SetKeys readings of C11; Precision with MERGE; `a` or `b` void at the
  root in §2 / §3 (the document-level theorems cover `{…}` → void); a necessity witness for `NumOK`
  in §2 / §3 (§1 has `MergeWitness.numOK_needed_merge`; the v1 ones are `V1T.Witness.numOK_needed_*`).
-/
import JdModel
import JdSpec
import JdProofs.JsonTextRoundTrip
import JdProofs.V1JsonText
import JdProofs.CliRoundTripModesPatch
import JdProofs.CliExitCodes
import JdProofs.PatchNeverMorePermissive
import JdProofs.PatchRenderClosed
import JdProofs.MergeProofs

set_option linter.deprecated false
set_option linter.unusedVariables false
set_option autoImplicit false

namespace Jd.RTL
open Jd Jd.Spec

/-! ## 0. what `parseJson` (= `json.Unmarshal` into a document) returns -/

mutual
theorem voidFree_of_vfree : ∀ v : Json, v.isVoid = false → PRC.vfree v = true → Yaml.voidFree v = true
  | .void, h, _ => by simp [Json.isVoid] at h
  | .null, _, _ => rfl
  | .bool _, _, _ => rfl
  | .num _, _, _ => rfl
  | .str _, _, _ => rfl
  | .arr _ xs, _, h => by
    simp only [PRC.vfree] at h
    simp only [Yaml.voidFree]; exact voidFreeList_of_vfree xs h
  | .obj kvs, _, h => by
    simp only [PRC.vfree] at h
    simp only [Yaml.voidFree]; exact voidFreeKvs_of_vfree kvs h
theorem voidFreeList_of_vfree : ∀ xs : List Json, PRC.vfreeList xs = true → Yaml.voidFreeList xs = true
  | [], _ => rfl
  | x :: r, h => by
    simp only [PRC.vfreeList, Bool.and_eq_true, Bool.not_eq_true'] at h
    simp [Yaml.voidFreeList, voidFree_of_vfree x h.1.1 h.1.2, voidFreeList_of_vfree r h.2]
theorem voidFreeKvs_of_vfree : ∀ kvs : List (String × Json), PRC.vfreeKvs kvs = true →
    Yaml.voidFreeKvs kvs = true
  | [], _ => rfl
  | (k, v) :: r, h => by
    simp only [PRC.vfreeKvs, Bool.and_eq_true, Bool.not_eq_true'] at h
    simp [Yaml.voidFreeKvs, voidFree_of_vfree v h.1.1 h.1.2, voidFreeKvs_of_vfree r h.2]
end

/-- **what the JSON parser returns** (any codec, any text): every array a plain `jsonArray`, object
    keys sorted and unique (the last duplicate wins), no void marker anywhere -/
theorem parseJson_shape {nc : NumCodec} {s : String} {v : Json} (h : parseJson nc s = some v) :
    v.rawDoc = true ∧ v.wf = true ∧ Yaml.voidFree v = true := by
  unfold parseJson at h
  simp only at h
  split at h
  · rename_i v0 r hv
    split at h
    · cases h
      have := (CliExit.parse_shape nc _).1 _ _ _ hv
      exact ⟨this.raw, this.wf, voidFree_of_vfree _ this.nv this.vf⟩
    · cases h
  · cases h

theorem skipWs_of_all : ∀ l : List Char, l.all isJsonWs = true → skipWs l = []
  | [], _ => rfl
  | c :: r, h => by
    simp only [List.all_cons, Bool.and_eq_true] at h
    simp [skipWs, h.1, skipWs_of_all r h.2]

theorem dropWhile_nil_all (p : Char → Bool) : ∀ l : List Char, l.dropWhile p = [] → l.all p = true
  | [], _ => rfl
  | c :: r, h => by
    cases hc : p c with
    | true =>
      simp only [List.dropWhile, hc] at h
      simp [hc, dropWhile_nil_all p r h]
    | false => simp [List.dropWhile, hc] at h

theorem dropWhile_head (p : Char → Bool) : ∀ l : List Char, ∀ c r, l.dropWhile p = c :: r → p c = false
  | [], c, r, h => by simp at h
  | x :: l, c, r, h => by
    cases hx : p x with
    | true =>
      simp only [List.dropWhile, hx] at h
      exact dropWhile_head p l c r h
    | false =>
      simp only [List.dropWhile, hx] at h
      cases h; exact hx

/-- a text that the JSON parser accepts is not blank -/
theorem parseJson_not_blank {nc : NumCodec} {s : String} {v : Json} (h : parseJson nc s = some v) :
    (trimGoSpace s).isEmpty = false := by
  cases hb : (trimGoSpace s).isEmpty with
  | false => rfl
  | true =>
    exfalso
    have hall : s.toList.all isJsonWs = true := by
      simp only [trimGoSpace] at hb
      have h1 : ((s.toList.dropWhile isJsonWs).reverse.dropWhile isJsonWs).reverse = [] := by
        have := hb
        rw [String.isEmpty_iff] at this
        have h2 := congrArg String.toList this
        simpa using h2
      rw [List.reverse_eq_nil_iff] at h1
      have h2 := dropWhile_nil_all _ _ h1
      cases hd : s.toList.dropWhile isJsonWs with
      | nil => exact dropWhile_nil_all _ _ hd
      | cons c r =>
        have := dropWhile_head _ _ c r hd
        rw [hd] at h2
        simp [this] at h2
    unfold parseJson at h
    simp only at h
    have : parseValue nc (s.toList.length + 2) s.toList = none := by
      simp [parseValue, skipWs_of_all _ hall]
    rw [this] at h
    cases h

/-- `ReadJsonString` on a JSON text is the parser -/
theorem readJsonM_of_parseJson {nc : NumCodec} {s : String} {v : Json} (h : parseJson nc s = some v) :
    readJsonM nc s = .ok v := by
  simp [readJsonM, parseJson_not_blank h, h]

/-! ## 1. JSON Merge Patch (RFC 7386): C11 and C12 at the text level -/

section Merge
open Jd.Merge

/-- `Json()` of a document of the codec domain: the text, what the parser and what `ReadJsonString`
    make of it -/
theorem jsonM_text (nc : NumCodec) (n : Json) (hp : JText.preOK nc n = true) :
    ∃ s, jsonM nc n = some s ∧ parseJson nc s = some (rawNorm n) ∧
      readJsonM nc s = .ok (rawNorm n) := by
  obtain ⟨s, h1, h2⟩ := JText.jsonM_parse_ws nc n hp [] [] rfl rfl
  have h2' : parseJson nc s = some (rawNorm n) := by simpa [String.ofList_toList] using h2
  exact ⟨s, h1, h2', readJsonM_of_parseJson h2'⟩

/-- the rendered text of a NON-EMPTY merge diff of the list reading: it is produced, and both the
    JSON parser and `ReadMergeString` get the rendered document with its array tags erased out of it
    (`V1M.pdoc a b` is the pure function `mapply (rl [] a b) void` shared by both libraries) -/
theorem merge_text_core (L : FloatLaws) (nc : NumCodec) (o : Opts) (hm : isMerge o = true)
    (ho : dispatchTag o = .list) (hprec : precOf o = 0) (a b : Json)
    (haw : a.wf = true) (har : a.rawDoc = true)
    (hbw : b.wf = true) (hbr : b.rawDoc = true) (hbn : b.nullFree = true)
    (hbf : b.finiteNums = true) (hbv : Yaml.voidFree b = true) (hbN : JText.NumOK nc b = true)
    (hd : dl [] a b ≠ []) :
    ∃ text, renderMergeM nc (diffM o a b) = .ok (some text) ∧
      parseJson nc text = some (untag (V1M.pdoc a b)) ∧
      readMergeM nc text = .ok (readMergeDoc (untag (V1M.pdoc a b))) := by
  have hov := V1T.objVoidFree_of_voidFree b hbv
  have G : GoodB b := ⟨hbw, hbr, hbn, hov, hbf⟩
  have hdl := CliRTM.dl_optcongr ho hprec a b
  have hrd := renderMergeDoc_diffM o ho hm a b har hbr hov
  have hrl : rl o a b = rl [] a b := by simp only [rl, hdl]
  rw [hrl, hdl, if_neg hd] at hrd
  have Qp := V1M.xnode L a haw har b G hd
  have hT := V1T.tok_pdoc nc a b ⟨hbv, hbN⟩ hd
  have hp : JText.preOK nc (V1M.pdoc a b) = true := by
    rw [JText.preOK_iff, Qp.wf, hT.1, hT.2]; rfl
  obtain ⟨s, h1, h2, h3⟩ := jsonM_text nc _ hp
  rw [JText.rawNorm_eq_untag _ (JText.setFree_of_listDoc _ Qp.ld)] at h2 h3
  refine ⟨s, ?_, h2, ?_⟩
  · simp only [renderMergeM, hrd]; exact congrArg _ h1
  · simp only [readMergeM, h3]

/-- **C11 at the TEXT level** (MERGE, list reading, no Precision; documents that differ): the text
    `Diff.RenderMerge()` returns is produced, it parses to a document `p` (not void, not `null`), and
    RFC 7386 `MergePatch(a, p)` is `b` -/
theorem merge_text_rfc (L : FloatLaws) (nc : NumCodec) (o : Opts) (hm : isMerge o = true)
    (ho : dispatchTag o = .list) (hprec : precOf o = 0) (a b : Json)
    (haw : a.wf = true) (har : a.rawDoc = true)
    (hbw : b.wf = true) (hbr : b.rawDoc = true) (hbn : b.nullFree = true)
    (hbf : b.finiteNums = true) (hbv : Yaml.voidFree b = true) (hbN : JText.NumOK nc b = true)
    (hne : equals o a b = false) :
    ∃ text p, renderMergeM nc (diffM o a b) = .ok (some text) ∧ parseJson nc text = some p ∧
      p.isVoid = false ∧ p.isNull = false ∧
      equivB o (mergePatch a p) b = true ∧ specEq (mergePatch a p) b = true := by
  have hov := V1T.objVoidFree_of_voidFree b hbv
  have G : GoodB b := ⟨hbw, hbr, hbn, hov, hbf⟩
  have S := sound L [] rfl rfl a haw har b G
  have hd : dl [] a b ≠ [] := by
    intro hd
    have h1 := S.1 hd
    have h2 : equivB o a b = true := by
      rw [DPL.equivB_congr o [] ho rfl (by rw [hprec]; rfl)]; exact h1
    rw [← equals_eq_equivB_list o ho a b (rawDoc_listDoc a har) (rawDoc_listDoc b hbr), hne] at h2
    cases h2
  have S2 := S.2 hd
  obtain ⟨text, h1, h2, _⟩ := merge_text_core L nc o hm ho hprec a b haw har hbw hbr hbn hbf hbv hbN hd
  have hs : specEq (mergePatch a (untag (V1M.pdoc a b))) b = true := by
    rw [V1T.mergePatch_untag_right har, specEq_untag_left]; exact S2.2.2
  refine ⟨text, _, h1, h2, ?_, ?_, ?_, hs⟩
  · rw [untag_isVoid]; exact S2.1
  · rw [V1T.untag_isNull]; exact S2.2.1
  · rw [DPL.equivB_congr o [] ho rfl (by rw [hprec]; rfl)]; exact hs

/-- the text of the empty object -/
theorem empty_object_text (nc : NumCodec) : jsonM nc (.obj []) = some "{}" := by
  simp [jsonM, rawNorm, rawNormKvs, jsonText, jsonTextKvs]

theorem parseJson_empty_object (nc : NumCodec) : parseJson nc "{}" = some (.obj []) := by
  have h := JText.parseJson_text' nc (.obj []) "{}" (by simp [JText.preOK, keysSorted, JText.preOKKvs])
    (by simp [Json.rawDoc, rawDocKvs]) (by simp [jsonText, jsonTextKvs])
  exact h

/-- **C11 at the TEXT level, first document an object** (no "that differ"): for equal documents the
    text is `{}`, the identity on objects -/
theorem merge_text_rfc_obj (L : FloatLaws) (nc : NumCodec) (o : Opts) (hm : isMerge o = true)
    (ho : dispatchTag o = .list) (hprec : precOf o = 0) (a b : Json)
    (haw : a.wf = true) (har : a.rawDoc = true)
    (hbw : b.wf = true) (hbr : b.rawDoc = true) (hbn : b.nullFree = true)
    (hbf : b.finiteNums = true) (hbv : Yaml.voidFree b = true) (hbN : JText.NumOK nc b = true)
    (hobj : a.isObj = true) :
    ∃ text p, renderMergeM nc (diffM o a b) = .ok (some text) ∧ parseJson nc text = some p ∧
      p.isVoid = false ∧ p.isNull = false ∧
      equivB o (mergePatch a p) b = true ∧ specEq (mergePatch a p) b = true := by
  cases hne : equals o a b with
  | false => exact merge_text_rfc L nc o hm ho hprec a b haw har hbw hbr hbn hbf hbv hbN hne
  | true =>
    have hov := V1T.objVoidFree_of_voidFree b hbv
    have G : GoodB b := ⟨hbw, hbr, hbn, hov, hbf⟩
    have S := sound L [] rfl rfl a haw har b G
    have hdl := CliRTM.dl_optcongr ho hprec a b
    have hrd := renderMergeDoc_diffM o ho hm a b har hbr hov
    have hrl : rl o a b = rl [] a b := by simp only [rl, hdl]
    rw [hrl, hdl] at hrd
    have he : equivB o a b = true := by
      rw [← equals_eq_equivB_list o ho a b (rawDoc_listDoc a har) (rawDoc_listDoc b hbr)]; exact hne
    have hs : specEq a b = true := by
      rw [DPL.equivB_congr o [] ho rfl (by rw [hprec]; rfl)] at he; exact he
    have hid : mergePatch a (.obj []) = a := by
      cases a <;> simp_all [Json.isObj, mergePatch, mergeMembers]
    by_cases hd : dl [] a b = []
    · rw [if_pos hd] at hrd
      refine ⟨"{}", .obj [], ?_, parseJson_empty_object nc, rfl, rfl, ?_, ?_⟩
      · simp only [renderMergeM, hrd, empty_object_text]
      · rw [hid]; exact he
      · rw [hid]; exact hs
    · have S2 := S.2 hd
      obtain ⟨text, h1, h2, _⟩ := merge_text_core L nc o hm ho hprec a b haw har hbw hbr hbn hbf hbv hbN hd
      have hs' : specEq (mergePatch a (untag (V1M.pdoc a b))) b = true := by
        rw [V1T.mergePatch_untag_right har, specEq_untag_left]; exact S2.2.2
      refine ⟨text, _, h1, h2, ?_, ?_, ?_, hs'⟩
      · rw [untag_isVoid]; exact S2.1
      · rw [V1T.untag_isNull]; exact S2.2.1
      · rw [DPL.equivB_congr o [] ho rfl (by rw [hprec]; rfl)]; exact hs'

/-! ### C12: every JSON text, read by `ReadMergeString` and applied -/

/-- `ReadMergeString` on a JSON text is `readMergeDoc` of the parsed document -/
theorem readMergeM_of_parseJson {nc : NumCodec} {s : String} {p : Json} (h : parseJson nc s = some p) :
    readMergeM nc s = .ok (readMergeDoc p) := by
  simp only [readMergeM, readJsonM_of_parseJson h]

/-- **C12 at the TEXT level, sharp form**: for EVERY text `s` that is valid JSON (parsing to `p`) and
    every target `t` with unique sorted keys: `ReadMergeString(s)` succeeds, and `t.Patch` of what was
    read is EXACTLY RFC 7386 `MergePatch(t, p)` if and only if the pair is outside the three known
    classes (`Clean t p`) -/
theorem merge_text_read_apply_iff (nc : NumCodec) (t : Json) (s : String) (p : Json)
    (ht : t.wf = true) (hs : parseJson nc s = some p) :
    ∃ d, readMergeM nc s = .ok d ∧
      (patchAll true t d = .ok (mergePatch t p) ↔ Clean t p = true) := by
  obtain ⟨_, hw, hv⟩ := parseJson_shape hs
  exact ⟨_, readMergeM_of_parseJson hs,
    merge_read_apply_iff t p ht hw (V1T.objVoidFree_of_voidFree p hv)⟩

/-- the direction used as the property, with the library entry point `patchM`, up to array tags -/
theorem merge_text_read_apply (nc : NumCodec) (t : Json) (s : String) (p : Json)
    (ht : t.wf = true) (hs : parseJson nc s = some p) (hc : Clean t p = true) :
    ∃ d r, readMergeM nc s = .ok d ∧ patchAll true t d = .ok (mergePatch t p) ∧
      patchM t d = .ok r ∧ untag r = untag (mergePatch t p) := by
  obtain ⟨_, hw, hv⟩ := parseJson_shape hs
  have hov := V1T.objVoidFree_of_voidFree p hv
  obtain ⟨r, h1, h2⟩ := merge_read_apply_partial_untag t p ht hw hov hc
  exact ⟨_, r, readMergeM_of_parseJson hs, merge_read_apply_partial t p ht hw hov hc, h1, h2⟩

/-- the text is not JSON: `ReadMergeString` rejects it — unless it is blank -/
theorem merge_text_invalid (nc : NumCodec) (s : String) (hs : parseJson nc s = none)
    (hb : (trimGoSpace s).isEmpty = false) : readMergeM nc s = .err := by
  simp [readMergeM, readJsonM, hb, hs]

/-- OBSERVATION: a blank text (not a JSON text, so RFC 7386 says nothing about it) is accepted by
    `ReadMergeString` and read as the empty diff: applying it is a no-op -/
theorem merge_text_blank (nc : NumCodec) (s : String) (hb : (trimGoSpace s).isEmpty = true)
    (t : Json) : readMergeM nc s = .ok [] ∧ patchAll true t [] = .ok t := by
  refine ⟨?_, rfl⟩
  simp [readMergeM, readJsonM, hb, readMergeDoc, equals, readMergeInto, Json.isVoid]

end Merge


/-! ### the codec hypothesis cannot be dropped -/

namespace MergeWitness
open Jd.Merge
open Jd.NativeRT (exCodec)

def big : Json := .num 0x430C6BF526340000
theorem merge_doc_big : renderMergeDoc (diffM [.merge] .null big) = .ok big := by
  rw [renderMergeDoc_diffM [.merge] rfl rfl .null big rfl rfl rfl]
  have h : dl [.merge] .null big = [([], big)] := by
    simp [dl, equals, Json.isNull, big]
  simp only [rl, h]
  simp [nulE, mapply, mset, Json.isVoid, big]
/-- **`NumOK nc b` is necessary for the text-level C11** (a remark on the MODEL, not on Go): `null →
    10^15` with the codec that knows no token: every other hypothesis of `merge_text_rfc` holds, the
    text `1000000000000000` is produced (the model prints integers below 2^53 itself), and neither the
    parser nor `ReadMergeString` of the model reads it (its own integer parser stops at 15 digits; in
    the harness — and in Go — the token is in the graph of the codec) -/
theorem numOK_needed_merge :
    big.wf = true ∧ big.rawDoc = true ∧ big.nullFree = true ∧ big.finiteNums = true ∧
    Yaml.voidFree big = true ∧ equals [.merge] .null big = false ∧
    JText.NumOK exCodec big = false ∧
    renderMergeM exCodec (diffM [.merge] .null big) = .ok (some "1000000000000000") ∧
    parseJson exCodec "1000000000000000" = none ∧
    readMergeM exCodec "1000000000000000" = .err := by
  refine ⟨by decide, by decide, by decide, by decide +kernel, by decide, ?_,
    JText.numOK_1e15_emptyCodec, ?_, by decide +kernel, ?_⟩
  · simp [equals, big, Json.isNull]
  · simp only [renderMergeM, merge_doc_big]
    exact congrArg Outcome.ok (by decide +kernel)
  · have h1 : parseJson exCodec "1000000000000000" = none := by decide +kernel
    have h2 : (trimGoSpace "1000000000000000").isEmpty = false := by decide +kernel
    simp only [readMergeM, readJsonM, h1, h2]
    rfl
end MergeWitness

/-! ## 2. JSON Patch (RFC 6902), output: C09 at the text level -/

section PatchOut
open Jd.Robust Jd.DPL

/-- a predicate inherited by the parts of a document holds of all its sub-terms -/
theorem closed_subterms {P : Json → Prop}
    (elem : ∀ {t xs x}, P (.arr t xs) → x ∈ xs → P x)
    (member : ∀ {kvs k v}, P (.obj kvs) → (k, v) ∈ kvs → P v) :
    ∀ x : Json, P x → ∀ z ∈ Jd.subterms x, P z := by
  intro x
  induction x using jsonInd with
  | void => intro h z hz; simp only [Jd.subterms, List.mem_singleton] at hz; rw [hz]; exact h
  | null => intro h z hz; simp only [Jd.subterms, List.mem_singleton] at hz; rw [hz]; exact h
  | bool _ => intro h z hz; simp only [Jd.subterms, List.mem_singleton] at hz; rw [hz]; exact h
  | num _ => intro h z hz; simp only [Jd.subterms, List.mem_singleton] at hz; rw [hz]; exact h
  | str _ => intro h z hz; simp only [Jd.subterms, List.mem_singleton] at hz; rw [hz]; exact h
  | arr t xs ih =>
    intro h z hz
    simp only [Jd.subterms, List.mem_cons] at hz
    rcases hz with rfl | hz
    · exact h
    · obtain ⟨x, hx, hzx⟩ := DES.mem_subtermsList_inv hz
      exact ih x hx (elem h hx) z hzx
  | obj kvs ih =>
    intro h z hz
    simp only [Jd.subterms, List.mem_cons] at hz
    rcases hz with rfl | hz
    · exact h
    · obtain ⟨k, v, hm, hzv⟩ := DES.mem_subtermsKvs_inv hz
      exact ih k v hm (member h hm) z hzv

/-- the text domain of a list document: sorted unique keys, no void node, codec-correct numbers,
    no set / multiset typed array -/
def LT (nc : NumCodec) (v : Json) : Prop :=
  v.listDoc = true ∧ v.wf = true ∧ Yaml.voidFree v = true ∧ JText.NumOK nc v = true

theorem LT.elem (nc : NumCodec) {t : Tag} {xs : List Json} {x : Json} (h : LT nc (.arr t xs))
    (hx : x ∈ xs) : LT nc x := by
    obtain ⟨h1, h2, h3, h4⟩ := h
    simp only [Json.listDoc, Bool.and_eq_true] at h1
    simp only [Json.wf] at h2
    exact ⟨NativeRT.listDocList_mem h1.2 hx, DES.wfList_mem h2 hx,
      ((V1T.TOK.closed nc).elem ⟨h3, h4⟩ hx).1, ((V1T.TOK.closed nc).elem ⟨h3, h4⟩ hx).2⟩
theorem LT.member (nc : NumCodec) {kvs : List (String × Json)} {k : String} {v : Json}
    (h : LT nc (.obj kvs)) (hx : (k, v) ∈ kvs) : LT nc v := by
    obtain ⟨h1, h2, h3, h4⟩ := h
    simp only [Json.listDoc] at h1
    simp only [Json.wf, Bool.and_eq_true] at h2
    exact ⟨Own.listDocKvs_mem h1 hx, DES.wfKvs_mem h2.2 hx,
      ((V1T.TOK.closed nc).member ⟨h3, h4⟩ hx).1, ((V1T.TOK.closed nc).member ⟨h3, h4⟩ hx).2⟩

theorem LT.subterms (nc : NumCodec) {x : Json} (h : LT nc x) : ∀ z ∈ Jd.subterms x, LT nc z :=
  closed_subterms (LT.elem nc) (LT.member nc) x h

theorem LT.preOK {nc : NumCodec} {v : Json} (h : LT nc v) : JText.preOK nc v = true := by
  rw [JText.preOK_iff, h.2.1, h.2.2.1, h.2.2.2]; rfl

theorem LT.mSetFree {nc : NumCodec} {v : Json} (h : LT nc v) : JText.mSetFree v = true :=
  JText.mSetFree_of_setFree _ (JText.setFree_of_listDoc _ h.1)

theorem e2eVoidFree_of_LT {nc : NumCodec} {x : Json} (h : LT nc x) : E2E.voidFree x = true := by
  unfold E2E.voidFree
  rw [E2ES.subterms_eq, List.all_eq_true]
  exact fun z hz => CliRTM.kidsNonVoid_of_voidFree (h.subterms nc z hz).2.2.1

theorem hunkOK_untagHunk {h : Hunk} (hk : HunkOK h) : HunkOK (untagHunk h) where
  remNoVoid := by
    intro x hx
    simp only [untagHunk, List.mem_map] at hx
    obtain ⟨y, hy, rfl⟩ := hx
    rw [untag_isVoid]; exact hk.remNoVoid y hy
  addNoVoid := by
    intro x hx
    simp only [untagHunk, List.mem_map] at hx
    obtain ⟨y, hy, rfl⟩ := hx
    rw [untag_isVoid]; exact hk.addNoVoid y hy
  wfBefore := by
    simp only [untagHunk, ← untagList_eq_map, untagList_wf]; exact hk.wfBefore
  wfAfter := by
    simp only [untagHunk, ← untagList_eq_map, untagList_wf]; exact hk.wfAfter
  wfAdd := by
    simp only [untagHunk, ← untagList_eq_map, untagList_wf]; exact hk.wfAdd
  append := by
    intro hl
    obtain ⟨h1, h2, h3⟩ := hk.append hl
    refine ⟨by simpa [untagHunk] using h1, ?_, ?_⟩
    · intro x hx
      simp only [untagHunk, List.mem_map] at hx
      obtain ⟨y, hy, rfl⟩ := hx
      rw [untag_isVoid]; exact h2 y hy
    · intro x hx
      simp only [untagHunk, List.mem_map] at hx
      obtain ⟨y, hy, rfl⟩ := hx
      rw [untag_isVoid]; exact h3 y hy

theorem hunkRange_untagHunk {h : Hunk} (hk : HunkRange h) : HunkRange (untagHunk h) where
  path := hk.path
  ctx := by
    intro i hi
    have := hk.ctx i hi
    simpa [untagHunk] using this

/-- the INDEPENDENT decoder of a JSON Patch document (`Spec.opsOfJson`, JdSpec/Rfc6902.lean: an
    array of objects with string members `op`, `path` and a `value` member where the operation needs
    one) on the document the printed text parses to -/
theorem opsOfJson_opDocs (ops : List PatchOp) :
    Spec.opsOfJson (.arr .raw (ops.map JText.opDoc)) =
      some ((ops.map JText.normOp).map PatchOp.toSpec) := by
  simp only [Spec.opsOfJson]
  induction ops with
  | nil => rfl
  | cons p r ih =>
    simp only [List.map_cons, List.mapM_cons, ih]
    simp [JText.opDoc, JText.normOp, alookup, PatchOp.toSpec]

/-- the printed JSON Patch text and what it parses to: the array of the operation objects
    `{"op":…,"path":…,"value":…}` -/
theorem renderPatchM_parse (nc : NumCodec) (d : Diff) (ops : List PatchOp)
    (hops : renderPatchOps d = .ok ops) (hok : ∀ p ∈ ops, JText.mOK nc p.value = true) :
    ∃ text, renderPatchM nc d = .ok (some text) ∧
      parseJson nc text = some (.arr .raw (ops.map JText.opDoc)) := by
  have hp : JText.preOK nc (.arr .raw (ops.map JText.opDoc)) = true := by
    simp only [JText.preOK]; exact JText.preOKList_opDocs nc ops hok
  have hr : (Json.arr .raw (ops.map JText.opDoc)).rawDoc = true := by
    simp [Json.rawDoc, JText.rawDocList_opDocs]
  obtain ⟨text, ht⟩ := JText.jsonText_some nc _ hp
  exact ⟨text, by rw [JText.renderPatchM_eq, hops]; simp only [ht],
    JText.parseJson_text' nc _ text hp hr ht⟩

/-- what the C09 / C10 text-level theorems share (list reading, strict strategy; `a`, `b` in the C01
    list domain and in the text domain `LT`; the paths of the diff expressible): the operations, the
    text, the document it parses to, the operations with untagged values (= what the text carries =
    the operations of the diff with untagged payloads), the effect of both diffs on `a` -/
theorem patch_text_core (L : FloatLaws) (nc : NumCodec) (o : Opts)
    (ho : dispatchTag o = .list) (hm : isMerge o = false) (a b : Json)
    (ha : LT nc a) (ha3 : a.finiteNums = true) (hb : LT nc b) (hb3 : b.finiteNums = true)
    {Na Nb : Nat} (la : PRC.lenLe Na a = true) (lb : PRC.lenLe Nb b = true) (hN : Na + Nb < 2 ^ 53)
    (H : HashOK o a b) (Z : ZeroOK a b)
    (hp : ∀ h ∈ diffM o a b, PRC.PE h.path) :
    ∃ ops text m m2,
      renderPatchOps (diffM o a b) = .ok ops ∧
      renderPatchM nc (diffM o a b) = .ok (some text) ∧
      parseJson nc text = some (.arr .raw (ops.map JText.opDoc)) ∧
      ops.map JText.normOp = ops.map JText.untagOp ∧
      renderPatchOps ((diffM o a b).map untagHunk) = .ok (ops.map JText.untagOp) ∧
      applyStrictAll a (diffM o a b) = some m ∧
      applyStrictAll a ((diffM o a b).map untagHunk) = some m2 ∧ untag m2 = untag m ∧
      specEq m b = true ∧ specEq b m = true ∧
      (∀ h ∈ (diffM o a b).map untagHunk, HunkOK h ∧ HunkRange h) := by
  obtain ⟨ha1, ha2, hav, haN⟩ := ha
  obtain ⟨hb1, hb2, hbv, hbN⟩ := hb
  have ha4 := CliRTM.vfree_of_voidFree a hav
  have hb4 := CliRTM.vfree_of_voidFree b hbv
  have hv : (a.isObj && b.isVoid) = false := by
    rw [V1T.voidFree_notVoid hbv]; simp
  obtain ⟨ops, er⟩ := (PRC.render_diffM_ok_iff o ho hm a b ha1 ha2 ha4 hb1 hb2 hb4).2 hp
  have hd := PRC.diffM_hunks_ok o ho hm a b ha1 ha2 ha4 hb1 hb2 hb4 la lb hN hv
  obtain ⟨m, hm1, hm2, hm3, _⟩ := DPL.diffM_list_correct L o ho hm a b ha1 ha2 ha3
    (PRC.memOK_of_vfree a ha4) hb1 hb2 hb3 (PRC.memOK_of_vfree b hb4) H Z
  -- the values written are sub-terms of the two documents (up to the tag of an array)
  have hsub : ∀ z ∈ DPL.subterms a ++ DPL.subterms b, LT nc z := by
    intro z hz
    rw [E2ES.subterms_eq, E2ES.subterms_eq] at hz
    rcases List.mem_append.1 hz with hz | hz
    · exact LT.subterms nc ⟨ha1, ha2, hav, haN⟩ z hz
    · exact LT.subterms nc ⟨hb1, hb2, hbv, hbN⟩ z hz
  have hpay := E2E.diffM_payloads o ho hm a b ha1 hb1
    (e2eVoidFree_of_LT (nc := nc) ⟨ha1, ha2, hav, haN⟩)
    (e2eVoidFree_of_LT (nc := nc) ⟨hb1, hb2, hbv, hbN⟩)
    (CliRTM.shortArrays_of_lenLe (N := Nb) (by omega) lb)
    (LT nc)
    (fun t xs h => by
      obtain ⟨h1, h2, h3, h4⟩ := h
      refine ⟨?_, by simpa only [Json.wf] using h2, by simpa only [Yaml.voidFree] using h3,
        by simpa only [JText.NumOK] using h4⟩
      simp only [Json.listDoc, Bool.and_eq_true] at h1 ⊢
      exact ⟨by simp, h1.2⟩) hsub
  have hvals : ∀ h ∈ diffM o a b, JText.HunkVals (LT nc) h := by
    intro h hh
    have hk := (hd h hh).1
    have inpay : ∀ v, v ∈ h.before ++ h.remove ++ h.add ++ h.after → v.isVoid = false → LT nc v := by
      intro v hv hnv
      exact hpay h hh v (List.mem_filter.2 ⟨hv, by simp [hnv]⟩)
    exact ⟨fun v hv hnv => inpay v (by simp [hv]) hnv, fun v hv hnv => inpay v (by simp [hv]) hnv,
      .inl fun v hv => inpay v (by simp [hv]) (hk.remNoVoid v hv),
      .inl fun v hv => inpay v (by simp [hv]) (hk.addNoVoid v hv)⟩
  have hok := JText.renderPatchOps_values er hvals
  obtain ⟨text, t1, t2⟩ := renderPatchM_parse nc _ ops er
    (fun p hp => JText.mOK_of_preOK nc _ (hok p hp).preOK)
  have hnorm : ops.map JText.normOp = ops.map JText.untagOp :=
    JText.map_normOp_untag ops (fun p hp => ⟨(hok p hp).2.2.1, (hok p hp).mSetFree⟩)
  have er2 := CliRTM.renderPatchOps_map_untagHunk er
  have hab2 : ∃ m2, applyStrictAll a ((diffM o a b).map untagHunk) = some m2 ∧
      untag m2 = untag m := by
    have := CliRTM.applyStrictAll_map_untagHunk (diffM o a b) (n := a) (n' := a) rfl
    rw [hm1] at this
    cases h2 : applyStrictAll a ((diffM o a b).map untagHunk) with
    | none => rw [h2] at this; cases this
    | some m2 =>
      rw [h2] at this
      simp only [Option.map_some, Option.some.injEq] at this
      exact ⟨m2, rfl, this⟩
  obtain ⟨m2, hab2, hum⟩ := hab2
  refine ⟨ops, text, m, m2, er, t1, t2, hnorm, er2, hm1, hab2, hum, hm2, hm3, ?_⟩
  intro h hh
  obtain ⟨h0, hh0, rfl⟩ := List.mem_map.1 hh
  exact ⟨hunkOK_untagHunk (hd h0 hh0).1, hunkRange_untagHunk (hd h0 hh0).2⟩

/-- **C09 at the TEXT level, sharp form** (the PATHS of the diff are expressible — exactly the
    condition under which `RenderPatch` succeeds). The text `Diff.RenderPatch()` returns is produced,
    it parses (`parseJson` = `json.Unmarshal`) to a document that the INDEPENDENT decoder
    `Spec.opsOfJson` reads as a list of RFC 6902 operations, each a `test`, `remove` or `add`, and the
    independent evaluator `Spec.eval` turns `a` into a document structurally equal to `b`. -/
theorem patch_text_rfc_of_paths (L : FloatLaws) (nc : NumCodec) (o : Opts)
    (ho : dispatchTag o = .list) (hm : isMerge o = false) (a b : Json)
    (ha : LT nc a) (ha3 : a.finiteNums = true) (hb : LT nc b) (hb3 : b.finiteNums = true)
    {Na Nb : Nat} (la : PRC.lenLe Na a = true) (lb : PRC.lenLe Nb b = true) (hN : Na + Nb < 2 ^ 53)
    (H : HashOK o a b) (Z : ZeroOK a b)
    (hp : ∀ h ∈ diffM o a b, PRC.PE h.path) :
    ∃ text doc sops r,
      renderPatchM nc (diffM o a b) = .ok (some text) ∧
      parseJson nc text = some doc ∧ Spec.opsOfJson doc = some sops ∧
      (∀ op ∈ sops, op.op = "test" ∨ op.op = "remove" ∨ op.op = "add") ∧
      eval a sops = some r ∧ specEq r b = true ∧ specEq b r = true := by
  obtain ⟨ops, text, m, m2, er, t1, t2, hnorm, er2, hm1, hab2, hum, s1, s2, hd2⟩ :=
    patch_text_core L nc o ho hm a b ha ha3 hb hb3 la lb hN H Z hp
  obtain ⟨r, hev, hur⟩ := renderPatchOps_correct L ha.2.1 hd2 hab2 er2
  refine ⟨text, _, _, r, t1, t2, opsOfJson_opDocs ops, ?_, by rw [hnorm]; exact hev, ?_, ?_⟩
  · intro op hop
    rw [hnorm] at hop
    obtain ⟨o', ho', rfl⟩ := List.mem_map.1 hop
    exact renderPatchOps_wfOps er2 o' ho'
  · rw [← specEq_untag_left, hur, hum, specEq_untag_left]; exact s1
  · rw [← specEq_untag_right, hur, hum, specEq_untag_right]; exact s2

/-- **C09 at the TEXT level, closed** (every object key of `a` and `b` expressible as a JSON Pointer
    token: not number-like, not "-") -/
theorem patch_text_rfc (L : FloatLaws) (nc : NumCodec) (o : Opts)
    (ho : dispatchTag o = .list) (hm : isMerge o = false) (a b : Json)
    (ha : LT nc a) (ha3 : a.finiteNums = true) (hb : LT nc b) (hb3 : b.finiteNums = true)
    {Na Nb : Nat} (la : PRC.lenLe Na a = true) (lb : PRC.lenLe Nb b = true) (hN : Na + Nb < 2 ^ 53)
    (H : HashOK o a b) (Z : ZeroOK a b)
    (ka : PRC.keysExpressible a = true) (kb : PRC.keysExpressible b = true) :
    ∃ text doc sops r,
      renderPatchM nc (diffM o a b) = .ok (some text) ∧
      parseJson nc text = some doc ∧ Spec.opsOfJson doc = some sops ∧
      (∀ op ∈ sops, op.op = "test" ∨ op.op = "remove" ∨ op.op = "add") ∧
      eval a sops = some r ∧ specEq r b = true ∧ specEq b r = true :=
  patch_text_rfc_of_paths L nc o ho hm a b ha ha3 hb hb3 la lb hN H Z
    (PRC.diffM_paths_expressible o ho hm a b ha.1 hb.1 ka kb)

/-- REFUSAL at the text level: when some path element of some hunk is not expressible,
    `RenderPatch` returns an error — no text -/
theorem patch_text_refused (nc : NumCodec) {d : Diff} {h : Hunk} (hm : h ∈ d)
    (hb : ∃ e ∈ h.path, ¬ expressible e) : renderPatchM nc d = .err := by
  rw [JText.renderPatchM_eq, PRC.renderPatchOps_refuses hm hb]

end PatchOut

/-! ## 3. JSON Patch (RFC 6902), input: C10 at the text level -/

section PatchIn
open Jd.Robust Jd.DPL Jd.PB

/-! ### 3.1 last sentence: own output, read back from the TEXT and applied -/

/-- **C10, last sentence, at the TEXT level** (sharp form: the paths of the diff are expressible):
    `Diff.RenderPatch()` returns a text, `ReadPatchString` reads it, `a.Patch` of the diff read
    succeeds with a list document structurally equal to `b` -/
theorem patch_text_readback_of_paths (L : FloatLaws) (F : FloatEq0) (nc : NumCodec) (o : Opts)
    (ho : dispatchTag o = .list) (hm : isMerge o = false) (a b : Json)
    (ha : LT nc a) (ha3 : a.finiteNums = true) (ha5 : Own.elemsRaw a = true)
    (hb : LT nc b) (hb3 : b.finiteNums = true)
    {Na Nb : Nat} (la : PRC.lenLe Na a = true) (lb : PRC.lenLe Nb b = true) (hN : Na + Nb < 2 ^ 53)
    (H : HashOK o a b) (Z : ZeroOK a b)
    (hp : ∀ h ∈ diffM o a b, PRC.PE h.path) :
    ∃ text d' r, renderPatchM nc (diffM o a b) = .ok (some text) ∧
      readPatchM nc text = .ok d' ∧ patchM a d' = .ok r ∧
      specEq r b = true ∧ specEq b r = true ∧ r.listDoc = true ∧
      (PrecMono o → equivB o r b = true ∧ equals o r b = true) := by
  obtain ⟨ops, text, m, m2, er, t1, t2, hnorm, er2, hm1, hab2, hum, s1, s2, _⟩ :=
    patch_text_core L nc o ho hm a b ha ha3 hb hb3 la lb hN H Z hp
  obtain ⟨ha1, ha2, hav, haN⟩ := ha
  obtain ⟨hb1, hb2, hbv, hbN⟩ := hb
  have ha4 := CliRTM.vfree_of_voidFree a hav
  have hb4 := CliRTM.vfree_of_voidFree b hbv
  have hv : (a.isObj && b.isVoid) = false := by
    rw [V1T.voidFree_notVoid hbv]; simp
  obtain ⟨g1, g2, g3⟩ := Own.diffM_in_grammar_of_paths o ho hm a b ha1 ha2 ha3 ha4 ha5 hb1 hb2 hb4 F
    la lb hN hv hp
  obtain ⟨m', hm1', _, _, _, hm5⟩ := DPL.diffM_list_correct L o ho hm a b ha1 ha2 ha3
    (PRC.memOK_of_vfree a ha4) hb1 hb2 hb3 (PRC.memOK_of_vfree b hb4) H Z
  have hmm : m' = m := by rw [hm1] at hm1'; injection hm1' with e; exact e.symm
  subst hmm
  obtain ⟨hread, r, hP, hu, hrl⟩ := Own.parse_back_of_grammar L F (CliRTM.PBwf_map_untagHunk g1)
    (CliRTM.all_jdShaped_map_untagHunk g2) (CliRTM.all_hunkListDoc_map_untagHunk _) er2 ha1 hab2
  rw [hum] at hu
  have hrd : readPatchM nc text = readPatchOps (ops.map JText.untagOp) := by
    simp only [readPatchM, t2, readPatchDoc, patchOpsOfJson, JText.patchOpsOfJson_go_opDocs, hnorm]
  refine ⟨text, _, r, t1, hrd.trans hread, hP, ?_, ?_, hrl, fun hpm => ?_⟩
  · rw [← specEq_untag_left, hu, specEq_untag_left]; exact s1
  · rw [← specEq_untag_right, hu, specEq_untag_right]; exact s2
  · have e : equivB o r b = true := by
      rw [← equivB_untag_left o ho, hu, equivB_untag_left o ho]; exact (hm5 hpm).1
    exact ⟨e, by rw [equals_eq_equivB_list o ho r b hrl hb1]; exact e⟩

/-- **C10, last sentence, at the TEXT level, closed** (all object keys expressible) -/
theorem patch_text_readback (L : FloatLaws) (F : FloatEq0) (nc : NumCodec) (o : Opts)
    (ho : dispatchTag o = .list) (hm : isMerge o = false) (a b : Json)
    (ha : LT nc a) (ha3 : a.finiteNums = true) (ha5 : Own.elemsRaw a = true)
    (hb : LT nc b) (hb3 : b.finiteNums = true)
    {Na Nb : Nat} (la : PRC.lenLe Na a = true) (lb : PRC.lenLe Nb b = true) (hN : Na + Nb < 2 ^ 53)
    (H : HashOK o a b) (Z : ZeroOK a b)
    (ka : PRC.keysExpressible a = true) (kb : PRC.keysExpressible b = true) :
    ∃ text d' r, renderPatchM nc (diffM o a b) = .ok (some text) ∧
      readPatchM nc text = .ok d' ∧ patchM a d' = .ok r ∧
      specEq r b = true ∧ specEq b r = true ∧ r.listDoc = true ∧
      (PrecMono o → equivB o r b = true ∧ equals o r b = true) :=
  patch_text_readback_of_paths L F nc o ho hm a b ha ha3 ha5 hb hb3 la lb hN H Z
    (PRC.diffM_paths_expressible o ho hm a b ha.1 hb.1 ka kb)

/-! ### 3.2 the two decoders of a parsed patch document -/

/-- `ReadPatchString` succeeded: the text is JSON, the library's decoder (`patchOpsOfJson`, the model of
    `json.Unmarshal` into `[]patchElement`) accepts the parsed document, and the element loop with the
    context check reads the operations -/
theorem readPatchM_inv {nc : NumCodec} {s : String} {d : Diff} (h : readPatchM nc s = .ok d) :
    ∃ doc ops, parseJson nc s = some doc ∧ patchOpsOfJson doc = .ok ops ∧ readPatchOps ops = .ok d := by
  unfold readPatchM at h
  cases hd : parseJson nc s with
  | none => rw [hd] at h; cases h
  | some doc =>
    rw [hd] at h
    obtain ⟨ops, h1, h2⟩ := NMP.readPatchDoc_ok h
    exact ⟨doc, ops, rfl, h1, h2⟩

/-- an operation of the independent decoder and one of the library's decoder carry the same `op`,
    `path` and `value` (the independent one also has the `from` member of `move` / `copy`) -/
def OpRel (s : Spec.Op) (p : PatchOp) : Prop := s.op = p.op ∧ s.path = p.path ∧ s.value = p.value

/-- the element decoder of `Spec.opsOfJson` -/
def specElem (e : Json) : Option Spec.Op :=
  match e with
  | .obj kvs =>
    match alookup "op" kvs, alookup "path" kvs with
    | some (.str op), some (.str path) =>
      let from_ := match alookup "from" kvs with | some (.str f) => f | _ => ""
      let needsValue := op == "add" || op == "replace" || op == "test"
      match alookup "value" kvs with
      | some v => some { op, path, from_, value := v }
      | none => if needsValue then none else some { op, path, from_ }
    | _, _ => none
  | _ => none

theorem opsOfJson_arr (t : Tag) (xs : List Json) : Spec.opsOfJson (.arr t xs) = xs.mapM specElem := rfl

theorem strField_inv {kvs : List (String × Json)} {k s : String}
    (h : patchOpsOfJson.strField kvs k = .ok s) : alookup k kvs = some (.str s) := by
  unfold patchOpsOfJson.strField at h
  split at h
  · rename_i s' h0; cases h; exact h0
  · cases h

/-- what the library's decoder (after the repair D31) accepts, element by element: an object with
    string `op` and `path` members; the value is the `value` member, or `null` when there is none and
    the operation is neither `add` nor `test` -/
theorem go_cons_inv {e : Json} {r : List Json} {ops : List PatchOp}
    (h : patchOpsOfJson.go (e :: r) = .ok ops) :
    ∃ rest kvs op path value, patchOpsOfJson.go r = .ok rest ∧ e = .obj kvs ∧
      alookup "op" kvs = some (.str op) ∧ alookup "path" kvs = some (.str path) ∧
      (alookup "value" kvs = some value ∨
        (alookup "value" kvs = none ∧ value = .null ∧ (op == "add" || op == "test") = false)) ∧
      ops = { op := op, path := path, value := value } :: rest := by
  cases e with
  | obj kvs =>
    simp only [patchOpsOfJson.go] at h
    cases ha : patchOpsOfJson.strField kvs "op" with
    | ok op =>
      cases hb : patchOpsOfJson.strField kvs "path" with
      | ok path =>
        rw [ha, hb] at h
        simp only [Outcome.bind_ok] at h
        cases hv : patchOpsOfJson.valueField kvs op with
        | ok value =>
          cases hr : patchOpsOfJson.go r with
          | ok rest =>
            rw [hv, hr] at h
            simp only [Outcome.bind_ok] at h
            cases h
            refine ⟨rest, kvs, op, path, value, rfl, rfl, strField_inv ha, strField_inv hb, ?_, rfl⟩
            unfold patchOpsOfJson.valueField at hv
            cases hk : alookup "value" kvs with
            | some v => rw [hk] at hv; simp only at hv; cases hv; exact .inl rfl
            | none =>
              rw [hk] at hv
              simp only at hv
              split at hv
              · cases hv
              · rename_i hn; cases hv; exact .inr ⟨rfl, rfl, by simpa using hn⟩
          | err => rw [hv, hr] at h; cases h
          | panic => rw [hv, hr] at h; cases h
        | err => rw [hv] at h; cases h
        | panic => rw [hv] at h; cases h
      | err => rw [ha, hb] at h; cases h
      | panic => rw [ha, hb] at h; cases h
    | err => rw [ha] at h; cases h
    | panic => rw [ha] at h; cases h
  | _ => simp [patchOpsOfJson.go] at h

theorem specElem_go {e : Json} {r : List Json} {ops : List PatchOp} {s : Spec.Op}
    (h1 : patchOpsOfJson.go (e :: r) = .ok ops) (h2 : specElem e = some s) :
    ∃ p rest, ops = p :: rest ∧ patchOpsOfJson.go r = .ok rest ∧ OpRel s p := by
  obtain ⟨rest, kvs, op, path, value, hr, rfl, hop, hpa, hva, rfl⟩ := go_cons_inv h1
  refine ⟨_, rest, rfl, hr, ?_⟩
  simp only [specElem, hop, hpa] at h2
  rcases hva with hva | ⟨hva, rfl, hn⟩
  · simp only [hva, Option.some.injEq] at h2
    subst h2
    exact ⟨rfl, rfl, rfl⟩
  · simp only [hva] at h2
    split at h2
    · cases h2
    · simp only [Option.some.injEq] at h2
      subst h2
      exact ⟨rfl, rfl, rfl⟩

/-- **the repaired decoder accepts nothing RFC 6902 rejects, element by element** — except a
    `replace` without `value` (which the element loop of `ReadPatchString` then refuses, like every
    `replace`): the independent element decoder reads the same `op`, `path`, `value` -/
theorem specElem_of_go {e : Json} {r : List Json} {p : PatchOp} {rest : List PatchOp}
    (h1 : patchOpsOfJson.go (e :: r) = .ok (p :: rest)) (hne : p.op ≠ "replace") :
    ∃ s, specElem e = some s ∧ OpRel s p ∧ patchOpsOfJson.go r = .ok rest := by
  obtain ⟨rest', kvs, op, path, value, hr, rfl, hop, hpa, hva, hcons⟩ := go_cons_inv h1
  injection hcons with hp hrest
  subst hp; subst hrest
  rcases hva with hva | ⟨hva, rfl, hn⟩
  · exact ⟨{ op := op, path := path,
             from_ := (match alookup "from" kvs with | some (.str f) => f | _ => ""), value := value },
      by simp only [specElem, hop, hpa, hva], ⟨rfl, rfl, rfl⟩, hr⟩
  · have hnv : (op == "add" || op == "replace" || op == "test") = false := by
      simp only [Bool.or_eq_false_iff, beq_eq_false_iff_ne, ne_eq] at hn ⊢
      exact ⟨⟨hn.1, hne⟩, hn.2⟩
    exact ⟨{ op := op, path := path,
             from_ := (match alookup "from" kvs with | some (.str f) => f | _ => "") },
      by simp only [specElem, hop, hpa, hva, hnv]; rfl, ⟨rfl, rfl, rfl⟩, hr⟩

theorem mapM_specElem_of_go : ∀ {xs : List Json} {ops : List PatchOp},
    patchOpsOfJson.go xs = .ok ops → (∀ o ∈ ops, o.op ≠ "replace") →
    ∃ sops, xs.mapM specElem = some sops ∧ List.Forall₂ OpRel sops ops
  | [], ops, h1, _ => by
    simp only [patchOpsOfJson.go, Outcome.ok.injEq] at h1
    subst h1
    exact ⟨[], rfl, .nil⟩
  | e :: r, ops, h1, hne => by
    obtain ⟨rest, kvs, op, path, value, hr, he, _, _, _, hops⟩ := go_cons_inv h1
    subst hops
    obtain ⟨s, hs, hrel, hr'⟩ := specElem_of_go h1 (hne _ (by simp))
    obtain ⟨srest, hm, hf⟩ := mapM_specElem_of_go hr' (fun q hq => hne q (List.mem_cons_of_mem _ hq))
    refine ⟨s :: srest, ?_, .cons hrel hf⟩
    rw [List.mapM_cons, hs, hm]; rfl

theorem opsOfJson_go : ∀ {xs : List Json} {ops : List PatchOp} {sops : List Spec.Op},
    patchOpsOfJson.go xs = .ok ops → xs.mapM specElem = some sops → List.Forall₂ OpRel sops ops
  | [], ops, sops, h1, h2 => by
    simp only [patchOpsOfJson.go, Outcome.ok.injEq] at h1
    simp only [List.mapM_nil, Option.pure_def, Option.some.injEq] at h2
    subst h1; subst h2; exact .nil
  | e :: r, ops, sops, h1, h2 => by
    rw [List.mapM_cons] at h2
    simp only [Option.bind_eq_bind, Option.bind_eq_some_iff, Option.pure_def, Option.some.injEq] at h2
    obtain ⟨s, hs, srest, hm, rfl⟩ := h2
    obtain ⟨p, rest, rfl, hr, hrel⟩ := specElem_go h1 hs
    exact .cons hrel (opsOfJson_go hr hm)

/-- **the two decoders agree where both accept**: the operations of the independent decoder carry
    the `op`, `path` and `value` of the library's -/
theorem opsOfJson_lib {doc : Json} {ops : List PatchOp} {sops : List Spec.Op}
    (h1 : patchOpsOfJson doc = .ok ops) (h2 : Spec.opsOfJson doc = some sops) :
    List.Forall₂ OpRel sops ops := by
  cases doc with
  | arr t xs => exact opsOfJson_go (by simpa [patchOpsOfJson] using h1) (by rwa [opsOfJson_arr] at h2)
  | _ => simp [Spec.opsOfJson] at h2

/-! ### 3.3 never more permissive, from the TEXT -/

/-- RFC 6902 evaluation of a `test` / `remove` / `add` does not look at the `from` member -/
theorem evalOp_rel {s : Spec.Op} {p : PatchOp} (h : OpRel s p) (hw : p.wfOp) (n : Json) :
    evalOp n s = evalOp n p.toSpec := by
  obtain ⟨h1, h2, h3⟩ := h
  have e : s = { p.toSpec with from_ := s.from_ } := by
    cases s; simp_all [PatchOp.toSpec]
  rw [e]
  unfold evalOp
  rcases hw with hw | hw | hw <;> simp [PatchOp.toSpec, hw]

theorem eval_rel : ∀ {sops : List Spec.Op} {ops : List PatchOp}, List.Forall₂ OpRel sops ops →
    (∀ p ∈ ops, p.wfOp) → ∀ n : Json, eval n sops = eval n (ops.map PatchOp.toSpec)
  | _, _, .nil, _, n => rfl
  | _, _, .cons (a := s) (b := p) hab hr, hw, n => by
    simp only [List.map_cons, eval, evalOp_rel hab (hw p (by simp))]
    cases evalOp n p.toSpec with
    | none => rfl
    | some n' => exact eval_rel hr (fun q hq => hw q (List.mem_cons_of_mem _ hq)) n'

theorem ctxOpsW_wf {W : Path → Outcome String} {h : Hunk} {ctx : List Json} {f : Int → Int}
    {bo : List PatchOp} (e : ctxOpsW W h ctx f = .ok bo) : ∀ o ∈ bo, o.wfOp := by
  intro o ho
  rcases ctxOpsW_ok e with ⟨rfl, _⟩ | ⟨b, i, pp, _, _, _, _, rfl⟩
  · cases ho
  · simp only [List.mem_singleton] at ho; subst ho; exact Or.inl rfl

theorem renderPatchHunkW_wfOps {W : Path → Outcome String} {h : Hunk} {ops : List PatchOp}
    (e : renderPatchHunkW W h = .ok ops) : ∀ o ∈ ops, o.wfOp := by
  obtain ⟨s, bo, ao, _, _, _, _, hb, ha, rfl⟩ := renderPatchHunkW_ok e
  intro o ho
  simp only [List.mem_append] at ho
  rcases ho with ((ho | ho) | ho) | ho
  · exact ctxOpsW_wf hb o ho
  · exact ctxOpsW_wf ha o ho
  · exact remOpsOf_wf s _ o ho
  · exact addOpsOf_wf s _ o ho

theorem rerenderHunk_wfOps {h : Hunk} {ops : List PatchOp} (e : NMP.rerenderHunk h = .ok ops) :
    ∀ o ∈ ops, o.wfOp := by
  unfold NMP.rerenderHunk at e
  split at e
  · cases hw : NMP.wpL h.path with
    | ok s =>
      rw [hw] at e
      simp only [Outcome.ok.injEq] at e
      subst e
      intro o ho
      obtain ⟨v, _, rfl⟩ := List.mem_map.1 ho
      exact .inr (.inr rfl)
    | err => rw [hw] at e; cases e
    | panic => rw [hw] at e; cases e
  · exact renderPatchHunkW_wfOps e

theorem rerender_wfOps : ∀ {d : Diff} {ops : List PatchOp}, NMP.rerender d = .ok ops →
    ∀ o ∈ ops, o.wfOp
  | [], ops, e => by
    simp only [NMP.rerender, Outcome.ok.injEq] at e
    subst e; intro o ho; cases ho
  | h :: d, ops, e => by
    simp only [NMP.rerender] at e
    cases h1 : NMP.rerenderHunk h with
    | ok a =>
      cases h2 : NMP.rerender d with
      | ok b =>
        rw [h1, h2] at e
        simp only [Outcome.ok.injEq] at e
        subst e
        intro o ho
        rcases List.mem_append.1 ho with ho | ho
        · exact rerenderHunk_wfOps h1 o ho
        · exact rerender_wfOps h2 o ho
      | err => rw [h1, h2] at e; cases e
      | panic => rw [h1, h2] at e; cases e
    | err => rw [h1] at e; cases e
    | panic => rw [h1] at e; cases e

theorem forall₂_opSim_wfOps : ∀ {l l' : List PatchOp}, List.Forall₂ NMP.OpSim l l' →
    (∀ o ∈ l, o.wfOp) → ∀ o ∈ l', o.wfOp
  | _, _, .nil, _, o, ho => by cases ho
  | _, _, .cons (a := a) (b := b) hab hr, hw, o, ho => by
    rcases List.mem_cons.1 ho with rfl | ho
    · have := hw a (by simp)
      unfold PatchOp.wfOp at this ⊢
      rw [← hab.1]; exact this
    · exact forall₂_opSim_wfOps hr (fun q hq => hw q (List.mem_cons_of_mem _ hq)) o ho

theorem forall₂_rel_paths {P : String → Prop} : ∀ {sops : List Spec.Op} {ops : List PatchOp},
    List.Forall₂ OpRel sops ops → (∀ o ∈ sops, P o.path) → ∀ o ∈ ops, P o.path
  | _, _, .nil, _, o, ho => by cases ho
  | _, _, .cons (a := a) (b := b) hab hr, hw, o, ho => by
    rcases List.mem_cons.1 ho with rfl | ho
    · rw [← hab.2.1]; exact hw a (by simp)
    · exact forall₂_rel_paths hr (fun q hq => hw q (List.mem_cons_of_mem _ hq)) o ho

/-- every operation of a list that `ReadPatchString` accepts and whose diff applies somewhere is a
    `test`, a `remove` or an `add` (index tokens below 2^53; no hypothesis on the spelling of the
    pointers since the repair D30) -/
theorem accepted_ops_wfOps (F : FloatEq0) {ops : List PatchOp} {d : Diff} {t r : Json}
    (hl : t.listDoc = true) (hv : ∀ o ∈ ops, NMP.valueOK o.value = true)
    (hc : ∀ o ∈ ops, NMP.idxTokensOK o.path = true) (hread : readPatchOps ops = .ok d)
    (hp : patchM t d = .ok r) : ∀ o ∈ ops, o.wfOp := by
  have hloop := NMP.readPatchOps_loop hread
  have hR := NMP.readPatchLoop_props _ ops [] d hloop hv (by simp)
  have hd : d.all (fun h => !h.merge && strictPath h.path && hunkListDoc h) = true :=
    List.all_eq_true.2 (fun h hm => NMP.readHunk_strictOK (hR h hm))
  obtain ⟨m, hm, _⟩ := strictAll_result true t d hd hl r hp
  obtain ⟨ops', h1, h2⟩ := NMP.readPatchOps_faithful_all_pointers F
    (fun o ho => NMP.valueOK_not_void (hv o ho)) hc hread (NMP.applyStrictAll_append_remove d hm)
  exact forall₂_opSim_wfOps h2 (rerender_wfOps h1)

theorem wfOp_ne_replace {o : PatchOp} (h : o.wfOp) : o.op ≠ "replace" := by
  unfold PatchOp.wfOp at h
  rcases h with h | h | h <;> rw [h] <;> decide

/-- **the repaired decoder against the independent one, whole document**: whatever the library's
    decoder accepts as operations none of which is a `replace`, the independent RFC 6902 decoder
    accepts too, with the same `op`, `path`, `value` for every operation. (A `replace` WITHOUT `value`
    passes the library's decoder — it asks for `value` on `add` and `test` only — and not the
    independent one; the element loop refuses every `replace`: `accepted_ops_wfOps`.) -/
theorem opsOfJson_of_lib {doc : Json} {ops : List PatchOp}
    (h1 : patchOpsOfJson doc = .ok ops) (hne : ∀ o ∈ ops, o.op ≠ "replace") :
    ∃ sops, Spec.opsOfJson doc = some sops ∧ List.Forall₂ OpRel sops ops := by
  cases doc with
  | arr t xs =>
    obtain ⟨sops, h2, hf⟩ := mapM_specElem_of_go (by simpa [patchOpsOfJson] using h1) hne
    exact ⟨sops, by rw [opsOfJson_arr]; exact h2, hf⟩
  | _ => simp [patchOpsOfJson] at h1

/-- the only parsed documents the repaired library decoder accepts and the independent decoder
    rejects hold a `replace` operation -/
theorem lib_accepts_rfc_rejects {doc : Json} {ops : List PatchOp}
    (h1 : patchOpsOfJson doc = .ok ops) (h2 : Spec.opsOfJson doc = none) :
    ∃ o ∈ ops, o.op = "replace" := by
  apply Classical.byContradiction
  intro hn
  obtain ⟨sops, h3, _⟩ := opsOfJson_of_lib h1 (fun o ho he => hn ⟨o, ho, he⟩)
  rw [h2] at h3; cases h3

/-- the index tokens of the `path` members of a parsed patch document are below 2^53 (the range in
    which the model's `int → float64` conversion of an index is exact); a predicate on the parsed
    TEXT, no decoder involved -/
def elemIdxOK (e : Json) : Bool :=
  match e with
  | .obj kvs =>
    (match alookup "path" kvs with
     | some (.str p) => NMP.idxTokensOK p
     | _ => true)
  | _ => true

def docIdxOK : Json → Bool
  | .arr _ xs => xs.all elemIdxOK
  | _ => true

theorem go_idxOK : ∀ {xs : List Json} {ops : List PatchOp}, patchOpsOfJson.go xs = .ok ops →
    xs.all elemIdxOK = true → ∀ o ∈ ops, NMP.idxTokensOK o.path = true
  | [], ops, h, _ => by
    simp only [patchOpsOfJson.go, Outcome.ok.injEq] at h
    subst h; intro o ho; cases ho
  | e :: r, ops, h, hx => by
    obtain ⟨rest, kvs, op, path, value, hr, rfl, _, hpa, _, rfl⟩ := go_cons_inv h
    simp only [List.all_cons, Bool.and_eq_true] at hx
    intro o ho
    rcases List.mem_cons.1 ho with rfl | ho
    · have := hx.1
      simp only [elemIdxOK, hpa] at this
      exact this
    · exact go_idxOK hr hx.2 o ho

theorem patchOpsOfJson_idxOK {doc : Json} {ops : List PatchOp} (h : patchOpsOfJson doc = .ok ops)
    (hx : docIdxOK doc = true) : ∀ o ∈ ops, NMP.idxTokensOK o.path = true := by
  cases doc with
  | arr t xs => exact go_idxOK (by simpa [patchOpsOfJson] using h) (by simpa [docIdxOK] using hx)
  | _ => simp [patchOpsOfJson] at h

/-- **C10 at the TEXT level, FULL statement: never more permissive than RFC 6902, never different.**
    For EVERY text `s` that `ReadPatchString` accepts (reading the diff `d`) and every list document
    `t` with unique sorted keys: if `t.Patch(d)` succeeds with `r`, then the text is a JSON text, the
    INDEPENDENT decoder reads the parsed text as RFC 6902 operations `sops` (an array of objects with
    string `op`, `path` and a `value` where the operation needs one), and the independent evaluator
    applies `sops` to `t` with the same result (up to the Go type of array nodes). NO hypothesis on
    the independent decoder and none on the spelling of the pointers; `hidx`, `hafter`: the array
    indices involved are below 2^53. -/
theorem patch_text_rfc6902 (L : FloatLaws) (F : FloatEq0) {nc : NumCodec} {s : String}
    {d : Diff} {t r : Json} (hw : t.wf = true) (hl : t.listDoc = true)
    (hread : readPatchM nc s = .ok d) (hp : patchM t d = .ok r)
    (hidx : ∀ doc, parseJson nc s = some doc → docIdxOK doc = true)
    (hafter : ∀ h ∈ d, ∀ i, lastIdx? h.path = some i → i + (h.remove.length : Int) < 2 ^ 53) :
    ∃ doc sops r', parseJson nc s = some doc ∧ Spec.opsOfJson doc = some sops ∧
      eval t sops = some r' ∧ untag r' = untag r := by
  obtain ⟨doc, ops, hdoc, ho, hro⟩ := readPatchM_inv hread
  obtain ⟨hraw, hdw, hdv⟩ := parseJson_shape hdoc
  have hv := NMP.patchOpsOfJson_values ho hdw (rawDoc_listDoc _ hraw) hdv
  have hc := patchOpsOfJson_idxOK ho (hidx doc hdoc)
  have hwf := accepted_ops_wfOps F hl hv hc hro hp
  obtain ⟨sops, hs, hrel⟩ := opsOfJson_of_lib ho (fun o ho => wfOp_ne_replace (hwf o ho))
  obtain ⟨r', h1, h2⟩ := NMP.readPatchOps_never_more_permissive_all_pointers_min L F hw hl hv hc hro
    hafter hp
  exact ⟨doc, sops, r', hdoc, hs, by rw [eval_rel hrel hwf]; exact h1, h2⟩

theorem forall₂_rel_wfOps : ∀ {sops : List Spec.Op} {ops : List PatchOp},
    List.Forall₂ OpRel sops ops → (∀ p ∈ ops, p.wfOp) →
    ∀ o ∈ sops, o.op = "test" ∨ o.op = "remove" ∨ o.op = "add"
  | _, _, .nil, _, o, ho => by cases ho
  | _, _, .cons (a := a) (b := b) hab hr, hw, o, ho => by
    rcases List.mem_cons.1 ho with rfl | ho
    · have := hw b (by simp)
      unfold PatchOp.wfOp at this
      rw [hab.1]; exact this
    · exact forall₂_rel_wfOps hr (fun q hq => hw q (List.mem_cons_of_mem _ hq)) o ho

/-- the accepted operations themselves: every operation of a text that is accepted and applied is a
    `test`, a `remove` or an `add`, for the independent decoder too -/
theorem patch_text_ops_shape (F : FloatEq0) {nc : NumCodec} {s : String}
    {d : Diff} {t r : Json} (hl : t.listDoc = true)
    (hread : readPatchM nc s = .ok d) (hp : patchM t d = .ok r)
    (hidx : ∀ doc, parseJson nc s = some doc → docIdxOK doc = true) :
    ∃ doc sops, parseJson nc s = some doc ∧ Spec.opsOfJson doc = some sops ∧
      ∀ o ∈ sops, o.op = "test" ∨ o.op = "remove" ∨ o.op = "add" := by
  obtain ⟨doc, ops, hdoc, ho, hro⟩ := readPatchM_inv hread
  obtain ⟨hraw, hdw, hdv⟩ := parseJson_shape hdoc
  have hv := NMP.patchOpsOfJson_values ho hdw (rawDoc_listDoc _ hraw) hdv
  have hc := patchOpsOfJson_idxOK ho (hidx doc hdoc)
  have hwf := accepted_ops_wfOps F hl hv hc hro hp
  obtain ⟨sops, hs, hrel⟩ := opsOfJson_of_lib ho (fun o ho => wfOp_ne_replace (hwf o ho))
  exact ⟨doc, sops, hdoc, hs, forall₂_rel_wfOps hrel hwf⟩

/-- the form with the independent decoding GIVEN (the hypothesis on the index tokens then speaks of
    the independent decoder's operations) -/
theorem patch_text_never_more_permissive (L : FloatLaws) (F : FloatEq0) {nc : NumCodec} {s : String}
    {d : Diff} {t r doc : Json} {sops : List Spec.Op} (hw : t.wf = true) (hl : t.listDoc = true)
    (hread : readPatchM nc s = .ok d) (hp : patchM t d = .ok r)
    (hdoc : parseJson nc s = some doc) (hs : Spec.opsOfJson doc = some sops)
    (hc : ∀ o ∈ sops, NMP.idxTokensOK o.path = true)
    (hafter : ∀ h ∈ d, ∀ i, lastIdx? h.path = some i → i + (h.remove.length : Int) < 2 ^ 53) :
    ∃ r', eval t sops = some r' ∧ untag r' = untag r := by
  obtain ⟨doc', ops, hd', ho, hro⟩ := readPatchM_inv hread
  rw [hdoc] at hd'; cases hd'
  obtain ⟨hraw, hdw, hdv⟩ := parseJson_shape hdoc
  have hrel := opsOfJson_lib ho hs
  have hv := NMP.patchOpsOfJson_values ho hdw (rawDoc_listDoc _ hraw) hdv
  have hc' : ∀ o ∈ ops, NMP.idxTokensOK o.path = true :=
    forall₂_rel_paths (P := fun p => NMP.idxTokensOK p = true) hrel hc
  have hwf := accepted_ops_wfOps F hl hv hc' hro hp
  obtain ⟨r', h1, h2⟩ := NMP.readPatchOps_never_more_permissive_all_pointers_min L F hw hl hv hc' hro
    hafter hp
  exact ⟨r', by rw [eval_rel hrel hwf]; exact h1, h2⟩

/-! ### 3.4 REGRESSIONS of D31: the malformed patch documents the decoder used to accept -/

namespace Witness
open Jd.NMP

theorem parse_null (nc : NumCodec) : parseJson nc "null" = some .null := by
  simp [parseJson, parseValue, skipWs, isJsonWs]

/-- W1 (fixed): the text `null` is NOT a patch document (RFC 6902 §3: a JSON Patch document is an
    array); before the repair it was read as the empty patch. Every codec. -/
theorem null_text_rejected (nc : NumCodec) :
    readPatchM nc "null" = .err ∧ parseJson nc "null" = some .null ∧ Spec.opsOfJson .null = none := by
  refine ⟨?_, parse_null nc, rfl⟩
  simp [readPatchM, parse_null, readPatchDoc, patchOpsOfJson]

def text2 : String := "[{\"op\":\"add\",\"path\":\"/k\"}]"
def doc2 : Json := .arr .raw [.obj [("op", .str "add"), ("path", .str "/k")]]

theorem parse2 (nc : NumCodec) : parseJson nc text2 = some doc2 := by
  simp [text2, doc2, parseJson, parseValue, skipWs, isJsonWs, parseElems, parseMembers, lexString, ainsert]
theorem ops2 : patchOpsOfJson doc2 = .err := by
  simp [doc2, patchOpsOfJson, patchOpsOfJson.go, patchOpsOfJson.strField, patchOpsOfJson.valueField,
    alookup]

/-- W2 (fixed): `[{"op":"add","path":"/k"}]` — an `add` WITHOUT a `value` member (RFC 6902 §4.1: the
    operation object MUST contain a "value" member) is rejected; before the repair it was read as
    `add /k null`. Every codec. -/
theorem add_without_value_rejected (nc : NumCodec) :
    readPatchM nc text2 = .err ∧ parseJson nc text2 = some doc2 ∧ Spec.opsOfJson doc2 = none := by
  refine ⟨?_, parse2 nc, by simp [doc2, Spec.opsOfJson, alookup]⟩
  simp only [readPatchM, parse2, readPatchDoc, ops2]

def text2n : String := "[{\"op\":\"add\",\"path\":\"/k\",\"value\":null}]"
def doc2n : Json := .arr .raw [.obj [("op", .str "add"), ("path", .str "/k"), ("value", .null)]]
def diff2 : Diff := [{ path := [.key "k"], add := [.null] }]

theorem parse2n (nc : NumCodec) : parseJson nc text2n = some doc2n := by
  simp [text2n, doc2n, parseJson, parseValue, skipWs, isJsonWs, parseElems, parseMembers, lexString, ainsert]
theorem ops2n : patchOpsOfJson doc2n = .ok [adp "/k" .null] := by
  simp [doc2n, patchOpsOfJson, patchOpsOfJson.go, patchOpsOfJson.strField, patchOpsOfJson.valueField,
    alookup, adp]
  rfl
theorem read2 : readPatchOps [adp "/k" .null] = .ok diff2 := by
  simp [readPatchOps, diff2, readPatchLoop, readPatchHunk, rp_k, lastIdx?, adp, readPatchCtxLoop, ctxOf,
    checkPatchCtxs, checkPatchCtx]
theorem patch2 : ∃ r, patchM (.obj []) diff2 = .ok r ∧ untag r = .obj [("k", .null)] := by
  have : applyStrictAll (.obj []) diff2 = some (.obj [("k", .null)]) := by
    simp [applyStrictAll, applyStrict, diff2, alookup, specEq, equivB, single, Json.singleValue,
      Json.isVoid, ainsert]
  obtain ⟨r, h1, h2⟩ := patchM_of_ref (by decide) (by decide) this
  exact ⟨r, h1, by rw [h2]; simp [untag, untagKvs]⟩

/-- a `value` member holding `null` IS a value: `[{"op":"add","path":"/k","value":null}]` is still
    accepted, by both decoders, and applied to `{}` gives `{"k":null}` -/
theorem add_null_value_accepted (nc : NumCodec) :
    readPatchM nc text2n = .ok diff2 ∧
    (∃ r, patchM (.obj []) diff2 = .ok r ∧ untag r = .obj [("k", .null)]) ∧
    parseJson nc text2n = some doc2n ∧
    Spec.opsOfJson doc2n = some [{ op := "add", path := "/k", value := .null }] := by
  refine ⟨?_, patch2, parse2n nc, by simp [doc2n, Spec.opsOfJson, alookup]⟩
  simp only [readPatchM, parse2n, readPatchDoc, ops2n, read2]

def text3 : String := "[{\"op\":\"add\",\"value\":\"x\"}]"
def doc3 : Json := .arr .raw [.obj [("op", .str "add"), ("value", .str "x")]]

theorem parse3 (nc : NumCodec) : parseJson nc text3 = some doc3 := by
  simp [text3, doc3, parseJson, parseValue, skipWs, isJsonWs, parseElems, parseMembers, lexString, ainsert]
theorem ops3 : patchOpsOfJson doc3 = .err := by
  simp [doc3, patchOpsOfJson, patchOpsOfJson.go, patchOpsOfJson.strField, alookup]

/-- W3 (fixed): `[{"op":"add","value":"x"}]` — an operation WITHOUT a `path` member (RFC 6902 §4:
    MUST have exactly one "path" member) is rejected; before the repair it was read as an `add` at
    the root pointer "". Every codec. -/
theorem op_without_path_rejected (nc : NumCodec) :
    readPatchM nc text3 = .err ∧ parseJson nc text3 = some doc3 ∧ Spec.opsOfJson doc3 = none := by
  refine ⟨?_, parse3 nc, by simp [doc3, Spec.opsOfJson, alookup]⟩
  simp only [readPatchM, parse3, readPatchDoc, ops3]

/-- member names are matched EXACTLY (encoding/json's case-insensitive struct decoding is gone):
    the parsed document of `[{"OP":"add","Path":"/a","VALUE":null}]` is rejected by both decoders -/
theorem other_case_names_rejected :
    patchOpsOfJson (.arr .raw [.obj [("OP", .str "add"), ("Path", .str "/a"), ("VALUE", .null)]]) = .err ∧
    Spec.opsOfJson (.arr .raw [.obj [("OP", .str "add"), ("Path", .str "/a"), ("VALUE", .null)]]) = none := by
  refine ⟨?_, by simp [Spec.opsOfJson, alookup]⟩
  simp [patchOpsOfJson, patchOpsOfJson.go, patchOpsOfJson.strField, alookup]

/-- a `Value` member next to the exact `value` is ignored by both decoders -/
theorem other_case_member_ignored :
    patchOpsOfJson (.arr .raw [.obj [("Value", .str "B"), ("op", .str "add"), ("path", .str "/k"),
      ("value", .str "a")]]) = .ok [adp "/k" (.str "a")] ∧
    Spec.opsOfJson (.arr .raw [.obj [("Value", .str "B"), ("op", .str "add"), ("path", .str "/k"),
      ("value", .str "a")]]) = some [{ op := "add", path := "/k", value := .str "a" }] := by
  refine ⟨?_, by simp [Spec.opsOfJson, alookup]⟩
  simp [patchOpsOfJson, patchOpsOfJson.go, patchOpsOfJson.strField, patchOpsOfJson.valueField,
    alookup, adp]
  rfl

/-- the one shape the library's decoder lets through and the independent decoder does not: a
    `replace` without `value` (then refused by the element loop, like every `replace`) -/
theorem replace_without_value :
    patchOpsOfJson (.arr .raw [.obj [("op", .str "replace"), ("path", .str "/k")]]) =
      .ok [{ op := "replace", path := "/k", value := .null }] ∧
    Spec.opsOfJson (.arr .raw [.obj [("op", .str "replace"), ("path", .str "/k")]]) = none ∧
    readPatchOps [{ op := "replace", path := "/k", value := .null }] = .err := by
  refine ⟨?_, by simp [Spec.opsOfJson, alookup], ?_⟩
  · simp [patchOpsOfJson, patchOpsOfJson.go, patchOpsOfJson.strField, patchOpsOfJson.valueField,
      alookup]
    rfl
  · simp [readPatchOps, readPatchLoop, readPatchHunk]

end Witness

end PatchIn

end Jd.RTL
