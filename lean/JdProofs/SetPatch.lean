/-
  JdProofs.SetPatch — property C08: set and multiset hunks have set / bag semantics: they remove
  exactly the listed elements from the addressed array, fail if an element is absent (or not present
  often enough for a multiset), add the listed ones and leave all other members untouched,
  regardless of the order of the members in the target.

  Hash codes are 64-bit FNV values; the theorems take ONE hypothesis, `Faithful m E`, on the finitely
  many elements at hand (members of the target ++ removed ++ added): identities coincide exactly for
  equivalent elements and `equals` agrees with the specification `equivB`.

  Main results
    SET       patchSetLeaf_spec(_of), patchSetLeaf_idents (hash level), patchSetLeaf_perm,
              patchSetLeaf_ref (vs `applySetLeaf`), patchNode_set_leaf, patchNode_set_ref
              (vs `applyHunkRef`); the result is strictly sorted by `hashLt` (`HSorted`), hence a
              function of the SET of identities (`HSorted.ext`, `bswap_inj`).
    FINDING   setHunk_duplicate_removal: a set hunk that lists two equivalent removed elements is
              rejected by the code (second `aMap` lookup fails) but accepted by the reference.
    MULTISET  patchMsetLeaf_counts (hash level, no hypothesis), patchMsetLeaf_spec (vs `bagRemove`),
              patchMsetLeaf_perm(_equiv), patchMsetLeaf_ref (vs `applyBagLeaf`), patchNode_mset_leaf,
              patchNode_mset_ref.
    NON-VACUITY  faithful_scalars and the example after it.
-/
import JdModel
import JdSpec
import JdProofs.Common

namespace Jd
open Jd.Spec

/-! ### 0. the hypothesis tying hashes to the advertised equivalence -/

/-- On the finitely many elements `E` at hand: identities (64-bit FNV values) coincide exactly for
    equivalent elements, and `equals` agrees with the specification `equivB`. -/
def Faithful (m : Opts) (E : List Json) : Prop :=
  ∀ x ∈ E, ∀ y ∈ E,
    (identOf m x = identOf m y ↔ equivB m x y = true) ∧ (equals m x y = equivB m x y)

theorem Faithful.mono {m : Opts} {E E' : List Json} (hF : Faithful m E)
    (h : ∀ x ∈ E', x ∈ E) : Faithful m E' :=
  fun x hx y hy => hF x (h x hx) y (h y hy)

theorem Faithful.equivB_iff {m : Opts} {E : List Json} (hF : Faithful m E) {x y : Json}
    (hx : x ∈ E) (hy : y ∈ E) : equivB m x y = true ↔ identOf m x = identOf m y :=
  (hF x hx y hy).1.symm

theorem Faithful.equals_iff {m : Opts} {E : List Json} (hF : Faithful m E) {x y : Json}
    (hx : x ∈ E) (hy : y ∈ E) : equals m x y = true ↔ identOf m x = identOf m y := by
  rw [(hF x hx y hy).2]; exact hF.equivB_iff hx hy

/-- `equivB m` is an equivalence relation on `E` -/
theorem Faithful.refl {m : Opts} {E : List Json} (hF : Faithful m E) {x : Json} (hx : x ∈ E) :
    equivB m x x = true := (hF.equivB_iff hx hx).2 rfl

theorem Faithful.symm {m : Opts} {E : List Json} (hF : Faithful m E) {x y : Json}
    (hx : x ∈ E) (hy : y ∈ E) (h : equivB m x y = true) : equivB m y x = true :=
  (hF.equivB_iff hy hx).2 ((hF.equivB_iff hx hy).1 h).symm

theorem Faithful.trans {m : Opts} {E : List Json} (hF : Faithful m E) {x y z : Json}
    (hx : x ∈ E) (hy : y ∈ E) (hz : z ∈ E) (h : equivB m x y = true) (h' : equivB m y z = true) :
    equivB m x z = true :=
  (hF.equivB_iff hx hz).2 (((hF.equivB_iff hx hy).1 h).trans ((hF.equivB_iff hy hz).1 h'))

theorem memEq_iff {m : Opts} {E : List Json} (hF : Faithful m E) {z : Json} {l : List Json}
    (hz : z ∈ E) (hl : ∀ y ∈ l, y ∈ E) :
    memEq m z l = true ↔ identOf m z ∈ l.map (identOf m) := by
  simp only [memEq, List.any_eq_true, List.mem_map]
  constructor
  · rintro ⟨y, hy, e⟩
    exact ⟨y, hy, ((hF.equivB_iff hz (hl y hy)).1 e).symm⟩
  · rintro ⟨y, hy, e⟩
    exact ⟨y, hy, (hF.equivB_iff hz (hl y hy)).2 e.symm⟩

/-- no two elements of the list are equivalent -/
def distinctEq (m : Opts) : List Json → Bool
  | [] => true
  | x :: r => !(memEq m x r) && distinctEq m r

theorem distinctEq_iff {m : Opts} {E : List Json} (hF : Faithful m E) :
    ∀ {l : List Json}, (∀ y ∈ l, y ∈ E) →
      (distinctEq m l = true ↔ (l.map (identOf m)).Nodup)
  | [], _ => by simp [distinctEq]
  | x :: r, hl => by
    have hx : x ∈ E := hl x (by simp)
    have hr : ∀ y ∈ r, y ∈ E := fun y hy => hl y (by simp [hy])
    have ih := distinctEq_iff hF hr
    have hm := memEq_iff hF hx hr
    simp only [distinctEq, Bool.and_eq_true, Bool.not_eq_true', List.map_cons, List.nodup_cons]
    rw [← ih, ← hm]
    simp

/-! ### 1. association lists keyed by hash code -/

/-- the keys of the map -/
def hkeys (am : List (UInt64 × Json)) : List UInt64 := am.map (·.1)

theorem mem_hkeys_hmapSet (h : UInt64) (v : Json) (h' : UInt64) :
    ∀ am : List (UInt64 × Json), h' ∈ hkeys (hmapSet h v am) ↔ h' = h ∨ h' ∈ hkeys am
  | [] => by simp [hmapSet, hkeys]
  | (h1, v1) :: r => by
    have ih := mem_hkeys_hmapSet h v h' r
    simp only [hkeys] at ih
    simp only [hmapSet, hkeys]
    split
    · rename_i e
      have : h = h1 := by simpa using e
      subst this
      simp
    · simp [ih]
      grind

theorem mem_hmapSet {h : UInt64} {v : Json} {p : UInt64 × Json} :
    ∀ {am : List (UInt64 × Json)}, p ∈ hmapSet h v am → p = (h, v) ∨ p ∈ am
  | [], hp => by simpa [hmapSet] using hp
  | (h1, v1) :: r, hp => by
    simp only [hmapSet] at hp
    split at hp
    · simp at hp; grind
    · simp at hp
      rcases hp with hp | hp
      · simp [hp]
      · rcases mem_hmapSet hp with e | e
        · exact Or.inl e
        · exact Or.inr (by simp [e])

theorem nodup_hkeys_hmapSet (h : UInt64) (v : Json) :
    ∀ am : List (UInt64 × Json), (hkeys am).Nodup → (hkeys (hmapSet h v am)).Nodup
  | [], _ => by simp [hmapSet, hkeys]
  | (h1, v1) :: r, hn => by
    simp only [hkeys, List.map_cons, List.nodup_cons] at hn
    simp only [hmapSet]
    split
    · rename_i e
      have : h = h1 := by simpa using e
      subst this
      simpa [hkeys] using hn
    · rename_i e
      have hne : h ≠ h1 := by simpa using e
      have ih := nodup_hkeys_hmapSet h v r hn.2
      have hm := mem_hkeys_hmapSet h v h1 r
      simp only [hkeys, List.map_cons, List.nodup_cons]
      refine ⟨?_, ih⟩
      intro hc
      rcases hm.1 hc with e' | e'
      · exact hne e'.symm
      · exact hn.1 e'

theorem hmapGet_none {h : UInt64} :
    ∀ {am : List (UInt64 × Json)}, hmapGet h am = none ↔ h ∉ hkeys am
  | [] => by simp [hmapGet, hkeys]
  | (h1, v1) :: r => by
    have ih := @hmapGet_none h r
    simp only [hkeys] at ih
    simp only [hmapGet, hkeys]
    split
    · rename_i e
      have : h = h1 := by simpa using e
      simp [this]
    · rename_i e
      have hne : h ≠ h1 := by simpa using e
      simp [ih, hne]

theorem hmapGet_some {h : UInt64} {v : Json} :
    ∀ {am : List (UInt64 × Json)}, hmapGet h am = some v → (h, v) ∈ am
  | [], hg => by simp [hmapGet] at hg
  | (h1, v1) :: r, hg => by
    simp only [hmapGet] at hg
    split at hg
    · rename_i e
      have : h = h1 := by simpa using e
      simp at hg
      simp [this, hg]
    · simp [hmapGet_some hg]

theorem hmapErase_sublist (h : UInt64) :
    ∀ am : List (UInt64 × Json), (hmapErase h am).Sublist am
  | [] => by simp [hmapErase]
  | (h1, v1) :: r => by
    simp only [hmapErase]
    split
    · simp
    · exact (hmapErase_sublist h r).cons_cons _

theorem nodup_hkeys_hmapErase (h : UInt64) {am : List (UInt64 × Json)} (hn : (hkeys am).Nodup) :
    (hkeys (hmapErase h am)).Nodup := by
  have := (hmapErase_sublist h am).map (fun p : UInt64 × Json => p.1)
  exact this.nodup hn

theorem mem_hkeys_hmapErase (h h' : UInt64) :
    ∀ am : List (UInt64 × Json), (hkeys am).Nodup →
      (h' ∈ hkeys (hmapErase h am) ↔ h' ∈ hkeys am ∧ h' ≠ h)
  | [], _ => by simp [hmapErase, hkeys]
  | (h1, v1) :: r, hn => by
    simp only [hkeys, List.map_cons, List.nodup_cons] at hn
    have ih := mem_hkeys_hmapErase h h' r hn.2
    simp only [hkeys] at ih
    simp only [hmapErase, hkeys]
    split
    · rename_i e
      have : h = h1 := by simpa using e
      subst this
      simp only [List.map_cons, List.mem_cons]
      constructor
      · intro hm
        refine ⟨Or.inr hm, ?_⟩
        intro e'; subst e'; exact hn.1 hm
      · rintro ⟨hm | hm, hne⟩
        · exact absurd hm hne
        · exact hm
    · rename_i e
      have hne : h ≠ h1 := by simpa using e
      simp only [List.map_cons, List.mem_cons, ih]
      constructor
      · rintro (e' | ⟨hm, hne'⟩)
        · subst e'; exact ⟨Or.inl rfl, fun e'' => hne e''.symm⟩
        · exact ⟨Or.inr hm, hne'⟩
      · rintro ⟨e' | hm, hne'⟩
        · exact Or.inl e'
        · exact Or.inr ⟨hm, hne'⟩

/-- the map invariant: distinct keys, every entry is an element of `E` stored under its identity -/
def MapInv (m : Opts) (E : List Json) (am : List (UInt64 × Json)) : Prop :=
  (hkeys am).Nodup ∧ ∀ p ∈ am, p.2 ∈ E ∧ identOf m p.2 = p.1

theorem MapInv.nil (m : Opts) (E : List Json) : MapInv m E [] := by simp [MapInv, hkeys]

theorem MapInv.set {m : Opts} {E : List Json} {am : List (UInt64 × Json)} (hI : MapInv m E am)
    {v : Json} (hv : v ∈ E) : MapInv m E (hmapSet (identOf m v) v am) := by
  refine ⟨nodup_hkeys_hmapSet _ _ _ hI.1, ?_⟩
  intro p hp
  rcases mem_hmapSet hp with e | e
  · subst e; exact ⟨hv, rfl⟩
  · exact hI.2 p e

theorem MapInv.erase {m : Opts} {E : List Json} {am : List (UInt64 × Json)} (hI : MapInv m E am)
    (h : UInt64) : MapInv m E (hmapErase h am) := by
  exact ⟨nodup_hkeys_hmapErase h hI.1, fun p hp => hI.2 p ((hmapErase_sublist h am).subset hp)⟩

/-- `for _, v := range l { aMap[ident(v)] = v }` -/
def buildMap (m : Opts) (l : List Json) (am : List (UInt64 × Json)) : List (UInt64 × Json) :=
  l.foldl (fun acc v => hmapSet (identOf m v) v acc) am

theorem buildMap_inv {m : Opts} {E : List Json} :
    ∀ (l : List Json) {am : List (UInt64 × Json)}, MapInv m E am → (∀ v ∈ l, v ∈ E) →
      MapInv m E (buildMap m l am)
  | [], _, hI, _ => by simpa [buildMap] using hI
  | v :: r, am, hI, hl => by
    simp only [buildMap, List.foldl_cons]
    exact buildMap_inv r (hI.set (hl v (by simp))) (fun y hy => hl y (by simp [hy]))

theorem mem_hkeys_buildMap {m : Opts} (h : UInt64) :
    ∀ (l : List Json) (am : List (UInt64 × Json)),
      h ∈ hkeys (buildMap m l am) ↔ h ∈ hkeys am ∨ h ∈ l.map (identOf m)
  | [], am => by simp [buildMap]
  | v :: r, am => by
    have ih := mem_hkeys_buildMap (m := m) h r (hmapSet (identOf m v) v am)
    simp only [buildMap, List.foldl_cons] at ih ⊢
    rw [ih, mem_hkeys_hmapSet]
    simp only [List.map_cons, List.mem_cons]
    grind

/-! ### 2. the removal loop -/

theorem setRemoveLoop_ok {m : Opts} {E : List Json}
    (heq : ∀ x ∈ E, ∀ y ∈ E, identOf m x = identOf m y → equals m x y = true) :
    ∀ (rem : List Json) (am : List (UInt64 × Json)), MapInv m E am → (∀ r ∈ rem, r ∈ E) →
      (∀ r ∈ rem, identOf m r ∈ hkeys am) → (rem.map (identOf m)).Nodup →
      ∃ am', setRemoveLoop m am rem = .ok am' ∧ MapInv m E am' ∧
        ∀ h, h ∈ hkeys am' ↔ h ∈ hkeys am ∧ h ∉ rem.map (identOf m)
  | [], am, hI, _, _, _ => ⟨am, by simp [setRemoveLoop], hI, by simp⟩
  | v :: r, am, hI, hE, hk, hn => by
    have hv : v ∈ E := hE v (by simp)
    have hkv : identOf m v ∈ hkeys am := hk v (by simp)
    simp only [List.map_cons, List.nodup_cons] at hn
    cases hg : hmapGet (identOf m v) am with
    | none => exact absurd hkv (hmapGet_none.1 hg)
    | some d =>
      have hd := hI.2 _ (hmapGet_some hg)
      have he : equals m d v = true := heq d hd.1 v hv hd.2
      have hk' : ∀ r' ∈ r, identOf m r' ∈ hkeys (hmapErase (identOf m v) am) := by
        intro r' hr'
        rw [mem_hkeys_hmapErase _ _ _ hI.1]
        refine ⟨hk r' (by simp [hr']), ?_⟩
        intro e
        exact hn.1 (e ▸ List.mem_map_of_mem hr')
      obtain ⟨am', h1, h2, h3⟩ := setRemoveLoop_ok heq r (hmapErase (identOf m v) am)
        (hI.erase _) (fun y hy => hE y (by simp [hy])) hk' hn.2
      refine ⟨am', ?_, h2, ?_⟩
      · simp [setRemoveLoop, hg, he, h1]
      · intro h
        rw [h3, mem_hkeys_hmapErase _ _ _ hI.1]
        simp only [List.map_cons, List.mem_cons]
        grind

/-- the loop never panics, and fails as soon as a removed identity is not a key of the map -/
theorem setRemoveLoop_err_absent {m : Opts} :
    ∀ (rem : List Json) (am : List (UInt64 × Json)),
      (∃ r ∈ rem, identOf m r ∉ hkeys am) → setRemoveLoop m am rem = .err
  | [], _, h => by simp at h
  | v :: r, am, h => by
    cases hg : hmapGet (identOf m v) am with
    | none => simp [setRemoveLoop, hg]
    | some d =>
      cases he : equals m d v with
      | false => simp [setRemoveLoop, hg, he]
      | true =>
        have hkv : identOf m v ∈ hkeys am := by
          apply Classical.byContradiction
          intro hc
          rw [hmapGet_none.2 hc] at hg
          cases hg
        have : ∃ r' ∈ r, identOf m r' ∉ hkeys (hmapErase (identOf m v) am) := by
          obtain ⟨r', hr', hnk⟩ := h
          simp only [List.mem_cons] at hr'
          rcases hr' with e | hr'
          · subst e; exact absurd hkv hnk
          · refine ⟨r', hr', fun hc => hnk ?_⟩
            exact ((hmapErase_sublist _ am).map (fun p : UInt64 × Json => p.1)).subset hc
        simp [setRemoveLoop, hg, he, setRemoveLoop_err_absent r _ this]

/-- removing the same identity twice fails: the entry is gone after the first removal -/
theorem setRemoveLoop_err_dup {m : Opts} :
    ∀ (rem : List Json) (am : List (UInt64 × Json)), (hkeys am).Nodup →
      ¬ (rem.map (identOf m)).Nodup → setRemoveLoop m am rem = .err
  | [], _, _, h => by simp at h
  | v :: r, am, hN, h => by
    cases hg : hmapGet (identOf m v) am with
    | none => simp [setRemoveLoop, hg]
    | some d =>
      cases he : equals m d v with
      | false => simp [setRemoveLoop, hg, he]
      | true =>
        have hN' : (hkeys (hmapErase (identOf m v) am)).Nodup := nodup_hkeys_hmapErase _ hN
        simp only [List.map_cons, List.nodup_cons] at h
        have h : identOf m v ∈ r.map (identOf m) ∨ ¬ (r.map (identOf m)).Nodup := by
          apply Classical.byContradiction
          intro hc
          exact h ⟨fun h1 => hc (Or.inl h1), Classical.byContradiction fun h2 => hc (Or.inr h2)⟩
        have : setRemoveLoop m (hmapErase (identOf m v) am) r = .err := by
          rcases h with h | h
          · apply setRemoveLoop_err_absent
            obtain ⟨r', hr', e⟩ := List.mem_map.1 h
            refine ⟨r', hr', ?_⟩
            rw [e, mem_hkeys_hmapErase _ _ _ hN]
            simp
          · exact setRemoveLoop_err_dup r _ hN' h
        simp [setRemoveLoop, hg, he, this]

/-! ### 3. sorting by hash -/

theorem kinsert_perm {β} (h : UInt64) (v : β) :
    ∀ l : List (UInt64 × β), (kinsert h v l).Perm ((h, v) :: l)
  | [] => by simp [kinsert]
  | (h1, v1) :: r => by
    simp only [kinsert]
    split
    · exact List.Perm.refl _
    · exact ((kinsert_perm h v r).cons _).trans (List.Perm.swap _ _ _)

theorem ksort_perm {β} : ∀ l : List (UInt64 × β), (ksort l).Perm l
  | [] => by simp [ksort]
  | p :: r => by
    have ih := ksort_perm r
    simp only [ksort, List.foldr_cons] at ih ⊢
    exact (kinsert_perm _ _ _).trans (ih.cons _)


theorem hashLt_irrefl (a : UInt64) : hashLt a a = false := by
  simp [hashLt]

theorem hashLt_trans {a b c : UInt64} (h1 : hashLt a b = true) (h2 : hashLt b c = true) :
    hashLt a c = true := by
  simp only [hashLt, decide_eq_true_eq] at *
  exact UInt64.lt_trans h1 h2

theorem hashLt_asymm {a b : UInt64} (h1 : hashLt a b = true) : hashLt b a = false := by
  cases h : hashLt b a with
  | false => rfl
  | true => have := hashLt_trans h1 h; rw [hashLt_irrefl] at this; cases this

theorem hashLt_total {a b : UInt64} (hne : a ≠ b) (h : hashLt a b = false) : hashLt b a = true := by
  simp only [hashLt, decide_eq_true_eq, decide_eq_false_iff_not] at *
  have hne' : bswap a ≠ bswap b := fun e => hne (bswap_inj e)
  rcases UInt64.lt_or_lt_of_ne hne' with h' | h'
  · exact absurd h' h
  · exact h'

/-- strictly increasing in the order of `hashCodes.Less` -/
def HSorted (l : List UInt64) : Prop := l.Pairwise (fun a b => hashLt a b = true)

theorem kinsert_sorted (h : UInt64) (v : Json) :
    ∀ l : List (UInt64 × Json), HSorted (hkeys l) → h ∉ hkeys l → HSorted (hkeys (kinsert h v l))
  | [], _, _ => by simp [kinsert, hkeys, HSorted]
  | (h1, v1) :: r, hs, hn => by
    simp only [hkeys, List.map_cons, HSorted, List.pairwise_cons, List.mem_cons, not_or] at hs hn
    simp only [kinsert]
    split
    · rename_i hlt
      simp only [hkeys, List.map_cons, HSorted, List.pairwise_cons, List.mem_cons]
      refine ⟨?_, hs⟩
      rintro a (e | ha)
      · subst e; exact hlt
      · exact hashLt_trans hlt (hs.1 a ha)
    · rename_i hlt
      have hlt' : hashLt h1 h = true :=
        hashLt_total hn.1 (by simpa using hlt)
      have ih := kinsert_sorted h v r hs.2 hn.2
      simp only [hkeys, List.map_cons, HSorted, List.pairwise_cons]
      refine ⟨?_, ih⟩
      intro a ha
      have hp := (kinsert_perm h v r).map (fun p : UInt64 × Json => p.1)
      have ha' := hp.mem_iff.1 ha
      simp only [List.map_cons, List.mem_cons] at ha'
      rcases ha' with e | ha'
      · subst e; exact hlt'
      · exact hs.1 a ha'

theorem ksort_sorted : ∀ l : List (UInt64 × Json), (hkeys l).Nodup → HSorted (hkeys (ksort l))
  | [], _ => by simp [ksort, hkeys, HSorted]
  | p :: r, hn => by
    simp only [hkeys, List.map_cons, List.nodup_cons] at hn
    have ih := ksort_sorted r hn.2
    simp only [ksort, List.foldr_cons] at ih ⊢
    apply kinsert_sorted _ _ _ ih
    intro hc
    have hp := (ksort_perm r).map (fun p : UInt64 × Json => p.1)
    exact hn.1 (hp.mem_iff.1 hc)

/-- a strictly sorted list is determined by the set of its members -/
theorem HSorted.ext : ∀ {l1 l2 : List UInt64}, HSorted l1 → HSorted l2 →
    (∀ a, a ∈ l1 ↔ a ∈ l2) → l1 = l2
  | [], [], _, _, _ => rfl
  | [], b :: r2, _, _, h => by have := (h b).2 (by simp); simp at this
  | a :: r1, [], _, _, h => by have := (h a).1 (by simp); simp at this
  | a :: r1, b :: r2, h1, h2, h => by
    simp only [HSorted, List.pairwise_cons] at h1 h2
    have hab : a = b := by
      apply Classical.byContradiction
      intro hne
      have ha : a ∈ r2 := by
        have := (h a).1 (by simp)
        simp only [List.mem_cons] at this
        exact this.resolve_left hne
      have hb : b ∈ r1 := by
        have := (h b).2 (by simp)
        simp only [List.mem_cons] at this
        exact this.resolve_left (fun e => hne e.symm)
      have := hashLt_asymm (h1.1 b hb)
      rw [h2.1 a ha] at this
      cases this
    subst hab
    have hna1 : a ∉ r1 := fun hc => by have := h1.1 a hc; rw [hashLt_irrefl] at this; cases this
    have hna2 : a ∉ r2 := fun hc => by have := h2.1 a hc; rw [hashLt_irrefl] at this; cases this
    have : r1 = r2 := by
      apply HSorted.ext h1.2 h2.2
      intro c
      have := h c
      simp only [List.mem_cons] at this
      constructor
      · intro hc
        rcases this.1 (Or.inr hc) with e | e
        · subst e; exact absurd hc hna1
        · exact e
      · intro hc
        rcases this.2 (Or.inr hc) with e | e
        · subst e; exact absurd hc hna2
        · exact e
    rw [this]

/-! ### 4. the set leaf -/

theorem patchSetLeaf_eq (m : Opts) (s remove add : List Json) :
    patchSetLeaf m s remove add =
      (match setRemoveLoop m (buildMap m s []) remove with
       | .ok am => .ok (.arr .set ((ksort (buildMap m add am)).map (·.2)))
       | .err => .err
       | .panic => .panic) := by
  unfold patchSetLeaf buildMap
  dsimp only
  cases setRemoveLoop m (List.foldl (fun acc v => hmapSet (identOf m v) v acc) [] s) remove <;> rfl

theorem setRemoveLoop_sub {m : Opts} :
    ∀ (rem : List Json) (am am' : List (UInt64 × Json)), setRemoveLoop m am rem = .ok am' →
      ∀ p ∈ am', p ∈ am
  | [], am, am', h => by
    simp only [setRemoveLoop, Outcome.ok.injEq] at h
    subst h; exact fun _ hp => hp
  | v :: r, am, am', h => by
    simp only [setRemoveLoop] at h
    split at h
    · cases h
    · split at h
      · intro p hp
        exact (hmapErase_sublist _ am).subset (setRemoveLoop_sub r _ _ h p hp)
      · cases h

theorem mem_buildMap {m : Opts} {p : UInt64 × Json} :
    ∀ (l : List Json) (am : List (UInt64 × Json)), p ∈ buildMap m l am → p ∈ am ∨ p.2 ∈ l
  | [], am, h => by simpa [buildMap] using h
  | v :: r, am, h => by
    simp only [buildMap, List.foldl_cons] at h
    rcases mem_buildMap r _ h with h' | h'
    · rcases mem_hmapSet h' with e | e
      · subst e; simp
      · exact Or.inl e
    · exact Or.inr (by simp [h'])

/-- the values of a map in key order, and their identities -/
theorem values_idents {m : Opts} {E : List Json} {am : List (UInt64 × Json)} (hI : MapInv m E am) :
    ((ksort am).map (·.2)).map (identOf m) = hkeys (ksort am) := by
  simp only [hkeys, List.map_map]
  apply List.map_congr_left
  intro p hp
  exact (hI.2 p ((ksort_perm am).mem_iff.1 hp)).2

theorem mem_hkeys_ksort {am : List (UInt64 × Json)} (h : UInt64) :
    h ∈ hkeys (ksort am) ↔ h ∈ hkeys am :=
  ((ksort_perm am).map (fun p : UInt64 × Json => p.1)).mem_iff

/-- the outcome of the set leaf in terms of identities -/
theorem patchSetLeaf_idents {m : Opts} {s remove add : List Json}
    (hF : Faithful m (s ++ remove ++ add)) :
    ((∃ r ∈ remove, identOf m r ∉ s.map (identOf m)) → patchSetLeaf m s remove add = .err) ∧
    (¬ (remove.map (identOf m)).Nodup → patchSetLeaf m s remove add = .err) ∧
    ((∀ r ∈ remove, identOf m r ∈ s.map (identOf m)) → (remove.map (identOf m)).Nodup →
      ∃ ys, patchSetLeaf m s remove add = .ok (.arr .set ys) ∧
        (∀ y ∈ ys, y ∈ s ∨ y ∈ add) ∧
        HSorted (ys.map (identOf m)) ∧
        ∀ h, h ∈ ys.map (identOf m) ↔
          (h ∈ s.map (identOf m) ∧ h ∉ remove.map (identOf m)) ∨ h ∈ add.map (identOf m)) := by
  have hI0 : MapInv m (s ++ remove ++ add) (buildMap m s []) :=
    buildMap_inv s (MapInv.nil _ _) (fun v hv => by simp [hv])
  have hk0 : ∀ h, h ∈ hkeys (buildMap m s []) ↔ h ∈ s.map (identOf m) := by
    intro h; rw [mem_hkeys_buildMap]; simp [hkeys]
  refine ⟨?_, ?_, ?_⟩
  · rintro ⟨r, hr, hn⟩
    rw [patchSetLeaf_eq, setRemoveLoop_err_absent remove _ ⟨r, hr, by rwa [hk0]⟩]
  · intro hn
    rw [patchSetLeaf_eq, setRemoveLoop_err_dup remove _ hI0.1 hn]
  · intro hall hn
    obtain ⟨am', h1, h2, h3⟩ := setRemoveLoop_ok
      (fun x hx y hy e => (hF.equals_iff hx hy).2 e) remove _ hI0
      (fun r hr => by simp [hr]) (fun r hr => by rw [hk0]; exact hall r hr) hn
    have hI2 : MapInv m (s ++ remove ++ add) (buildMap m add am') :=
      buildMap_inv add h2 (fun v hv => by simp [hv])
    refine ⟨_, by rw [patchSetLeaf_eq, h1], ?_, ?_, ?_⟩
    · intro y hy
      obtain ⟨p, hp, rfl⟩ := List.mem_map.1 hy
      rcases mem_buildMap add am' ((ksort_perm _).mem_iff.1 hp) with h' | h'
      · rcases mem_buildMap s [] (setRemoveLoop_sub remove _ _ h1 p h') with h'' | h''
        · simp at h''
        · exact Or.inl h''
      · exact Or.inr h'
    · rw [values_idents hI2]; exact ksort_sorted _ hI2.1
    · intro h
      rw [values_idents hI2, mem_hkeys_ksort, mem_hkeys_buildMap, h3, hk0]

/-- membership up to equivalence -/
theorem memEq_eq_decide {m : Opts} {E : List Json} (hF : Faithful m E) {z : Json} {l : List Json}
    (hz : z ∈ E) (hl : ∀ y ∈ l, y ∈ E) :
    memEq m z l = decide (identOf m z ∈ l.map (identOf m)) := by
  rw [Bool.eq_iff_iff, memEq_iff hF hz hl]; simp

theorem all_memEq_iff {m : Opts} {E : List Json} (hF : Faithful m E) {l s : List Json}
    (hl : ∀ y ∈ l, y ∈ E) (hs : ∀ y ∈ s, y ∈ E) :
    l.all (fun r => memEq m r s) = true ↔ ∀ r ∈ l, identOf m r ∈ s.map (identOf m) := by
  simp only [List.all_eq_true]
  constructor
  · intro h r hr; exact (memEq_iff hF (hl r hr) hs).1 (h r hr)
  · intro h r hr; exact (memEq_iff hF (hl r hr) hs).2 (h r hr)

/-- **C08, set hunks.** Under `Faithful`, the leaf case of `jsonSet.patch` fails when a removed
    element is not a member of the target, and ALSO when two removed elements are equivalent (the
    second removal finds nothing: this is stricter than the reference `applySetLeaf`); otherwise the
    result is, as a set, `(members ∖ removed) ∪ added`, its members are members of the target or
    added elements, and they are listed in strictly increasing hash order of their identities. -/
theorem patchSetLeaf_spec_of (m : Opts) (s remove add : List Json)
    (hF : Faithful m (s ++ remove ++ add)) :
    (remove.all (fun r => memEq m r s) = false → patchSetLeaf m s remove add = .err) ∧
    (distinctEq m remove = false → patchSetLeaf m s remove add = .err) ∧
    (remove.all (fun r => memEq m r s) = true → distinctEq m remove = true →
      ∃ ys, patchSetLeaf m s remove add = .ok (.arr .set ys) ∧
        (∀ y ∈ ys, y ∈ s ∨ y ∈ add) ∧
        HSorted (ys.map (identOf m)) ∧
        ∀ z ∈ s ++ remove ++ add,
          memEq m z ys = ((memEq m z s && !(memEq m z remove)) || memEq m z add)) := by
  have hs : ∀ y ∈ s, y ∈ s ++ remove ++ add := fun y hy => by simp [hy]
  have hr : ∀ y ∈ remove, y ∈ s ++ remove ++ add := fun y hy => by simp [hy]
  have ha : ∀ y ∈ add, y ∈ s ++ remove ++ add := fun y hy => by simp [hy]
  obtain ⟨h1, h2, h3⟩ := patchSetLeaf_idents hF
  refine ⟨?_, ?_, ?_⟩
  · intro h
    apply h1
    apply Classical.byContradiction
    intro hc
    have : remove.all (fun r => memEq m r s) = true := by
      rw [all_memEq_iff hF hr hs]
      intro r hr'
      apply Classical.byContradiction
      intro hc'
      exact hc ⟨r, hr', hc'⟩
    rw [this] at h; cases h
  · intro h
    apply h2
    rw [← distinctEq_iff hF hr, h]; simp
  · intro hall hd
    obtain ⟨ys, e, hsub, hsorted, hmem⟩ :=
      h3 ((all_memEq_iff hF hr hs).1 hall) ((distinctEq_iff hF hr).1 hd)
    refine ⟨ys, e, hsub, hsorted, ?_⟩
    intro z hz
    have hys : ∀ y ∈ ys, y ∈ s ++ remove ++ add := by
      intro y hy
      rcases hsub y hy with h' | h'
      · exact hs y h'
      · exact ha y h'
    rw [memEq_eq_decide hF hz hys, memEq_eq_decide hF hz hs, memEq_eq_decide hF hz hr,
      memEq_eq_decide hF hz ha, Bool.eq_iff_iff]
    simp only [decide_eq_true_eq, Bool.or_eq_true, Bool.and_eq_true, Bool.not_eq_true',
      decide_eq_false_iff_not]
    exact hmem _

/-- the statement for the options `patchNode` uses on a path ending in `{}` -/
theorem patchSetLeaf_spec (s remove add : List Json)
    (hF : Faithful [.set] (s ++ remove ++ add)) :
    (remove.all (fun r => memEq [.set] r s) = false → patchSetLeaf [.set] s remove add = .err) ∧
    (distinctEq [.set] remove = false → patchSetLeaf [.set] s remove add = .err) ∧
    (remove.all (fun r => memEq [.set] r s) = true → distinctEq [.set] remove = true →
      ∃ ys, patchSetLeaf [.set] s remove add = .ok (.arr .set ys) ∧
        (∀ y ∈ ys, y ∈ s ∨ y ∈ add) ∧
        HSorted (ys.map (identOf [.set])) ∧
        ∀ z ∈ s ++ remove ++ add,
          memEq [.set] z ys =
            ((memEq [.set] z s && !(memEq [.set] z remove)) || memEq [.set] z add)) :=
  patchSetLeaf_spec_of [.set] s remove add hF


/-! ### 5. order of the target, reference semantics, `patchNode` -/

/-- equal as sets up to equivalence -/
def setEqB (m : Opts) (xs ys : List Json) : Bool :=
  xs.all (fun x => memEq m x ys) && ys.all (fun y => memEq m y xs)

theorem setEqB_of_idents {m : Opts} {E : List Json} (hF : Faithful m E) {xs ys : List Json}
    (hx : ∀ x ∈ xs, x ∈ E) (hy : ∀ y ∈ ys, y ∈ E)
    (h : ∀ a, a ∈ xs.map (identOf m) ↔ a ∈ ys.map (identOf m)) : setEqB m xs ys = true := by
  simp only [setEqB, Bool.and_eq_true, List.all_eq_true]
  constructor
  · intro x hx'
    exact (memEq_iff hF (hx x hx') hy).2 ((h _).1 (List.mem_map_of_mem hx'))
  · intro y hy'
    exact (memEq_iff hF (hy y hy') hx).2 ((h _).2 (List.mem_map_of_mem hy'))

/-- **regardless of the order of the members in the target**: for a permutation of the target the
    hunk is rejected in both cases or applies in both, and then the two results carry the same
    identities in the same order (in particular they are equal as sets). -/
theorem patchSetLeaf_perm (m : Opts) {s s' : List Json} (hp : s'.Perm s) (remove add : List Json)
    (hF : Faithful m (s ++ remove ++ add)) :
    (patchSetLeaf m s remove add = .err ∧ patchSetLeaf m s' remove add = .err) ∨
    ∃ ys ys', patchSetLeaf m s remove add = .ok (.arr .set ys) ∧
      patchSetLeaf m s' remove add = .ok (.arr .set ys') ∧
      ys.map (identOf m) = ys'.map (identOf m) ∧ setEqB m ys ys' = true := by
  have hE : ∀ x, x ∈ s' ++ remove ++ add ↔ x ∈ s ++ remove ++ add := by
    intro x; simp only [List.mem_append, hp.mem_iff]
  have hF' : Faithful m (s' ++ remove ++ add) := hF.mono (fun x hx => (hE x).1 hx)
  have hk : ∀ a, a ∈ s'.map (identOf m) ↔ a ∈ s.map (identOf m) :=
    fun a => (hp.map (identOf m)).mem_iff
  obtain ⟨a1, a2, a3⟩ := patchSetLeaf_idents hF
  obtain ⟨b1, b2, b3⟩ := patchSetLeaf_idents hF'
  by_cases hall : ∀ r ∈ remove, identOf m r ∈ s.map (identOf m)
  · by_cases hn : (remove.map (identOf m)).Nodup
    · obtain ⟨ys, e, hsub, hsorted, hmem⟩ := a3 hall hn
      obtain ⟨ys', e', hsub', hsorted', hmem'⟩ := b3 (fun r hr => (hk _).2 (hall r hr)) hn
      have hids : ys.map (identOf m) = ys'.map (identOf m) := by
        apply HSorted.ext hsorted hsorted'
        intro a; rw [hmem, hmem', hk]
      refine Or.inr ⟨ys, ys', e, e', hids, ?_⟩
      apply setEqB_of_idents hF
      · intro y hy; rcases hsub y hy with h | h <;> simp [h]
      · intro y hy
        rcases hsub' y hy with h | h
        · simp [hp.mem_iff.1 h]
        · simp [h]
      · intro a; rw [hids]
    · exact Or.inl ⟨a2 hn, b2 hn⟩
  · have : ∃ r ∈ remove, identOf m r ∉ s.map (identOf m) := by
      apply Classical.byContradiction
      intro hc
      apply hall
      intro r hr
      apply Classical.byContradiction
      intro hc'
      exact hc ⟨r, hr, hc'⟩
    obtain ⟨r, hr, hnr⟩ := this
    exact Or.inl ⟨a1 ⟨r, hr, hnr⟩, b1 ⟨r, hr, fun hc => hnr ((hk _).1 hc)⟩⟩

/-- **link to the reference** `applySetLeaf` (JdSpec.HunkSem): when no two removed elements are
    equivalent, the code rejects the hunk iff the reference does, and otherwise the two results are
    equal as sets. (Without that hypothesis they differ: `setHunk_duplicate_removal`.) -/
theorem patchSetLeaf_ref (s : List Json) (h : Hunk)
    (hF : Faithful [.set] (s ++ h.remove ++ h.add)) (hd : distinctEq [.set] h.remove = true) :
    (applySetLeaf s h = none ∧ patchSetLeaf [.set] s h.remove h.add = .err) ∨
    ∃ zs ys, applySetLeaf s h = some zs ∧
      patchSetLeaf [.set] s h.remove h.add = .ok (.arr .set ys) ∧ setEqB [.set] ys zs = true := by
  have hs : ∀ y ∈ s, y ∈ s ++ h.remove ++ h.add := fun y hy => by simp [hy]
  have hr : ∀ y ∈ h.remove, y ∈ s ++ h.remove ++ h.add := fun y hy => by simp [hy]
  have ha : ∀ y ∈ h.add, y ∈ s ++ h.remove ++ h.add := fun y hy => by simp [hy]
  obtain ⟨h1, _, h3⟩ := patchSetLeaf_idents hF
  cases hall : h.remove.all (fun r => memEq [.set] r s) with
  | false =>
    refine Or.inl ⟨by simp [applySetLeaf, hall], ?_⟩
    exact (patchSetLeaf_spec s h.remove h.add hF).1 hall
  | true =>
    obtain ⟨ys, e, hsub, _, hmem⟩ :=
      h3 ((all_memEq_iff hF hr hs).1 hall) ((distinctEq_iff hF hr).1 hd)
    refine Or.inr ⟨s.filter (fun x => !memEq [.set] x h.remove) ++ h.add, ys,
      by simp [applySetLeaf, hall], e, ?_⟩
    apply setEqB_of_idents hF
    · intro y hy; rcases hsub y hy with h' | h' <;> simp [h']
    · intro y hy
      simp only [List.mem_append, List.mem_filter] at hy
      rcases hy with ⟨h', _⟩ | h' <;> simp [h']
    · intro a
      rw [hmem]
      simp only [List.map_append, List.mem_append, List.mem_map, List.mem_filter,
        Bool.not_eq_true']
      constructor
      · rintro (⟨⟨x, hx, rfl⟩, hnr⟩ | h')
        · refine Or.inl ⟨x, ⟨hx, ?_⟩, rfl⟩
          cases hm : memEq [.set] x h.remove with
          | false => rfl
          | true =>
            have := (memEq_iff hF (hs x hx) hr).1 hm
            simp only [List.mem_map] at this
            exact absurd this hnr
        · exact Or.inr h'
      · rintro (⟨x, ⟨hx, hm⟩, rfl⟩ | h')
        · refine Or.inl ⟨⟨x, hx, rfl⟩, ?_⟩
          intro hc
          have := (memEq_iff hF (hs x hx) hr).2 (by simpa only [List.mem_map] using hc)
          rw [hm] at this; cases this
        · exact Or.inr h'

/-- how `patchNode` reaches the set leaf: a strict hunk whose remaining path starts with `{}`,
    addressed to an array read as a set -/
theorem patchNode_set_leaf (sw : Bool) (t : Tag) (ht : t = .raw ∨ t = .set) (xs : List Json)
    (rest : Path) (before remove add after : List Json) :
    patchNode sw false (.arr t xs) (.set :: rest) before remove add after =
      patchSetLeaf [.set] xs remove add := by
  rw [patchNode.eq_def]
  rcases ht with rfl | rfl <;> simp [effTag, pathMeta, dispatchTag]

/-- C08 for a set hunk at the addressed array, against the reference interpreter `applyHunkRef` -/
theorem patchNode_set_ref (sw : Bool) (t : Tag) (ht : t = .raw ∨ t = .set) (xs : List Json)
    (rest : Path) (h : Hunk)
    (hF : Faithful [.set] (xs ++ h.remove ++ h.add)) (hd : distinctEq [.set] h.remove = true) :
    (applyHunkRef (.arr t xs) (.set :: rest) h = none ∧
      patchNode sw false (.arr t xs) (.set :: rest) h.before h.remove h.add h.after = .err) ∨
    ∃ zs ys, applyHunkRef (.arr t xs) (.set :: rest) h = some (.arr .raw zs) ∧
      patchNode sw false (.arr t xs) (.set :: rest) h.before h.remove h.add h.after =
        .ok (.arr .set ys) ∧ setEqB [.set] ys zs = true := by
  rw [patchNode_set_leaf sw t ht]
  rcases patchSetLeaf_ref xs h hF hd with ⟨e1, e2⟩ | ⟨zs, ys, e1, e2, e3⟩
  · exact Or.inl ⟨by simp [applyHunkRef, e1], e2⟩
  · exact Or.inr ⟨zs, ys, by simp [applyHunkRef, e1], e2, e3⟩

/-- **Finding (code stricter than the reference).** The hunk `@ [{}]`, `- null`, `- null` applied to
    `[null]`: the reference semantics (every removed element is a member) gives `[]`, the code
    reports an error, because the second removal no longer finds the entry in its map. The same
    holds for any removed list with two equivalent elements (`patchSetLeaf_spec`, second clause). -/
theorem setHunk_duplicate_removal :
    applySetLeaf [.null] { path := [.set], remove := [.null, .null] } = some [] ∧
    patchSetLeaf [.set] [.null] [.null, .null] [] = .err := by
  constructor
  · simp [applySetLeaf, memEq, equivB]
  · rw [patchSetLeaf_eq, setRemoveLoop_err_dup]
    · simp [buildMap, hmapSet, hkeys]
    · simp

/-- non-vacuity of the hypothesis: `Faithful` holds for pairwise inequivalent scalars (the FNV
    values are evaluated by the kernel), and the theorem then describes an actual run -/
theorem faithful_scalars : Faithful [.set] ([.bool true, .null] ++ [.null] ++ [.bool false]) := by
  have h1 : identOf [.set] (.bool true) ≠ identOf [.set] .null := by
    simp [identOf, hashCode, Gen.hashTrue, Gen.seedNull]; decide
  have h2 : identOf [.set] (.bool true) ≠ identOf [.set] (.bool false) := by
    simp [identOf, hashCode, Gen.hashTrue, Gen.hashFalse]; decide
  have h3 : identOf [.set] (.bool false) ≠ identOf [.set] .null := by
    simp [identOf, hashCode, Gen.hashFalse, Gen.seedNull]; decide
  intro x hx y hy
  simp only [List.cons_append, List.nil_append, List.mem_cons, List.not_mem_nil, or_false] at hx hy
  rcases hx with rfl | rfl | rfl | rfl <;> rcases hy with rfl | rfl | rfl | rfl <;>
    simp [equivB, equals, Json.isNull, h1, h2, h3, h1.symm, h2.symm, h3.symm]

example : ∃ ys, patchSetLeaf [.set] [.bool true, .null] [.null] [.bool false] = .ok (.arr .set ys) ∧
    memEq [.set] (.bool true) ys = true ∧ memEq [.set] .null ys = false ∧
    memEq [.set] (.bool false) ys = true := by
  obtain ⟨ys, e, _, _, hm⟩ := (patchSetLeaf_spec _ _ _ faithful_scalars).2.2
    (by simp [memEq, equivB]) (by simp [distinctEq, memEq])
  refine ⟨ys, e, ?_, ?_, ?_⟩
  · rw [hm _ (by simp)]; simp [memEq, equivB]
  · rw [hm _ (by simp)]; simp [memEq, equivB]
  · rw [hm _ (by simp)]; simp [memEq, equivB]


/-! ### 6. the multiset leaf -/

/-- without SetKeys the identity of every node is its hash code (in particular for `[.mset]`) -/
theorem identOf_eq_hashCode {m : Opts} (hk : keysOf m = none) (x : Json) :
    identOf m x = hashCode m x := by
  cases x <;> simp [identOf, identObj, hk]

theorem countOcc_eq_count (h : UInt64) (hs : List UInt64) : countOcc h hs = hs.count h := by
  simp [countOcc, List.count_eq_countP, List.countP_eq_length_filter]

theorem nodup_hdedup : ∀ l : List UInt64, (hdedup l).Nodup
  | [] => by simp [hdedup]
  | x :: r => by
    simp only [hdedup, List.nodup_cons, List.mem_filter]
    exact ⟨by simp, (nodup_hdedup r).filter _⟩

/-- weakly increasing in the order of `hashCodes.Less` -/
def HSortedLe (l : List UInt64) : Prop := l.Pairwise (fun a b => hashLt b a = false)

theorem hinsert_sorted_sp (h : UInt64) : ∀ l : List UInt64, HSortedLe l → HSortedLe (hinsert h l)
  | [], _ => by simp [hinsert, HSortedLe]
  | x :: r, hs => by
    simp only [HSortedLe, List.pairwise_cons] at hs
    simp only [hinsert]
    split
    · rename_i hlt
      simp only [HSortedLe, List.pairwise_cons, List.mem_cons]
      refine ⟨?_, hs⟩
      rintro a (e | ha)
      · subst e; exact hashLt_asymm hlt
      · cases hc : hashLt a h with
        | false => rfl
        | true =>
          have := hashLt_trans hc hlt
          rw [hs.1 a ha] at this; cases this
    · rename_i hlt
      have ih := hinsert_sorted_sp h r hs.2
      simp only [HSortedLe, List.pairwise_cons]
      refine ⟨?_, ih⟩
      intro a ha
      have ha' := (hinsert_perm h r).mem_iff.1 ha
      simp only [List.mem_cons] at ha'
      rcases ha' with e | ha'
      · subst e; simpa using hlt
      · exact hs.1 a ha'

theorem hsort_sorted_sp : ∀ l : List UInt64, HSortedLe (hsort l)
  | [] => by simp [hsort, HSortedLe]
  | x :: r => by
    have ih := hsort_sorted_sp r
    simp only [hsort, List.foldr_cons] at ih ⊢
    exact hinsert_sorted_sp _ _ ih

/-- a weakly sorted list of hash codes is determined by the multiplicities of its members -/
theorem HSortedLe.ext {l1 l2 : List UInt64} (h1 : HSortedLe l1) (h2 : HSortedLe l2)
    (h : ∀ a, l1.count a = l2.count a) : l1 = l2 := by
  apply List.Perm.eq_of_pairwise (le := fun a b => hashLt b a = false) _ h1 h2
    (List.perm_iff_count.2 h)
  intro a b _ _ hab hba
  apply Classical.byContradiction
  intro hne
  have := hashLt_total hne hba
  rw [hab] at this; cases this

theorem hashLookup_some {m : Opts} {h : UInt64} :
    ∀ {l : List Json}, h ∈ l.map (hashCode m) →
      ∃ x, hashLookup m h l = some x ∧ x ∈ l ∧ hashCode m x = h
  | [], hm => by simp at hm
  | y :: r, hm => by
    simp only [hashLookup]
    by_cases hr : h ∈ r.map (hashCode m)
    · obtain ⟨x, e, hx, hk⟩ := hashLookup_some hr
      exact ⟨x, by simp [e], by simp [hx], hk⟩
    · simp only [List.map_cons, List.mem_cons] at hm
      have hy : hashCode m y = h := (hm.resolve_right hr).symm
      cases e : hashLookup m h r with
      | some x => exact absurd e (by
          intro e
          -- a hit in `r` would put `h` among the hashes of `r`
          have : ∀ {l : List Json} {x : Json}, hashLookup m h l = some x → h ∈ l.map (hashCode m) := by
            intro l
            induction l with
            | nil => intro x e; simp [hashLookup] at e
            | cons z t ih =>
              intro x e
              simp only [hashLookup] at e
              cases e' : hashLookup m h t with
              | some w => simp [ih e']
              | none =>
                rw [e'] at e
                simp only at e
                split at e
                · rename_i hz; simp [(by simpa using hz : hashCode m z = h)]
                · cases e
          exact hr (this e))
      | none => exact ⟨y, by simp [hy], by simp, hy⟩

theorem filterMap_hashLookup {m : Opts} {all : List Json} :
    ∀ hs : List UInt64, (∀ h ∈ hs, h ∈ all.map (hashCode m)) →
      ((hs.filterMap (fun h => hashLookup m h all)).map (hashCode m) = hs) ∧
      ∀ y ∈ hs.filterMap (fun h => hashLookup m h all), y ∈ all
  | [], _ => by simp
  | h :: r, hm => by
    obtain ⟨x, e, hx, hk⟩ := hashLookup_some (hm h (by simp))
    obtain ⟨ih1, ih2⟩ := filterMap_hashLookup r (fun h' hh' => hm h' (by simp [hh']))
    simp only [List.filterMap_cons, e]
    constructor
    · simp [hk, ih1]
    · intro y hy
      simp only [List.mem_cons] at hy
      rcases hy with rfl | hy
      · exact hx
      · exact ih2 y hy

theorem count_flatMap_replicate (n : UInt64 → Nat) (c : UInt64) :
    ∀ D : List UInt64, D.Nodup →
      (D.flatMap (fun h => List.replicate (n h) h)).count c = if c ∈ D then n c else 0
  | [], _ => by simp
  | d :: r, hn => by
    simp only [List.nodup_cons] at hn
    have ih := count_flatMap_replicate n c r hn.2
    rw [List.flatMap_cons, List.count_append, ih, List.count_replicate]
    simp only [List.mem_cons, beq_iff_eq]
    by_cases e : d = c
    · subst e; simp [hn.1]
    · have e' : ¬ c = d := fun h => e h.symm
      simp [e, e']

/-- number of members equivalent to `z` -/
def cntEq (m : Opts) (z : Json) (l : List Json) : Nat := l.countP (fun y => equivB m z y)

theorem cntEq_eq_count {m : Opts} {E : List Json} (hF : Faithful m E) {z : Json} {l : List Json}
    (hz : z ∈ E) (hl : ∀ y ∈ l, y ∈ E) :
    cntEq m z l = (l.map (identOf m)).count (identOf m z) := by
  rw [cntEq, List.count_eq_countP, List.countP_map]
  apply List.countP_congr
  intro y hy
  rw [hF.equivB_iff hz (hl y hy)]
  simp only [Function.comp_apply, beq_iff_eq]
  exact eq_comm

/-- `removeFirst` in terms of a key function -/
theorem removeFirst_count {k : Json → UInt64} {p : Json → Bool} {c : UInt64} :
    ∀ l : List Json, (∀ y ∈ l, (p y = true ↔ k y = c)) →
      (c ∉ l.map k → removeFirst p l = none) ∧
      (c ∈ l.map k → ∃ l', removeFirst p l = some l' ∧ (∀ y ∈ l', y ∈ l) ∧
        ∀ h, (l'.map k).count h + (if h = c then 1 else 0) = (l.map k).count h)
  | [], _ => by simp [removeFirst]
  | x :: r, hp => by
    have hx := hp x (by simp)
    obtain ⟨ih1, ih2⟩ := removeFirst_count (k := k) (p := p) (c := c) r
      (fun y hy => hp y (by simp [hy]))
    by_cases e : k x = c
    · have px : p x = true := hx.2 e
      refine ⟨by simp [e], fun _ => ⟨r, by simp [removeFirst, px], by simp +contextual, ?_⟩⟩
      intro h
      simp only [List.map_cons, List.count_cons, e, beq_iff_eq]
      by_cases e' : h = c
      · simp [e']
      · have : ¬ c = h := fun h' => e' h'.symm
        simp [e', this]
    · have px : p x = false := by
        cases h : p x with
        | false => rfl
        | true => exact absurd (hx.1 h) e
      constructor
      · intro hn
        simp only [List.map_cons, List.mem_cons, not_or] at hn
        simp [removeFirst, px, ih1 hn.2]
      · intro hm
        simp only [List.map_cons, List.mem_cons] at hm
        have hm' : c ∈ r.map k := hm.resolve_left (fun h => e h.symm)
        obtain ⟨l', e1, e2, e3⟩ := ih2 hm'
        refine ⟨x :: l', by simp [removeFirst, px, e1], ?_, ?_⟩
        · intro y hy
          simp only [List.mem_cons] at hy ⊢
          rcases hy with h | h
          · exact Or.inl h
          · exact Or.inr (e2 y h)
        · intro h
          have := e3 h
          simp only [List.map_cons, List.count_cons]
          omega

theorem bagRemove_count {m : Opts} {E : List Json} (hF : Faithful m E) :
    ∀ (rem l : List Json), (∀ y ∈ l, y ∈ E) → (∀ y ∈ rem, y ∈ E) →
      ((∃ h, (l.map (identOf m)).count h < (rem.map (identOf m)).count h) →
        bagRemove m l rem = none) ∧
      ((∀ h, (rem.map (identOf m)).count h ≤ (l.map (identOf m)).count h) →
        ∃ l', bagRemove m l rem = some l' ∧ (∀ y ∈ l', y ∈ l) ∧
          ∀ h, (l'.map (identOf m)).count h + (rem.map (identOf m)).count h =
            (l.map (identOf m)).count h)
  | [], l, _, _ => by
    refine ⟨by simp, fun _ => ⟨l, by simp [bagRemove], fun _ h => h, by simp⟩⟩
  | r :: rs, l, hl, hr => by
    have hrE : r ∈ E := hr r (by simp)
    have hp : ∀ y ∈ l, (equivB m y r = true ↔ identOf m y = identOf m r) :=
      fun y hy => hF.equivB_iff (hl y hy) hrE
    obtain ⟨f1, f2⟩ := removeFirst_count (k := identOf m) (p := fun y => equivB m y r)
      (c := identOf m r) l hp
    by_cases hm : identOf m r ∈ l.map (identOf m)
    · obtain ⟨l1, e1, e2, e3⟩ := f2 hm
      obtain ⟨ih1, ih2⟩ := bagRemove_count hF rs l1 (fun y hy => hl y (e2 y hy))
        (fun y hy => hr y (by simp [hy]))
      have hcons : ∀ h, ((r :: rs).map (identOf m)).count h =
          (rs.map (identOf m)).count h + (if h = identOf m r then 1 else 0) := by
        intro h
        simp only [List.map_cons, List.count_cons, beq_iff_eq]
        by_cases e : h = identOf m r
        · simp [e]
        · have : ¬ identOf m r = h := fun h' => e h'.symm
          simp [e, this]
      constructor
      · rintro ⟨h, hlt⟩
        have : bagRemove m l1 rs = none := by
          apply ih1
          refine ⟨h, ?_⟩
          have := e3 h; have := hcons h; omega
        simp [bagRemove, e1, this]
      · intro hle
        obtain ⟨l', g1, g2, g3⟩ := ih2 (by
          intro h
          have := e3 h; have := hcons h; have := hle h; omega)
        refine ⟨l', by simp [bagRemove, e1, g1], fun y hy => e2 y (g2 y hy), ?_⟩
        intro h
        have := e3 h; have := hcons h; have := g3 h; omega
    · have e1 := f1 hm
      constructor
      · intro _; simp [bagRemove, e1]
      · intro hle
        have := hle (identOf m r)
        have h0 : (l.map (identOf m)).count (identOf m r) = 0 := List.count_eq_zero.2 hm
        simp only [List.map_cons, List.count_cons, beq_self_eq_true, if_true] at this
        omega

/-- the outcome of the multiset leaf in terms of hash codes -/
theorem patchMsetLeaf_counts (m : Opts) (a remove add : List Json) :
    ((∃ h, (a.map (hashCode m)).count h < (remove.map (hashCode m)).count h) →
      patchMsetLeaf m a remove add = .err) ∧
    ((∀ h, (remove.map (hashCode m)).count h ≤ (a.map (hashCode m)).count h) →
      ∃ ys, patchMsetLeaf m a remove add = .ok (.arr .mset ys) ∧
        (∀ y ∈ ys, y ∈ a ++ remove ++ add) ∧
        HSortedLe (ys.map (hashCode m)) ∧
        ∀ h, (ys.map (hashCode m)).count h =
          (a.map (hashCode m)).count h - (remove.map (hashCode m)).count h +
            (add.map (hashCode m)).count h) := by
  constructor
  · rintro ⟨h, hlt⟩
    have : ((hdedup (hashList m a ++ hashList m remove)).any
        (fun h => decide (countOcc h (hashList m a) < countOcc h (hashList m remove)))) = true := by
      rw [List.any_eq_true]
      refine ⟨h, ?_, ?_⟩
      · rw [mem_hdedup, List.mem_append]
        right
        rw [hashList_eq_map]
        apply List.count_pos_iff.1
        omega
      · simpa [countOcc_eq_count, hashList_eq_map] using hlt
    simp only [patchMsetLeaf]
    rw [if_pos this]
  · intro hle
    have hno : ((hdedup (hashList m a ++ hashList m remove)).any
        (fun h => decide (countOcc h (hashList m a) < countOcc h (hashList m remove)))) = false := by
      rw [List.any_eq_false]
      intro h _
      simpa [countOcc_eq_count, hashList_eq_map] using hle h
    have hall : (a ++ remove ++ add).map (hashCode m) =
        hashList m a ++ hashList m remove ++ hashList m add := by
      simp [hashList_eq_map]
    have hL : ∀ h ∈ hsort ((hdedup (hashList m a ++ hashList m remove ++ hashList m add)).flatMap
        (fun h => List.replicate (countOcc h (hashList m a) - countOcc h (hashList m remove) +
          countOcc h (hashList m add)) h)), h ∈ (a ++ remove ++ add).map (hashCode m) := by
      intro h hh
      have := (hsort_perm _).mem_iff.1 hh
      simp only [List.mem_flatMap, List.mem_replicate] at this
      obtain ⟨d, hd, _, rfl⟩ := this
      rw [hall]
      exact (mem_hdedup _ _).1 hd
    obtain ⟨g1, g2⟩ := filterMap_hashLookup _ hL
    refine ⟨_, by simp only [patchMsetLeaf]; rw [if_neg (by simp [hno])], g2, ?_, ?_⟩
    · rw [g1]; exact hsort_sorted_sp _
    · intro h
      rw [g1, (hsort_perm _).count_eq, count_flatMap_replicate _ _ _ (nodup_hdedup _)]
      simp only [countOcc_eq_count, hashList_eq_map, mem_hdedup, List.mem_append]
      split
      · rfl
      · rename_i hn
        simp only [not_or] at hn
        rw [List.count_eq_zero.2 hn.1.1, List.count_eq_zero.2 hn.2]
        omega

/-- **C08, multiset hunks.** Under `Faithful`, the leaf case of `jsonMultiset.patch` fails exactly
    when the reference bag difference `bagRemove` fails (some removed element is not present often
    enough); otherwise the result has, for every element at hand, as many equivalent members as
    `(target minus removed) ++ added`, its members are weakly increasing in hash order. -/
theorem patchMsetLeaf_spec (a remove add : List Json)
    (hF : Faithful [.mset] (a ++ remove ++ add)) :
    (bagRemove [.mset] a remove = none → patchMsetLeaf [.mset] a remove add = .err) ∧
    (∀ l', bagRemove [.mset] a remove = some l' →
      ∃ ys, patchMsetLeaf [.mset] a remove add = .ok (.arr .mset ys) ∧
        (∀ y ∈ ys, y ∈ a ++ remove ++ add) ∧
        HSortedLe (ys.map (hashCode [.mset])) ∧
        (∀ z ∈ a ++ remove ++ add,
          cntEq [.mset] z ys =
            cntEq [.mset] z a - cntEq [.mset] z remove + cntEq [.mset] z add) ∧
        (∀ z ∈ a ++ remove ++ add, cntEq [.mset] z ys = cntEq [.mset] z (l' ++ add))) := by
  have hid : identOf [.mset] = hashCode [.mset] := funext (identOf_eq_hashCode rfl)
  have hs : ∀ y ∈ a, y ∈ a ++ remove ++ add := fun y hy => by simp [hy]
  have hr : ∀ y ∈ remove, y ∈ a ++ remove ++ add := fun y hy => by simp [hy]
  have ha : ∀ y ∈ add, y ∈ a ++ remove ++ add := fun y hy => by simp [hy]
  obtain ⟨b1, b2⟩ := bagRemove_count hF remove a hs hr
  obtain ⟨c1, c2⟩ := patchMsetLeaf_counts [.mset] a remove add
  rw [hid] at b1 b2
  by_cases hle : ∀ h, (remove.map (hashCode [.mset])).count h ≤ (a.map (hashCode [.mset])).count h
  · obtain ⟨l0, e0, sub0, cnt0⟩ := b2 hle
    obtain ⟨ys, e, hsub, hsorted, hcnt⟩ := c2 hle
    refine ⟨fun hn => (by rw [hn] at e0; cases e0), ?_⟩
    intro l' hl'
    rw [e0] at hl'
    cases hl'
    refine ⟨ys, e, hsub, hsorted, ?_, ?_⟩
    · intro z hz
      rw [cntEq_eq_count hF hz hsub, cntEq_eq_count hF hz hs, cntEq_eq_count hF hz hr,
        cntEq_eq_count hF hz ha, hid]
      exact hcnt _
    · intro z hz
      have hl0 : ∀ y ∈ l0 ++ add, y ∈ a ++ remove ++ add := by
        intro y hy
        simp only [List.mem_append] at hy
        rcases hy with h | h
        · exact hs y (sub0 y h)
        · exact ha y h
      rw [cntEq_eq_count hF hz hsub, cntEq_eq_count hF hz hl0, hid, hcnt, List.map_append,
        List.count_append]
      have := cnt0 (hashCode [.mset] z)
      omega
  · have : ∃ h, (a.map (hashCode [.mset])).count h < (remove.map (hashCode [.mset])).count h := by
      apply Classical.byContradiction
      intro hc
      apply hle
      intro h
      apply Classical.byContradiction
      intro hc'
      exact hc ⟨h, by omega⟩
    refine ⟨fun _ => c1 this, ?_⟩
    intro l' hl'
    rw [b1 this] at hl'
    cases hl'


/-- **regardless of the order of the members in the target** (no hypothesis on hashes needed): for a
    permutation of the target the multiset hunk is rejected in both cases or applies in both, and
    the two results carry the same hash codes in the same order. -/
theorem patchMsetLeaf_perm (m : Opts) {a a' : List Json} (hp : a'.Perm a) (remove add : List Json) :
    (patchMsetLeaf m a remove add = .err ∧ patchMsetLeaf m a' remove add = .err) ∨
    ∃ ys ys', patchMsetLeaf m a remove add = .ok (.arr .mset ys) ∧
      patchMsetLeaf m a' remove add = .ok (.arr .mset ys') ∧
      ys.map (hashCode m) = ys'.map (hashCode m) := by
  have hc : ∀ h, (a'.map (hashCode m)).count h = (a.map (hashCode m)).count h :=
    fun h => (hp.map (hashCode m)).count_eq h
  obtain ⟨c1, c2⟩ := patchMsetLeaf_counts m a remove add
  obtain ⟨d1, d2⟩ := patchMsetLeaf_counts m a' remove add
  by_cases hle : ∀ h, (remove.map (hashCode m)).count h ≤ (a.map (hashCode m)).count h
  · obtain ⟨ys, e, _, hsorted, hcnt⟩ := c2 hle
    obtain ⟨ys', e', _, hsorted', hcnt'⟩ := d2 (fun h => by rw [hc]; exact hle h)
    refine Or.inr ⟨ys, ys', e, e', HSortedLe.ext hsorted hsorted' ?_⟩
    intro h; rw [hcnt, hcnt', hc]
  · have : ∃ h, (a.map (hashCode m)).count h < (remove.map (hashCode m)).count h := by
      apply Classical.byContradiction
      intro hc
      apply hle
      intro h
      apply Classical.byContradiction
      intro hc'
      exact hc ⟨h, by omega⟩
    obtain ⟨h, hlt⟩ := this
    exact Or.inl ⟨c1 ⟨h, hlt⟩, d1 ⟨h, by rw [hc]; exact hlt⟩⟩

/-- the same, phrased with the advertised equivalence -/
theorem patchMsetLeaf_perm_equiv {a a' : List Json} (hp : a'.Perm a) (remove add : List Json)
    (hF : Faithful [.mset] (a ++ remove ++ add)) :
    (patchMsetLeaf [.mset] a remove add = .err ∧ patchMsetLeaf [.mset] a' remove add = .err) ∨
    ∃ ys ys', patchMsetLeaf [.mset] a remove add = .ok (.arr .mset ys) ∧
      patchMsetLeaf [.mset] a' remove add = .ok (.arr .mset ys') ∧
      ∀ z ∈ a ++ remove ++ add, cntEq [.mset] z ys = cntEq [.mset] z ys' := by
  have hid : identOf [.mset] = hashCode [.mset] := funext (identOf_eq_hashCode rfl)
  rcases patchMsetLeaf_perm [.mset] hp remove add with h | ⟨ys, ys', e, e', hids⟩
  · exact Or.inl h
  · refine Or.inr ⟨ys, ys', e, e', ?_⟩
    intro z hz
    have hsub : ∀ y ∈ ys, y ∈ a ++ remove ++ add := by
      obtain ⟨ys0, e0, hsub0, _⟩ := (patchMsetLeaf_counts [.mset] a remove add).2 (by
        apply Classical.byContradiction
        intro hc
        have : ∃ h, (a.map (hashCode [.mset])).count h < (remove.map (hashCode [.mset])).count h := by
          apply Classical.byContradiction
          intro hc2
          apply hc
          intro h
          apply Classical.byContradiction
          intro hc'
          exact hc2 ⟨h, by omega⟩
        rw [(patchMsetLeaf_counts [.mset] a remove add).1 this] at e
        cases e)
      rw [e] at e0
      cases e0
      exact hsub0
    have hsub' : ∀ y ∈ ys', y ∈ a ++ remove ++ add := by
      obtain ⟨ys0, e0, hsub0, _⟩ := (patchMsetLeaf_counts [.mset] a' remove add).2 (by
        apply Classical.byContradiction
        intro hc
        have : ∃ h, (a'.map (hashCode [.mset])).count h < (remove.map (hashCode [.mset])).count h := by
          apply Classical.byContradiction
          intro hc2
          apply hc
          intro h
          apply Classical.byContradiction
          intro hc'
          exact hc2 ⟨h, by omega⟩
        rw [(patchMsetLeaf_counts [.mset] a' remove add).1 this] at e'
        cases e')
      rw [e'] at e0
      cases e0
      intro y hy
      have := hsub0 y hy
      simp only [List.mem_append, hp.mem_iff] at this ⊢
      exact this
    rw [cntEq_eq_count hF hz hsub, cntEq_eq_count hF hz hsub', hid, hids]

/-- **link to the reference** `applyBagLeaf` (JdSpec.HunkSem): rejected iff the reference rejects;
    otherwise equal as bags on the elements at hand -/
theorem patchMsetLeaf_ref (a : List Json) (h : Hunk)
    (hF : Faithful [.mset] (a ++ h.remove ++ h.add)) :
    (applyBagLeaf a h = none ∧ patchMsetLeaf [.mset] a h.remove h.add = .err) ∨
    ∃ zs ys, applyBagLeaf a h = some zs ∧
      patchMsetLeaf [.mset] a h.remove h.add = .ok (.arr .mset ys) ∧
      ∀ z ∈ a ++ h.remove ++ h.add, cntEq [.mset] z ys = cntEq [.mset] z zs := by
  obtain ⟨h1, h2⟩ := patchMsetLeaf_spec a h.remove h.add hF
  cases hb : bagRemove [.mset] a h.remove with
  | none => exact Or.inl ⟨by simp [applyBagLeaf, hb], h1 hb⟩
  | some l' =>
    obtain ⟨ys, e, _, _, _, hc⟩ := h2 l' hb
    exact Or.inr ⟨l' ++ h.add, ys, by simp [applyBagLeaf, hb], e, hc⟩

/-- how `patchNode` reaches the multiset leaf -/
theorem patchNode_mset_leaf (sw : Bool) (t : Tag) (ht : t = .raw ∨ t = .mset) (xs : List Json)
    (rest : Path) (before remove add after : List Json) :
    patchNode sw false (.arr t xs) (.mset :: rest) before remove add after =
      patchMsetLeaf [.mset] xs remove add := by
  rw [patchNode.eq_def]
  rcases ht with rfl | rfl <;> simp [effTag, pathMeta, dispatchTag]

/-- C08 for a multiset hunk at the addressed array, against the reference interpreter -/
theorem patchNode_mset_ref (sw : Bool) (t : Tag) (ht : t = .raw ∨ t = .mset) (xs : List Json)
    (rest : Path) (h : Hunk) (hF : Faithful [.mset] (xs ++ h.remove ++ h.add)) :
    (applyHunkRef (.arr t xs) (.mset :: rest) h = none ∧
      patchNode sw false (.arr t xs) (.mset :: rest) h.before h.remove h.add h.after = .err) ∨
    ∃ zs ys, applyHunkRef (.arr t xs) (.mset :: rest) h = some (.arr .raw zs) ∧
      patchNode sw false (.arr t xs) (.mset :: rest) h.before h.remove h.add h.after =
        .ok (.arr .mset ys) ∧
      ∀ z ∈ xs ++ h.remove ++ h.add, cntEq [.mset] z ys = cntEq [.mset] z zs := by
  rw [patchNode_mset_leaf sw t ht]
  rcases patchMsetLeaf_ref xs h hF with ⟨e1, e2⟩ | ⟨zs, ys, e1, e2, e3⟩
  · exact Or.inl ⟨by simp [applyHunkRef, e1], e2⟩
  · exact Or.inr ⟨zs, ys, by simp [applyHunkRef, e1], e2, e3⟩

end Jd

#print axioms Jd.bswap_inj
#print axioms Jd.patchSetLeaf_spec_of
#print axioms Jd.patchSetLeaf_spec
#print axioms Jd.patchSetLeaf_perm
#print axioms Jd.patchSetLeaf_ref
#print axioms Jd.patchNode_set_ref
#print axioms Jd.setHunk_duplicate_removal
#print axioms Jd.faithful_scalars
#print axioms Jd.patchMsetLeaf_counts
#print axioms Jd.patchMsetLeaf_spec
#print axioms Jd.patchMsetLeaf_perm
#print axioms Jd.patchMsetLeaf_perm_equiv
#print axioms Jd.patchMsetLeaf_ref
#print axioms Jd.patchNode_mset_ref
