/-
  JdProofs.DiffEmpty — property C05 in LIST mode (strict strategy and MERGE strategy):
  `a.Diff(b)` is empty if and only if `a.Equals(b)` under the same options.

  Domain: options whose array reading is "list" (`dispatchTag o = .list`), no Precision
  (`precOf o = 0`); documents as produced by the readers on the left (`rawDoc`), list documents on
  the right, unique keys (`wf`), finite numbers, no negative zero.
  Trusted / assumed facts, always explicit hypotheses:
    `FloatEq0`  (JdProofs.Common; IEEE-754: two finite doubles other than `-0` at distance ≤ +0 have
                 the same bits),
    `DE.HashOK` (no FNV collision between non-equal subterms) — only for "empty diff ⇒ equal", strict.
  Unfolding lemmas and the induction principle live in the namespace `Jd.DE` (copies, generalised to
  either strategy, of the ones in JdProofs.DiffPatchList, which this file does not import).
-/
import JdModel
import JdSpec
import JdProofs.EqualsList
import JdProofs.LcsProofs
import JdProofs.SubAfter
import JdProofs.Common

namespace Jd
open Jd.Spec

/-! ## 0. the domain -/

/-- the documents of the theorems -/
structure Dom (x : Json) : Prop where
  listDoc : x.listDoc = true
  wf : x.wf = true
  fin : x.finiteNums = true
  nnz : x.noNegZero = true

structure DomL (xs : List Json) : Prop where
  listDoc : listDocList xs = true
  wf : wfList xs = true
  fin : finiteNumsList xs = true
  nnz : noNegZeroList xs = true

structure DomK (kvs : List (String × Json)) : Prop where
  listDoc : listDocKvs kvs = true
  wf : wfKvs kvs = true
  fin : finiteNumsKvs kvs = true
  nnz : noNegZeroKvs kvs = true

theorem domL_cons {x : Json} {r : List Json} : DomL (x :: r) ↔ Dom x ∧ DomL r := by
  constructor
  · rintro ⟨h1, h2, h3, h4⟩
    simp only [listDocList, wfList, finiteNumsList, noNegZeroList, Bool.and_eq_true] at h1 h2 h3 h4
    exact ⟨⟨h1.1, h2.1, h3.1, h4.1⟩, ⟨h1.2, h2.2, h3.2, h4.2⟩⟩
  · rintro ⟨⟨h1, h2, h3, h4⟩, ⟨g1, g2, g3, g4⟩⟩
    exact ⟨by simp [listDocList, h1, g1], by simp [wfList, h2, g2], by simp [finiteNumsList, h3, g3],
      by simp [noNegZeroList, h4, g4]⟩

theorem dom_arr {t : Tag} {xs : List Json} :
    Dom (.arr t xs) ↔ (t == .raw || t == .list) = true ∧ DomL xs := by
  constructor
  · rintro ⟨h1, h2, h3, h4⟩
    simp only [Json.listDoc, Bool.and_eq_true] at h1
    simp only [Json.wf] at h2
    simp only [Json.finiteNums] at h3
    simp only [Json.noNegZero] at h4
    exact ⟨h1.1, ⟨h1.2, h2, h3, h4⟩⟩
  · rintro ⟨ht, ⟨g1, g2, g3, g4⟩⟩
    exact ⟨by simp only [Json.listDoc, Bool.and_eq_true]; exact ⟨ht, g1⟩, by simpa [Json.wf] using g2,
      by simpa [Json.finiteNums] using g3, by simpa [Json.noNegZero] using g4⟩

theorem dom_obj {kvs : List (String × Json)} :
    Dom (.obj kvs) ↔ keysSorted kvs = true ∧ DomK kvs := by
  constructor
  · rintro ⟨h1, h2, h3, h4⟩
    simp only [Json.listDoc] at h1
    simp only [Json.wf, Bool.and_eq_true] at h2
    simp only [Json.finiteNums] at h3
    simp only [Json.noNegZero] at h4
    exact ⟨h2.1, ⟨h1, h2.2, h3, h4⟩⟩
  · rintro ⟨hs, ⟨g1, g2, g3, g4⟩⟩
    exact ⟨by simpa [Json.listDoc] using g1, by simp [Json.wf, hs, g2],
      by simpa [Json.finiteNums] using g3, by simpa [Json.noNegZero] using g4⟩

theorem domK_cons {k : String} {v : Json} {r : List (String × Json)} :
    DomK ((k, v) :: r) ↔ Dom v ∧ DomK r := by
  constructor
  · rintro ⟨h1, h2, h3, h4⟩
    simp only [listDocKvs, wfKvs, finiteNumsKvs, noNegZeroKvs, Bool.and_eq_true] at h1 h2 h3 h4
    exact ⟨⟨h1.1, h2.1, h3.1, h4.1⟩, ⟨h1.2, h2.2, h3.2, h4.2⟩⟩
  · rintro ⟨⟨h1, h2, h3, h4⟩, ⟨g1, g2, g3, g4⟩⟩
    exact ⟨by simp [listDocKvs, h1, g1], by simp [wfKvs, h2, g2], by simp [finiteNumsKvs, h3, g3],
      by simp [noNegZeroKvs, h4, g4]⟩

theorem DomK.lookup {kvs : List (String × Json)} (h : DomK kvs) {k : String} {v : Json}
    (hl : alookup k kvs = some v) : Dom v := by
  induction kvs with
  | nil => simp [alookup] at hl
  | cons kv r ih =>
    obtain ⟨k', v'⟩ := kv
    rw [domK_cons] at h
    simp only [alookup] at hl
    split at hl
    · cases hl; exact h.1
    · exact ih h.2 hl

/-! ## 1. objects with unique sorted keys -/

/-- strictly increasing key lists with the same members are the same list -/
theorem sorted_keys_eq {β γ} : ∀ (l : List (String × β)) (l' : List (String × γ)),
    keysSorted l = true → keysSorted l' = true →
    (∀ k, k ∈ l.map Prod.fst ↔ k ∈ l'.map Prod.fst) → l.map Prod.fst = l'.map Prod.fst
  | [], [], _, _, _ => rfl
  | [], (k', v') :: r', _, _, h => by simpa using (h k').2 (by simp)
  | (k, v) :: r, [], _, _, h => by simpa using (h k).1 (by simp)
  | (k, v) :: r, (k', v') :: r', hs, hs', h => by
    have hlt : ∀ k0, k0 ∈ r.map Prod.fst → k < k0 := by
      intro k0 hm
      obtain ⟨⟨k1, v1⟩, hm1, e⟩ := List.mem_map.1 hm
      simp only at e; subst e
      exact keysSorted_head_lt hs _ _ hm1
    have hlt' : ∀ k0, k0 ∈ r'.map Prod.fst → k' < k0 := by
      intro k0 hm
      obtain ⟨⟨k1, v1⟩, hm1, e⟩ := List.mem_map.1 hm
      simp only at e; subst e
      exact keysSorted_head_lt hs' _ _ hm1
    have hk : k = k' := by
      have h1 : k ∈ k' :: r'.map Prod.fst := by simpa using (h k).1 (by simp)
      have h2 : k' ∈ k :: r.map Prod.fst := by simpa using (h k').2 (by simp)
      rcases List.mem_cons.1 h1 with e | h1
      · exact e
      rcases List.mem_cons.1 h2 with e | h2
      · exact e.symm
      exact absurd (String.lt_trans (hlt _ h2) (hlt' _ h1)) (String.lt_irrefl _)
    subst hk
    have ih := sorted_keys_eq r r' (keysSorted_tail hs) (keysSorted_tail hs') (fun k0 => by
      constructor
      · intro hm
        have h3 : k0 ∈ k :: r'.map Prod.fst := by
          simpa using (h k0).1 (by simp [List.mem_map] at hm ⊢; exact .inr hm)
        rcases List.mem_cons.1 h3 with e | h3
        · exact absurd (e ▸ hlt k0 hm) (String.lt_irrefl _)
        · exact h3
      · intro hm
        have h3 : k0 ∈ k :: r.map Prod.fst := by
          simpa using (h k0).2 (by simp [List.mem_map] at hm ⊢; exact .inr hm)
        rcases List.mem_cons.1 h3 with e | h3
        · exact absurd (e ▸ hlt' k0 hm) (String.lt_irrefl _)
        · exact h3)
    simp [ih]

theorem mem_keys_iff_isSome {β} {k : String} {kvs : List (String × β)} :
    k ∈ kvs.map Prod.fst ↔ (alookup k kvs).isSome = true := by
  induction kvs with
  | nil => simp [alookup]
  | cons kv r ih =>
    obtain ⟨k', v'⟩ := kv
    simp only [List.map_cons, List.mem_cons, alookup]
    by_cases e : k = k'
    · simp [e]
    · simp [e, ih]

theorem allLook_keys_subset {R : Json → Json → Bool} {kvs kvs' : List (String × Json)}
    (h : AllLook R kvs kvs') : ∀ k, k ∈ kvs.map Prod.fst → k ∈ kvs'.map Prod.fst := by
  intro k hk
  obtain ⟨⟨k0, v⟩, hm, he⟩ := List.mem_map.1 hk
  simp only at he
  subst he
  obtain ⟨v', hl, _⟩ := h k0 v hm
  exact List.mem_map.2 ⟨(k0, v'), mem_of_alookup hl, rfl⟩

/-- `Equals` on two objects with unique keys: every member of the first has an equal member in the
    second, and the second has no other key -/
theorem equals_obj_iff (o : Opts) {kvs kvs' : List (String × Json)} (hs : keysSorted kvs = true)
    (hs' : keysSorted kvs' = true) :
    equals o (.obj kvs) (.obj kvs') = true ↔
      AllLook (equals o) kvs kvs' ∧ ∀ k' v', (k', v') ∈ kvs' → (alookup k' kvs).isSome = true := by
  constructor
  · intro h
    simp only [equals, Bool.and_eq_true, beq_iff_eq] at h
    obtain ⟨hlen, hk⟩ := h
    rw [equalsKvs_eq_lookAll, lookAll_iff] at hk
    refine ⟨hk, ?_⟩
    intro k' v' hm
    obtain ⟨v, hl, _⟩ := AllLook.flip hs hs' hlen hk k' v' hm
    simp [hl]
  · rintro ⟨h1, h2⟩
    have hkeys : kvs.map Prod.fst = kvs'.map Prod.fst := by
      apply sorted_keys_eq kvs kvs' hs hs'
      intro k
      refine ⟨allLook_keys_subset h1 k, ?_⟩
      intro hk
      obtain ⟨⟨k0, v'⟩, hm, he⟩ := List.mem_map.1 hk
      simp only at he
      subst he
      exact mem_keys_iff_isSome.2 (h2 k0 v' hm)
    have hlen : kvs.length = kvs'.length := by
      simpa using congrArg List.length hkeys
    simp only [equals, Bool.and_eq_true, beq_iff_eq]
    exact ⟨hlen, by rw [equalsKvs_eq_lookAll, lookAll_iff]; exact h1⟩

/-- same keys at the same positions, related values -/
def KvsPW (R : Json → Json → Bool) : List (String × Json) → List (String × Json) → Prop
  | [], [] => True
  | (k, v) :: r, (k', v') :: r' => k = k' ∧ R v v' = true ∧ KvsPW R r r'
  | _, _ => False

/-- with the same key list, lookup-wise relation is position-wise relation -/
theorem kvsPW_of_allLook {R : Json → Json → Bool} :
    ∀ (kvs kvs' : List (String × Json)), keysSorted kvs' = true →
      kvs.map Prod.fst = kvs'.map Prod.fst → AllLook R kvs kvs' → KvsPW R kvs kvs'
  | [], [], _, _, _ => trivial
  | [], _ :: _, _, h, _ => by simp at h
  | _ :: _, [], _, h, _ => by simp at h
  | (k, v) :: r, (k', v') :: r', hs', hmap, hall => by
    simp only [List.map_cons, List.cons.injEq] at hmap
    obtain ⟨rfl, hmap⟩ := hmap
    obtain ⟨v'', hl, hr⟩ := hall k v List.mem_cons_self
    simp only [alookup, if_true, Option.some.injEq] at hl
    subst hl
    refine ⟨rfl, hr, kvsPW_of_allLook r r' (keysSorted_tail hs') hmap ?_⟩
    intro k0 v0 hm
    obtain ⟨v0', hl, hr⟩ := hall k0 v0 (List.mem_cons_of_mem _ hm)
    have hne : k0 ≠ k := by
      intro e
      subst e
      have hm' : k0 ∈ r'.map Prod.fst := hmap ▸ List.mem_map.2 ⟨(k0, v0), hm, rfl⟩
      obtain ⟨⟨k1, v1⟩, hm1, e1⟩ := List.mem_map.1 hm'
      simp only at e1
      subst e1
      exact String.lt_irrefl _ (keysSorted_head_lt hs' _ _ hm1)
    simp only [alookup, hne, if_false] at hl
    exact ⟨v0', hl, hr⟩

/-- equal objects with unique keys have the same keys at the same positions, with equal values -/
theorem kvsPW_of_equals (o : Opts) {kvs kvs' : List (String × Json)} (hs : keysSorted kvs = true)
    (hs' : keysSorted kvs' = true) (h : equals o (.obj kvs) (.obj kvs') = true) :
    KvsPW (equals o) kvs kvs' := by
  obtain ⟨h1, h2⟩ := (equals_obj_iff o hs hs').1 h
  refine kvsPW_of_allLook kvs kvs' hs' ?_ h1
  apply sorted_keys_eq kvs kvs' hs hs'
  intro k
  refine ⟨allLook_keys_subset h1 k, ?_⟩
  intro hk
  obtain ⟨⟨k0, v'⟩, hm, he⟩ := List.mem_map.1 hk
  simp only at he
  subst he
  exact mem_keys_iff_isSome.2 (h2 k0 v' hm)

/-! ## 2. equal documents have the same hash code -/

theorem num_eq_of_within (F : FloatEq0) {x y : UInt64} (hx : finiteBits x = true)
    (hy : finiteBits y = true) (nx : (x != negZeroBits) = true) (ny : (y != negZeroBits) = true)
    (h : numWithin 0 x y = true) : x = y := by
  simp only [bne_iff_ne, ne_eq] at nx ny
  exact F.eq_of_within0 x y hx hy nx ny h

mutual
/-- `Equals` implies equal hash codes on the domain (list mode, no precision) -/
theorem hashCode_eq_of_equals (F : FloatEq0) (o : Opts) (ho : dispatchTag o = .list)
    (hp : precOf o = 0) :
    ∀ (a b : Json), Dom a → Dom b → equals o a b = true → hashCode o a = hashCode o b
  | .void, b, _, _, h => by cases b <;> simp_all [equals, Json.isVoid]
  | .null, b, _, _, h => by cases b <;> simp_all [equals, Json.isNull]
  | .bool x, b, _, _, h => by cases b <;> simp_all [equals]
  | .str x, b, _, _, h => by cases b <;> simp_all [equals]
  | .num x, b, ha, hb, h => by
    cases b with
    | num y =>
      have hfa := ha.fin; have hfb := hb.fin; have hna := ha.nnz; have hnb := hb.nnz
      simp only [Json.finiteNums] at hfa hfb
      simp only [Json.noNegZero] at hna hnb
      simp only [equals, hp] at h
      rw [num_eq_of_within F hfa hfb hna hnb h]
    | _ => simp [equals] at h
  | .arr t xs, b, ha, hb, h => by
    have ha' := dom_arr.1 ha
    cases b with
    | arr t' ys =>
      have hb' := dom_arr.1 hb
      rw [equals_arr_list ho xs ys ha'.1 hb'.1] at h
      have := hashList_eq_of_equalsList F o ho hp xs ys ha'.2 hb'.2 h
      simp [hashCode, effTag_list ho ha'.1, effTag_list ho hb'.1, this]
    | _ => simp [equals, Json.dispatch, effTag_list ho ha'.1] at h
  | .obj kvs, b, ha, hb, h => by
    cases b with
    | obj kvs' =>
      have ha' := dom_obj.1 ha
      have hb' := dom_obj.1 hb
      have hpw := kvsPW_of_equals o ha'.1 hb'.1 h
      simp [hashCode, hashKvs_eq_of_kvsPW F o ho hp kvs kvs' ha'.2 hb'.2 hpw]
    | _ => simp [equals] at h
theorem hashList_eq_of_equalsList (F : FloatEq0) (o : Opts) (ho : dispatchTag o = .list)
    (hp : precOf o = 0) :
    ∀ (xs ys : List Json), DomL xs → DomL ys → equalsList o xs ys = true →
      hashList o xs = hashList o ys
  | [], [], _, _, _ => rfl
  | [], _ :: _, _, _, h => by simp [equalsList] at h
  | _ :: _, [], _, _, h => by simp [equalsList] at h
  | x :: xs, y :: ys, ha, hb, h => by
    rw [domL_cons] at ha hb
    simp only [equalsList, Bool.and_eq_true] at h
    simp only [hashList]
    rw [hashCode_eq_of_equals F o ho hp x y ha.1 hb.1 h.1,
      hashList_eq_of_equalsList F o ho hp xs ys ha.2 hb.2 h.2]
theorem hashKvs_eq_of_kvsPW (F : FloatEq0) (o : Opts) (ho : dispatchTag o = .list)
    (hp : precOf o = 0) :
    ∀ (kvs kvs' : List (String × Json)), DomK kvs → DomK kvs' → KvsPW (equals o) kvs kvs' →
      hashKvs o kvs = hashKvs o kvs'
  | [], [], _, _, _ => rfl
  | [], _ :: _, _, _, h => by simp [KvsPW] at h
  | _ :: _, [], _, _, h => by simp [KvsPW] at h
  | (k, v) :: r, (k', v') :: r', ha, hb, h => by
    rw [domK_cons] at ha hb
    simp only [KvsPW] at h
    obtain ⟨rfl, hv, hr⟩ := h
    simp only [hashKvs]
    rw [hashCode_eq_of_equals F o ho hp v v' ha.1 hb.1 hv,
      hashKvs_eq_of_kvsPW F o ho hp r r' ha.2 hb.2 hr]
end

/-! ## 3. a list is its own longest common subsequence -/

theorem lcsValues_self {α} [BEq α] [LawfulBEq α] (h : List α) : lcsValues h h = h :=
  (lcsValues_sublist_left h h).eq_of_length_le
    (lcs_optimal h h h (List.Sublist.refl _) (List.Sublist.refl _))

/-! ## 4. unfolding equations of the diff functions in list mode, either strategy
  (`m` is `strategy == mergePatchStrategy`) -/

namespace DE

/-- "the cursor element is the next element of the common sequence" (`atCommonA` / `atCommonB`) -/
def atC (o : Opts) (x : Json) (c : List UInt64) : Bool :=
  match c with | [] => false | z :: _ => hashCode o x == z

theorem atC_both_hash {o : Opts} {x y : Json} {c : List UInt64} (hx : atC o x c = true)
    (hy : atC o y c = true) : hashCode o x = hashCode o y := by
  cases c with
  | nil => simp [atC] at hx
  | cons z c' =>
    simp only [atC, beq_iff_eq] at hx hy
    rw [hx, hy]

theorem diffRest_nil_nil (o : Opts) (p : Path) (k s : Nat) (prev : Json) (c : List UInt64) :
    diffRest o p k s prev [] [] c [] [] = [] := by
  rw [diffRest.eq_def]; simp [accHunk]

theorem diffRest_nilA (o : Opts) (p : Path) (k s : Nat) (prev : Json) (b : List Json) (c : List UInt64)
    (R A : List Json) :
    diffRest o p k s prev [] b c R A = accHunk p s prev R (A ++ b) .void := by
  rw [diffRest.eq_def]

theorem diffRest_nilB (o : Opts) (p : Path) (k s : Nat) (prev : Json) (a : List Json) (c : List UInt64)
    (R A : List Json) (ha : a ≠ []) :
    diffRest o p k s prev a [] c R A = accHunk p s prev (R ++ a) A .void := by
  rw [diffRest.eq_def]
  cases a with
  | nil => exact absurd rfl ha
  | cons x a' => rfl

theorem diffRest_cons (o : Opts) (p : Path) (k s : Nat) (prev x y : Json) (a' b' : List Json)
    (c : List UInt64) (R A : List Json) :
    diffRest o p k s prev (x :: a') (y :: b') c R A =
      if atC o x c && atC o y c then
        accHunk p s prev R A x ++ diffRest o p (k + 1) (k + 1) y a' b' c.tail [] []
      else if atC o x c then diffRest o p (k + 1) s prev (x :: a') b' c R (A ++ [y])
      else if atC o y c then diffRest o p k s prev a' (y :: b') c (R ++ [x]) A
      else if sameContainerType o x y then
        accHunk p s prev R A
            (if (diffNode o false x y (p ++ [.idx k])).isEmpty then a'.headD .void else x) ++
          subAfter p (R.isEmpty && A.isEmpty) (a'.headD .void) (diffNode o false x y (p ++ [.idx k])) ++
          diffRest o p (k + 1) (k + 1) y a' b' c [] []
      else diffRest o p (k + 1) s prev a' b' c (R ++ [x]) (A ++ [y]) := by
  rw [diffRest.eq_def]
  simp only [atC]
  have h0 : ∀ c', (if (a'.isEmpty && b'.isEmpty) = true then ([] : Diff)
      else diffRest o p (k + 1) (k + 1) y a' b' c' [] []) =
      diffRest o p (k + 1) (k + 1) y a' b' c' [] [] := by
    intro c'
    split
    · next h =>
      simp only [Bool.and_eq_true, List.isEmpty_iff] at h
      obtain ⟨rfl, rfl⟩ := h
      rw [diffRest_nil_nil]
    · rfl
  simp only [h0]
  rfl

theorem diffNode_arr_arr {o : Opts} (ho : dispatchTag o = .list) {t t' : Tag} (xs ys : List Json)
    (ht : (t == .raw || t == .list) = true) (ht' : (t' == .raw || t' == .list) = true)
    (htt : t = .raw ∨ t' = .list) (m : Bool) (p : Path) :
    diffNode o m (.arr t xs) (.arr t' ys) p =
      if m then
        (if !(equals o (.arr .list xs) (.arr .list ys)) then
          [{ merge := true, path := p, add := (Json.arr .list ys).nodeList }]
         else [])
      else diffRest o p 0 0 .void xs ys (lcsValues (hashList o xs) (hashList o ys)) [] [] := by
  rw [diffNode.eq_def]
  cases t <;> cases t' <;> simp_all [effTag, Json.dispatch]

/-- a list against a non-array, or a typed `jsonList` against a plain `jsonArray`: one hunk
    replacing the whole value -/
theorem diffNode_arr_other_ne {o : Opts} (ho : dispatchTag o = .list) {t : Tag} (xs : List Json)
    (b : Json) (ht : (t == .raw || t == .list) = true)
    (hb : (∀ t' ys, b ≠ .arr t' ys) ∨ (t = .list ∧ ∃ ys, b = .arr .raw ys)) (m : Bool) (p : Path) :
    diffNode o m (.arr t xs) b p ≠ [] := by
  rw [diffNode.eq_def]
  rcases hb with hb | ⟨rfl, ys, rfl⟩
  · cases t <;> cases b <;> cases m <;> simp_all [effTag, Json.dispatch, Json.nodeList, Json.isVoid]
  · cases m <;> simp [effTag, Json.nodeList, Json.isVoid]

theorem diffNode_obj_obj (o : Opts) (m : Bool) (kvs kvs' : List (String × Json)) (p : Path) :
    diffNode o m (.obj kvs) (.obj kvs') p =
      diffKvs o m p kvs' kvs ++
        (kvs'.filter (fun kv => (alookup kv.1 kvs).isNone)).map (fun kv =>
          { merge := m, path := p ++ [.key kv.1], add := kv.2.nodeList }) := by
  rw [diffNode.eq_def]

theorem diffNode_obj_other_ne (o : Opts) (m : Bool) (kvs : List (String × Json)) (b : Json)
    (hb : ∀ kvs', b ≠ .obj kvs') (p : Path) : diffNode o m (.obj kvs) b p ≠ [] := by
  rw [diffNode.eq_def]
  cases b <;> cases m <;> simp_all

theorem diffNode_scalar (o : Opts) (m : Bool) (a b : Json) (ha : ∀ t xs, a ≠ .arr t xs)
    (ha' : ∀ kvs, a ≠ .obj kvs) (p : Path) : diffNode o m a b p = diffCommon m a b p := by
  rw [diffNode.eq_def]
  cases a <;> simp_all

theorem diffKvs_nil (o : Opts) (m : Bool) (p : Path) (kvs' : List (String × Json)) :
    diffKvs o m p kvs' [] = [] := by
  rw [diffKvs.eq_def]

theorem diffKvs_cons (o : Opts) (m : Bool) (p : Path) (kvs' : List (String × Json)) (k : String)
    (v : Json) (r : List (String × Json)) :
    diffKvs o m p kvs' ((k, v) :: r) =
      (match alookup k kvs' with
       | some v' => diffNode o m v v' (p ++ [.key k])
       | none =>
         if m then [{ merge := true, path := p ++ [.key k], add := [.void] }]
         else [{ path := p ++ [.key k], remove := v.nodeList }]) ++ diffKvs o m p kvs' r := by
  rw [diffKvs.eq_def]
  rfl

end DE

/-! ## 5. scalars -/

/-- without precision, `Equals` on a scalar receiver does not depend on the options
    (`diff_common.go` calls `a.Equals(b)` without options) -/
theorem equals_scalar_noopts {o : Opts} (hp : precOf o = 0) (a b : Json)
    (ha : ∀ t xs, a ≠ .arr t xs) (ha' : ∀ kvs, a ≠ .obj kvs) : equals [] a b = equals o a b := by
  cases a <;> cases b <;> simp_all [equals, precOf]

theorem diffCommon_nil_iff (m : Bool) (a b : Json) (p : Path) :
    diffCommon m a b p = [] ↔ equals [] a b = true := by
  unfold diffCommon
  cases equals [] a b <;> cases m <;> simp

theorem diffNode_scalar_nil_iff {o : Opts} (hp : precOf o = 0) (m : Bool) (a b : Json)
    (ha : ∀ t xs, a ≠ .arr t xs) (ha' : ∀ kvs, a ≠ .obj kvs) (p : Path) :
    diffNode o m a b p = [] ↔ equals o a b = true := by
  rw [DE.diffNode_scalar o m a b ha ha' p, diffCommon_nil_iff, equals_scalar_noopts hp a b ha ha']

/-! ## 6. (⇐) equal documents have an empty diff -/

/-- two lists with the same hash codes, walked along that common sequence: nothing is emitted -/
theorem diffRest_nil_of_hashList_eq (o : Opts) (p : Path) :
    ∀ (xs ys : List Json), hashList o xs = hashList o ys → ∀ (k s : Nat) (prev : Json),
      diffRest o p k s prev xs ys (hashList o xs) [] [] = []
  | [], [], _, k, s, prev => DE.diffRest_nil_nil o p k s prev _
  | [], _ :: _, h, _, _, _ => by simp [hashList] at h
  | _ :: _, [], h, _, _, _ => by simp [hashList] at h
  | x :: xs, y :: ys, h, k, s, prev => by
    simp only [hashList, List.cons.injEq] at h
    rw [DE.diffRest_cons]
    have hx : DE.atC o x (hashList o (x :: xs)) = true := by simp [DE.atC, hashList]
    have hy : DE.atC o y (hashList o (x :: xs)) = true := by simp [DE.atC, hashList, h.1]
    simp only [hx, hy, Bool.and_self, if_true]
    simp only [hashList, List.tail_cons]
    rw [diffRest_nil_of_hashList_eq o p xs ys h.2]
    simp [accHunk]

theorem filter_added_nil {kvs kvs' : List (String × Json)}
    (h : ∀ k' v', (k', v') ∈ kvs' → (alookup k' kvs).isSome = true) :
    kvs'.filter (fun kv => (alookup kv.1 kvs).isNone) = [] := by
  rw [List.filter_eq_nil_iff]
  rintro ⟨k', v'⟩ hm
  have := h k' v' hm
  cases hl : alookup k' kvs <;> simp_all

mutual
/-- (⇐) for every node kind, list mode, either strategy -/
theorem diffNode_nil_of_equals (F : FloatEq0) (o : Opts) (ho : dispatchTag o = .list)
    (hp : precOf o = 0) (m : Bool) :
    ∀ (a b : Json), a.rawDoc = true → Dom a → Dom b → equals o a b = true →
      ∀ p, diffNode o m a b p = []
  | .void, b, _, _, _, h, p =>
    (diffNode_scalar_nil_iff hp m _ b (fun _ _ e => by cases e) (fun _ e => by cases e) p).2 h
  | .null, b, _, _, _, h, p =>
    (diffNode_scalar_nil_iff hp m _ b (fun _ _ e => by cases e) (fun _ e => by cases e) p).2 h
  | .bool _, b, _, _, _, h, p =>
    (diffNode_scalar_nil_iff hp m _ b (fun _ _ e => by cases e) (fun _ e => by cases e) p).2 h
  | .num _, b, _, _, _, h, p =>
    (diffNode_scalar_nil_iff hp m _ b (fun _ _ e => by cases e) (fun _ e => by cases e) p).2 h
  | .str _, b, _, _, _, h, p =>
    (diffNode_scalar_nil_iff hp m _ b (fun _ _ e => by cases e) (fun _ e => by cases e) p).2 h
  | .arr t xs, b, hr, ha, hb, h, p => by
    have ha' := dom_arr.1 ha
    simp only [Json.rawDoc, Bool.and_eq_true, beq_iff_eq] at hr
    obtain ⟨rfl, _⟩ := hr
    cases b with
    | arr t' ys =>
      have hb' := dom_arr.1 hb
      rw [DE.diffNode_arr_arr ho xs ys ha'.1 hb'.1 (.inl rfl)]
      have he : equalsList o xs ys = true := by rwa [equals_arr_list ho xs ys ha'.1 hb'.1] at h
      cases m with
      | true => simp [equals_arr_list ho xs ys (t := .list) (t' := .list) rfl rfl, he]
      | false =>
        have hh := hashList_eq_of_equalsList F o ho hp xs ys ha'.2 hb'.2 he
        simp only [Bool.false_eq_true, if_false]
        rw [← hh, lcsValues_self]
        exact diffRest_nil_of_hashList_eq o p xs ys hh 0 0 .void
    | _ => simp [equals, Json.dispatch, effTag_list ho ha'.1] at h
  | .obj kvs, b, hr, ha, hb, h, p => by
    cases b with
    | obj kvs' =>
      have ha' := dom_obj.1 ha
      have hb' := dom_obj.1 hb
      simp only [Json.rawDoc] at hr
      have h2 := ((equals_obj_iff o ha'.1 hb'.1).1 h).2
      have hk : equalsKvs o kvs kvs' = true := by
        simp only [equals, Bool.and_eq_true] at h
        exact h.2
      rw [DE.diffNode_obj_obj, diffKvs_nil_of_equalsKvs F o ho hp m kvs kvs' hr ha'.2 hb'.2 hk p,
        filter_added_nil h2]
      rfl
    | _ => simp [equals] at h
theorem diffKvs_nil_of_equalsKvs (F : FloatEq0) (o : Opts) (ho : dispatchTag o = .list)
    (hp : precOf o = 0) (m : Bool) :
    ∀ (r kvs' : List (String × Json)), rawDocKvs r = true → DomK r → DomK kvs' →
      equalsKvs o r kvs' = true → ∀ p, diffKvs o m p kvs' r = []
  | [], kvs', _, _, _, _, p => DE.diffKvs_nil o m p kvs'
  | (k, v) :: r, kvs', hr, ha, hb, h, p => by
    rw [domK_cons] at ha
    simp only [rawDocKvs, Bool.and_eq_true] at hr
    simp only [equalsKvs, Bool.and_eq_true] at h
    rw [DE.diffKvs_cons, diffKvs_nil_of_equalsKvs F o ho hp m r kvs' hr.2 ha.2 hb h.2 p]
    cases hl : alookup k kvs' with
    | none => simp [hl] at h
    | some v' =>
      simp only [hl] at h
      simp only [List.append_nil]
      exact diffNode_nil_of_equals F o ho hp m v v' hr.1 ha.1 (hb.lookup hl) h.1 _
end

/-! ## 7. induction principle of the strict list diff (list mode, list documents) -/

namespace DE

theorem effTag_absurd_set {o : Opts} (ho : dispatchTag o = .list) {t : Tag} {xs : List Json}
    (hl : (Json.arr t xs).listDoc = true) (h : effTag o t = .set) : False := by
  simp only [Json.listDoc, Bool.and_eq_true] at hl
  rw [effTag_list ho hl.1] at h; cases h

theorem effTag_absurd_mset {o : Opts} (ho : dispatchTag o = .list) {t : Tag} {xs : List Json}
    (hl : (Json.arr t xs).listDoc = true) (h : effTag o t = .mset) : False := by
  simp only [Json.listDoc, Bool.and_eq_true] at hl
  rw [effTag_list ho hl.1] at h; cases h

theorem atC_split (o : Opts) (x : Json) (c : List UInt64) :
    (match c with | [] => false | z :: _ => hashCode o x == z) = atC o x c := rfl

theorem bprime_list {o : Opts} (ho : dispatchTag o = .list) {t t' : Tag} {ys ys' : List Json}
    (ht : (t == .raw || t == .list) = true) (ht' : (t' == .raw || t' == .list) = true)
    (h : (if (t == Tag.raw) = true then Json.dispatch o (.arr t' ys') else .arr t' ys') = .arr .list ys) :
    ys' = ys ∧ (t = .raw ∨ t' = .list) := by
  cases t <;> cases t' <;> simp_all [Json.dispatch]

theorem bprime_not_list {o : Opts} (ho : dispatchTag o = .list) {t t' : Tag} {ys' : List Json}
    (ht : (t == .raw || t == .list) = true) (ht' : (t' == .raw || t' == .list) = true)
    (h : ∀ ys, (if (t == Tag.raw) = true then Json.dispatch o (.arr t' ys') else .arr t' ys') = .arr .list ys → False) :
    t = .list ∧ t' = .raw := by
  cases t <;> cases t' <;> simp_all [Json.dispatch]

/-- induction principle of the `diffNode` / `diffKvs` / `diffRest` recursion specialised to list
    mode, strict strategy, list documents: only the reachable branches remain -/
theorem listDiff_induct (o : Opts) (ho : dispatchTag o = .list)
    (mN : Json → Json → Prop) (mK : List (String × Json) → List (String × Json) → Prop)
    (mR : Nat → Nat → Json → List Json → List Json → List UInt64 → List Json → List Json → Prop)
    (arr_arr : ∀ t t' xs ys, (t == .raw || t == .list) = true → (t' == .raw || t' == .list) = true →
      (t = .raw ∨ t' = .list) → listDocList xs = true → listDocList ys = true →
      mR 0 0 .void xs ys (lcsValues (hashList o xs) (hashList o ys)) [] [] →
      mN (.arr t xs) (.arr t' ys))
    (arr_other : ∀ t xs b, (t == .raw || t == .list) = true → listDocList xs = true →
      b.listDoc = true → ((∀ t' ys, b ≠ .arr t' ys) ∨ (t = .list ∧ ∃ ys, b = .arr .raw ys)) →
      mN (.arr t xs) b)
    (obj_obj : ∀ kvs kvs', listDocKvs kvs = true → listDocKvs kvs' = true → mK kvs' kvs →
      mN (.obj kvs) (.obj kvs'))
    (obj_other : ∀ kvs b, listDocKvs kvs = true → b.listDoc = true → (∀ kvs', b ≠ .obj kvs') →
      mN (.obj kvs) b)
    (scalar : ∀ a b, (∀ t xs, a ≠ .arr t xs) → (∀ kvs, a ≠ .obj kvs) → b.listDoc = true → mN a b)
    (kvs_nil : ∀ kvs', mK kvs' [])
    (kvs_cons : ∀ kvs' k v r, listDocKvs kvs' = true → v.listDoc = true → listDocKvs r = true →
      (∀ v', v'.listDoc = true → mN v v') → mK kvs' r → mK kvs' ((k, v) :: r))
    (r_nilA : ∀ k s prev c R A b, listDocList b = true → mR k s prev [] b c R A)
    (r_nilB : ∀ k s prev c R A a, a ≠ [] → listDocList a = true → mR k s prev a [] c R A)
    (r_both : ∀ k s prev c R A x a' y b', listDocList (x :: a') = true → listDocList (y :: b') = true →
      atC o x c = true → atC o y c = true → mR (k + 1) (k + 1) y a' b' c.tail [] [] →
      mR k s prev (x :: a') (y :: b') c R A)
    (r_A : ∀ k s prev c R A x a' y b', listDocList (x :: a') = true → listDocList (y :: b') = true →
      atC o x c = true → atC o y c = false → mR (k + 1) s prev (x :: a') b' c R (A ++ [y]) →
      mR k s prev (x :: a') (y :: b') c R A)
    (r_B : ∀ k s prev c R A x a' y b', listDocList (x :: a') = true → listDocList (y :: b') = true →
      atC o x c = false → atC o y c = true → mR k s prev a' (y :: b') c (R ++ [x]) A →
      mR k s prev (x :: a') (y :: b') c R A)
    (r_sub : ∀ k s prev c R A x a' y b', listDocList (x :: a') = true → listDocList (y :: b') = true →
      atC o x c = false → atC o y c = false → sameContainerType o x y = true → mN x y →
      mR (k + 1) (k + 1) y a' b' c [] [] → mR k s prev (x :: a') (y :: b') c R A)
    (r_diff : ∀ k s prev c R A x a' y b', listDocList (x :: a') = true → listDocList (y :: b') = true →
      atC o x c = false → atC o y c = false → sameContainerType o x y = false →
      mR (k + 1) s prev a' b' c (R ++ [x]) (A ++ [y]) → mR k s prev (x :: a') (y :: b') c R A) :
    (∀ a b, a.listDoc = true → b.listDoc = true → mN a b) ∧
    (∀ kvs' kvs, listDocKvs kvs' = true → listDocKvs kvs = true → mK kvs' kvs) ∧
    (∀ k s prev a b c R A, listDocList a = true → listDocList b = true → mR k s prev a b c R A) := by
  have key := diffNode.mutual_induct o
    (motive1 := fun merge a b _ => merge = false → a.listDoc = true → b.listDoc = true → mN a b)
    (motive2 := fun merge _ kvs' kvs => merge = false → listDocKvs kvs' = true → listDocKvs kvs = true →
      mK kvs' kvs)
    (motive3 := fun _ k s prev a b c R A => listDocList a = true → listDocList b = true →
      mR k s prev a b c R A)
    (motive4 := fun _ _ _ _ => True)
  refine (fun h => ⟨fun a b => h.1 false a b [] rfl, fun kvs' kvs => h.2.1 false [] kvs' kvs rfl,
    fun k s prev a b c R A => h.2.2.1 [] k s prev a b c R A⟩) (key ?_ ?_ ?_ ?_ ?_ ?_ ?_ ?_ ?_ ?_ ?_ ?_ ?_ ?_ ?_ ?_ ?_ ?_ ?_ ?_ ?_ ?_ ?_ ?_ ?_ ?_ ?_ ?_ ?_ ?_ ?_ ?_)
  all_goals intros
  all_goals first
    | trivial
    | exact (effTag_absurd_set ho ‹(Json.arr _ _).listDoc = true› ‹effTag o _ = Tag.set›).elim
    | exact (effTag_absurd_mset ho ‹(Json.arr _ _).listDoc = true› ‹effTag o _ = Tag.mset›).elim
    | skip
  · -- list against list
    rename_i b p t xs b' ys hb' _ c _ _ ih _ hl hlb
    simp only [Json.listDoc, Bool.and_eq_true] at hl
    cases b with
    | arr t' ys' =>
      simp only [Json.listDoc, Bool.and_eq_true] at hlb
      have hys : ys' = ys ∧ (t = .raw ∨ t' = .list) := bprime_list ho hl.1 hlb.1 (by simpa [b'] using hb')
      obtain ⟨rfl, htt⟩ := hys
      exact arr_arr t t' xs ys' hl.1 hlb.1 htt hl.2 hlb.2 (ih hl.2 hlb.2)
    | _ => cases t <;> simp [b', Json.dispatch] at hb'
  · -- list against something else
    rename_i b p t xs b' _ _ _ hb' _ hl hlb
    simp only [Json.listDoc, Bool.and_eq_true] at hl
    refine arr_other t xs b hl.1 hl.2 hlb ?_
    cases b with
    | arr t' ys =>
      right
      simp only [Json.listDoc, Bool.and_eq_true] at hlb
      obtain ⟨rfl, rfl⟩ := bprime_not_list ho hl.1 hlb.1 (by simpa [b'] using hb')
      exact ⟨rfl, ys, rfl⟩
    | _ => left; intro t' ys h; cases h
  · rename_i kvs kvs' ih hm hl hl'
    simp only [Json.listDoc] at hl hl'
    exact obj_obj kvs kvs' hl hl' (ih hm hl' hl)
  · rename_i b p kvs _ hb _ hl hlb
    simp only [Json.listDoc] at hl
    exact obj_other kvs b hl hlb (fun kvs' h => hb kvs' h)
  · rename_i b p a h1 h2 _ _ hlb
    exact scalar a b (fun t xs h => h1 t xs h) (fun kvs h => h2 kvs h) hlb
  · exact kvs_nil _
  · rename_i kvs' k v r ih2 ih1 hm hl' hl
    simp only [listDocKvs, Bool.and_eq_true] at hl
    exact kvs_cons kvs' k v r hl' hl.1 hl.2 (fun v' hv' => ih2 v' hm hl.1 hv') (ih1 hm hl' hl.2)
  · exact r_nilA _ _ _ _ _ _ _ ‹_›
  · rename_i a hne hl _
    exact r_nilB _ _ _ _ _ _ a (fun h => hne h) hl
  · rename_i c R A x a' y b' atA atB h ih hl hl'
    simp only [Bool.and_eq_true] at h
    have hl2 := hl; have hl2' := hl'
    simp only [listDocList, Bool.and_eq_true] at hl2 hl2'
    exact r_both _ _ _ c _ _ x a' y b' hl hl' h.1 h.2 (ih hl2.2 hl2'.2)
  · rename_i c R A x a' y b' atA atB h hA ih hl hl'
    have hl2' := hl'
    simp only [listDocList, Bool.and_eq_true] at hl2'
    have hB : atC o y c = false := by
      cases hb : atC o y c with
      | false => rfl
      | true => exact absurd (show (atA && atB) = true by rw [Bool.and_eq_true]; exact ⟨hA, hb⟩) h
    exact r_A _ _ _ c _ _ x a' y b' hl hl' hA hB (ih hl hl2'.2)
  · rename_i c R A x a' y b' atA atB h hA hB ih hl hl'
    have hl2 := hl
    simp only [listDocList, Bool.and_eq_true] at hl2
    exact r_B _ _ _ c _ _ x a' y b' hl hl' (Bool.eq_false_iff.2 hA) hB (ih hl2.2 hl')
  · rename_i c R A x a' y b' atA atB h hA hB hs ih2 ih1 hl hl'
    have hl2 := hl; have hl2' := hl'
    simp only [listDocList, Bool.and_eq_true] at hl2 hl2'
    exact r_sub _ _ _ c _ _ x a' y b' hl hl' (Bool.eq_false_iff.2 hA) (Bool.eq_false_iff.2 hB) hs
      (ih2 rfl hl2.1 hl2'.1) (ih1 hl2.2 hl2'.2)
  · rename_i c R A x a' y b' atA atB h hA hB hs ih1 hl hl'
    have hl2 := hl; have hl2' := hl'
    simp only [listDocList, Bool.and_eq_true] at hl2 hl2'
    exact r_diff _ _ _ c _ _ x a' y b' hl hl' (Bool.eq_false_iff.2 hA) (Bool.eq_false_iff.2 hB)
      (Bool.eq_false_iff.2 hs) (ih1 hl2.2 hl2'.2)

end DE

/-! ## 8. (⇒) an empty diff means equal -/

mutual
/-- all nodes occurring in a document, the document included -/
def DE.subterms : Json → List Json
  | .void => [.void]
  | .null => [.null]
  | .bool b => [.bool b]
  | .num x => [.num x]
  | .str s => [.str s]
  | .arr t xs => .arr t xs :: DE.subtermsList xs
  | .obj kvs => .obj kvs :: DE.subtermsKvs kvs
def DE.subtermsList : List Json → List Json
  | [] => []
  | x :: r => (DE.subterms x) ++ DE.subtermsList r
def DE.subtermsKvs : List (String × Json) → List Json
  | [] => []
  | (_, v) :: r => (DE.subterms v) ++ DE.subtermsKvs r
end

theorem subterms_self (a : Json) : a ∈ (DE.subterms a) := by
  cases a <;> simp [DE.subterms]

theorem subterms_lookup {k : String} {v : Json} : ∀ {kvs : List (String × Json)},
    alookup k kvs = some v → ∀ x, x ∈ (DE.subterms v) → x ∈ DE.subtermsKvs kvs
  | [], h, _, _ => by simp [alookup] at h
  | (k', v') :: r, h, x, hx => by
    simp only [alookup] at h
    simp only [DE.subtermsKvs, List.mem_append]
    split at h
    · cases h; exact .inl hx
    · exact .inr (subterms_lookup h x hx)

/-- no hash collision between non-equal nodes taken from the two collections -/
def DE.HOK (o : Opts) (SA SB : List Json) : Prop :=
  ∀ x, x ∈ SA → ∀ y, y ∈ SB → hashCode o x = hashCode o y → equals o x y = true

theorem DE.HOK.mono {o : Opts} {SA SB SA' SB' : List Json} (h : DE.HOK o SA SB)
    (hA : ∀ x, x ∈ SA' → x ∈ SA) (hB : ∀ y, y ∈ SB' → y ∈ SB) : DE.HOK o SA' SB' :=
  fun x hx y hy => h x (hA x hx) y (hB y hy)

/-- `HashOK o a b`: nodes of `a` and nodes of `b` with the same hash code are `Equals`
    (FNV-1a collisions between different values are excluded; not a theorem) -/
def DE.HashOK (o : Opts) (a b : Json) : Prop := DE.HOK o (DE.subterms a) (DE.subterms b)

theorem accHunk_nil_iff (p : Path) (s : Nat) (prev : Json) (R A : List Json) (after : Json) :
    accHunk p s prev R A after = [] ↔ R = [] ∧ A = [] := by
  unfold accHunk
  cases R <;> cases A <;> simp

theorem diffKvs_cons_nil {o : Opts} {m : Bool} {p : Path} {kvs' : List (String × Json)} {k : String}
    {v : Json} {r : List (String × Json)} (hd : diffKvs o m p kvs' ((k, v) :: r) = []) :
    (∃ v', alookup k kvs' = some v' ∧ diffNode o m v v' (p ++ [.key k]) = []) ∧
      diffKvs o m p kvs' r = [] := by
  rw [DE.diffKvs_cons, List.append_eq_nil_iff] at hd
  refine ⟨?_, hd.2⟩
  cases hl : alookup k kvs' with
  | none => cases m <;> simp [hl] at hd
  | some v' => exact ⟨v', rfl, by simpa [hl] using hd.1⟩

/-- object against object: from an empty diff, `Equals`, given the members -/
theorem equals_obj_of_diff_nil {o : Opts} {m : Bool} {kvs kvs' : List (String × Json)} {p : Path}
    (hs : keysSorted kvs = true) (hs' : keysSorted kvs' = true)
    (hd : diffNode o m (.obj kvs) (.obj kvs') p = [])
    (hk : diffKvs o m p kvs' kvs = [] → AllLook (equals o) kvs kvs') :
    equals o (.obj kvs) (.obj kvs') = true := by
  rw [DE.diffNode_obj_obj, List.append_eq_nil_iff, List.map_eq_nil_iff, List.filter_eq_nil_iff] at hd
  refine (equals_obj_iff o hs hs').2 ⟨hk hd.1, ?_⟩
  intro k' v' hm
  have := hd.2 (k', v') hm
  cases hl : alookup k' kvs <;> simp_all

/-- (⇒), strict strategy: the three functions of the recursion at once -/
theorem strict_equals_of_diff_nil (o : Opts) (ho : dispatchTag o = .list) (hp : precOf o = 0) :
    (∀ a b, a.listDoc = true → b.listDoc = true → a.wf = true → b.wf = true →
      DE.HOK o (DE.subterms a) (DE.subterms b) → ∀ p, diffNode o false a b p = [] → equals o a b = true) ∧
    (∀ kvs' kvs, listDocKvs kvs' = true → listDocKvs kvs = true → wfKvs kvs' = true →
      wfKvs kvs = true → DE.HOK o (DE.subtermsKvs kvs) (DE.subtermsKvs kvs') →
      ∀ p, diffKvs o false p kvs' kvs = [] → AllLook (equals o) kvs kvs') ∧
    (∀ k s prev a b c R A, listDocList a = true → listDocList b = true → wfList a = true →
      wfList b = true → DE.HOK o (DE.subtermsList a) (DE.subtermsList b) →
      ∀ p, diffRest o p k s prev a b c R A = [] → R = [] ∧ A = [] ∧ equalsList o a b = true) := by
  apply DE.listDiff_induct o ho
    (mN := fun a b => a.wf = true → b.wf = true →
      DE.HOK o (DE.subterms a) (DE.subterms b) → ∀ p, diffNode o false a b p = [] → equals o a b = true)
    (mK := fun kvs' kvs => wfKvs kvs' = true →
      wfKvs kvs = true → DE.HOK o (DE.subtermsKvs kvs) (DE.subtermsKvs kvs') →
      ∀ p, diffKvs o false p kvs' kvs = [] → AllLook (equals o) kvs kvs')
    (mR := fun k s prev a b c R A => wfList a = true →
      wfList b = true → DE.HOK o (DE.subtermsList a) (DE.subtermsList b) →
      ∀ p, diffRest o p k s prev a b c R A = [] → R = [] ∧ A = [] ∧ equalsList o a b = true)
  · -- list against list
    intro t t' xs ys ht ht' htt _ _ ih hw hw' H p hd
    rw [DE.diffNode_arr_arr ho xs ys ht ht' htt] at hd
    simp only [Bool.false_eq_true, if_false] at hd
    simp only [Json.wf] at hw hw'
    rw [equals_arr_list ho xs ys ht ht']
    exact (ih hw hw' (H.mono (fun x hx => by simp [DE.subterms, hx])
      (fun y hy => by simp [DE.subterms, hy])) p hd).2.2
  · intro t xs b ht _ _ hb _ _ _ p hd
    exact absurd hd (DE.diffNode_arr_other_ne ho xs b ht hb false p)
  · -- object against object
    intro kvs kvs' _ _ ih hw hw' H p hd
    simp only [Json.wf, Bool.and_eq_true] at hw hw'
    exact equals_obj_of_diff_nil hw.1 hw'.1 hd (ih hw'.2 hw.2
      (H.mono (fun x hx => by simp [DE.subterms, hx]) (fun y hy => by simp [DE.subterms, hy])) p)
  · intro kvs b _ _ hb _ _ _ p hd
    exact absurd hd (DE.diffNode_obj_other_ne o false kvs b hb p)
  · intro a b h1 h2 _ _ _ _ p hd
    exact (diffNode_scalar_nil_iff hp false a b h1 h2 p).1 hd
  · intro kvs' _ _ _ p _ k v hm
    cases hm
  · intro kvs' k v r hl' _ _ ihN ihK hw' hw H p hd
    simp only [wfKvs, Bool.and_eq_true] at hw
    obtain ⟨⟨v', hl, hdv⟩, hdr⟩ := diffKvs_cons_nil hd
    have hr := ihK hw' hw.2 (H.mono (fun x hx => by simp [DE.subtermsKvs, hx]) (fun y hy => hy)) p hdr
    have hv := ihN v' (alookup_listDoc hl hl') hw.1 (alookup_wf hl hw')
      (H.mono (fun x hx => by simp [DE.subtermsKvs, hx]) (fun y hy => subterms_lookup hl y hy)) _ hdv
    intro k0 v0 hm
    rcases List.mem_cons.1 hm with e | hm
    · cases e; exact ⟨v', hl, hv⟩
    · exact hr k0 v0 hm
  · intro k s prev c R A b _ _ _ _ p hd
    rw [DE.diffRest_nilA, accHunk_nil_iff, List.append_eq_nil_iff] at hd
    obtain ⟨rfl, rfl, rfl⟩ := hd
    exact ⟨rfl, rfl, by simp [equalsList]⟩
  · intro k s prev c R A a ha _ _ _ _ p hd
    rw [DE.diffRest_nilB _ _ _ _ _ _ _ _ _ ha, accHunk_nil_iff, List.append_eq_nil_iff] at hd
    exact absurd hd.1.2 ha
  · -- both cursors at the next common element
    intro k s prev c R A x a' y b' _ _ hA hB ih hw hw' H p hd
    rw [DE.diffRest_cons] at hd
    simp only [hA, hB, Bool.and_self, if_true, List.append_eq_nil_iff, accHunk_nil_iff] at hd
    simp only [wfList, Bool.and_eq_true] at hw hw'
    have hr := ih hw.2 hw'.2 (H.mono (fun x hx => by simp [DE.subtermsList, hx])
      (fun y hy => by simp [DE.subtermsList, hy])) p hd.2
    have hxy := H x (by simp [DE.subtermsList, subterms_self]) y (by simp [DE.subtermsList, subterms_self])
      (DE.atC_both_hash hA hB)
    exact ⟨hd.1.1, hd.1.2, by simp [equalsList, hxy, hr.2.2]⟩
  · intro k s prev c R A x a' y b' _ _ hA hB ih hw hw' H p hd
    rw [DE.diffRest_cons] at hd
    simp only [hA, hB, Bool.and_false, Bool.false_eq_true, if_false, if_true] at hd
    simp only [wfList, Bool.and_eq_true] at hw'
    have hr := ih hw hw'.2 (H.mono (fun x hx => hx) (fun y hy => by simp [DE.subtermsList, hy])) p hd
    simp at hr
  · intro k s prev c R A x a' y b' _ _ hA hB ih hw hw' H p hd
    rw [DE.diffRest_cons] at hd
    simp only [hA, hB, Bool.false_and, Bool.false_eq_true, if_false, if_true] at hd
    simp only [wfList, Bool.and_eq_true] at hw
    have hr := ih hw.2 hw' (H.mono (fun x hx => by simp [DE.subtermsList, hx]) (fun y hy => hy)) p hd
    simp at hr
  · -- same container kinds, compared recursively
    intro k s prev c R A x a' y b' _ _ hA hB hs ihN ihR hw hw' H p hd
    rw [DE.diffRest_cons] at hd
    simp only [hA, hB, hs, Bool.false_and, Bool.false_eq_true, if_false, if_true,
      List.append_eq_nil_iff, accHunk_nil_iff] at hd
    simp only [wfList, Bool.and_eq_true] at hw hw'
    have hr := ihR hw.2 hw'.2 (H.mono (fun x hx => by simp [DE.subtermsList, hx])
      (fun y hy => by simp [DE.subtermsList, hy])) p hd.2
    have hxy := ihN hw.1 hw'.1 (H.mono (fun x hx => by simp [DE.subtermsList, hx])
      (fun y hy => by simp [DE.subtermsList, hy])) _ ((subAfter_eq_nil_iff _ _ _ _).1 hd.1.2)
    exact ⟨hd.1.1.1, hd.1.1.2, by simp [equalsList, hxy, hr.2.2]⟩
  · intro k s prev c R A x a' y b' _ _ hA hB hs ih hw hw' H p hd
    rw [DE.diffRest_cons] at hd
    simp only [hA, hB, hs, Bool.false_and, Bool.false_eq_true, if_false] at hd
    simp only [wfList, Bool.and_eq_true] at hw hw'
    have hr := ih hw.2 hw'.2 (H.mono (fun x hx => by simp [DE.subtermsList, hx])
      (fun y hy => by simp [DE.subtermsList, hy])) p hd
    simp at hr

mutual
/-- (⇒), MERGE strategy: lists are compared by `Equals` itself, objects member-wise -/
theorem merge_equals_of_diff_nil (o : Opts) (ho : dispatchTag o = .list) (hp : precOf o = 0) :
    ∀ (a b : Json), a.listDoc = true → b.listDoc = true → a.wf = true → b.wf = true →
      ∀ p, diffNode o true a b p = [] → equals o a b = true
  | .void, b, _, _, _, _, p, hd =>
    (diffNode_scalar_nil_iff hp true _ b (fun _ _ e => by cases e) (fun _ e => by cases e) p).1 hd
  | .null, b, _, _, _, _, p, hd =>
    (diffNode_scalar_nil_iff hp true _ b (fun _ _ e => by cases e) (fun _ e => by cases e) p).1 hd
  | .bool _, b, _, _, _, _, p, hd =>
    (diffNode_scalar_nil_iff hp true _ b (fun _ _ e => by cases e) (fun _ e => by cases e) p).1 hd
  | .num _, b, _, _, _, _, p, hd =>
    (diffNode_scalar_nil_iff hp true _ b (fun _ _ e => by cases e) (fun _ e => by cases e) p).1 hd
  | .str _, b, _, _, _, _, p, hd =>
    (diffNode_scalar_nil_iff hp true _ b (fun _ _ e => by cases e) (fun _ e => by cases e) p).1 hd
  | .arr t xs, b, hl, hl', _, _, p, hd => by
    simp only [Json.listDoc, Bool.and_eq_true] at hl
    cases b with
    | arr t' ys =>
      simp only [Json.listDoc, Bool.and_eq_true] at hl'
      by_cases htt : t = .raw ∨ t' = .list
      · rw [DE.diffNode_arr_arr ho xs ys hl.1 hl'.1 htt] at hd
        rw [equals_arr_list ho xs ys hl.1 hl'.1]
        cases he : equalsList o xs ys with
        | true => rfl
        | false =>
          simp [equals_arr_list ho xs ys (t := .list) (t' := .list) rfl rfl, he] at hd
      · have htt' : t = .list ∧ t' = .raw := by
          have h1 := hl.1; have h2 := hl'.1
          cases t <;> cases t' <;> simp_all
        obtain ⟨rfl, rfl⟩ := htt'
        exact absurd hd (DE.diffNode_arr_other_ne ho xs _ hl.1 (.inr ⟨rfl, ys, rfl⟩) true p)
    | _ =>
      exact absurd hd (DE.diffNode_arr_other_ne ho xs _ hl.1
        (.inl (fun _ _ e => by cases e)) true p)
  | .obj kvs, b, hl, hl', hw, hw', p, hd => by
    cases b with
    | obj kvs' =>
      simp only [Json.listDoc] at hl hl'
      simp only [Json.wf, Bool.and_eq_true] at hw hw'
      exact equals_obj_of_diff_nil hw.1 hw'.1 hd
        (merge_allLook_of_diffKvs_nil o ho hp kvs kvs' hl hl' hw.2 hw'.2 p)
    | _ => exact absurd hd (DE.diffNode_obj_other_ne o true kvs _ (fun _ e => by cases e) p)
theorem merge_allLook_of_diffKvs_nil (o : Opts) (ho : dispatchTag o = .list) (hp : precOf o = 0) :
    ∀ (r kvs' : List (String × Json)), listDocKvs r = true → listDocKvs kvs' = true →
      wfKvs r = true → wfKvs kvs' = true →
      ∀ p, diffKvs o true p kvs' r = [] → AllLook (equals o) r kvs'
  | [], _, _, _, _, _, _, _ => fun _ _ hm => by cases hm
  | (k, v) :: r, kvs', hl, hl', hw, hw', p, hd => by
    simp only [listDocKvs, wfKvs, Bool.and_eq_true] at hl hw
    obtain ⟨⟨v', hlk, hdv⟩, hdr⟩ := diffKvs_cons_nil hd
    have hr := merge_allLook_of_diffKvs_nil o ho hp r kvs' hl.2 hl' hw.2 hw' p hdr
    have hv := merge_equals_of_diff_nil o ho hp v v' hl.1 (alookup_listDoc hlk hl') hw.1
      (alookup_wf hlk hw') _ hdv
    intro k0 v0 hm
    rcases List.mem_cons.1 hm with e | hm
    · cases e; exact ⟨v', hlk, hv⟩
    · exact hr k0 v0 hm
end

/-! ## 9. C05, list mode -/

/-- **C05 (⇐), list mode, strict or MERGE strategy, no Precision.** Equal documents have an empty
    diff. `a` is a document as read from JSON / YAML (`rawDoc`; see `diff_list_vs_array_nonempty`
    below for why `listDoc` is not enough on the left). -/
theorem diffM_nil_of_equals (F : FloatEq0) (o : Opts) (ho : dispatchTag o = .list)
    (hp : precOf o = 0) (a b : Json) (hr : a.rawDoc = true) (ha : Dom a) (hb : Dom b)
    (h : equals o a b = true) : diffM o a b = [] :=
  diffNode_nil_of_equals F o ho hp (isMerge o) a b hr ha hb h []

/-- **C05 (⇒), list mode, strict strategy, no Precision.** An empty diff means `Equals`, provided
    no two non-equal nodes of the two documents collide under the hash (`HashOK`). -/
theorem equals_of_diffM_nil_strict (o : Opts) (ho : dispatchTag o = .list) (hp : precOf o = 0)
    (hm : isMerge o = false) (a b : Json) (hl : a.listDoc = true) (hl' : b.listDoc = true)
    (hw : a.wf = true) (hw' : b.wf = true) (H : DE.HashOK o a b) (hd : diffM o a b = []) :
    equals o a b = true := by
  unfold diffM at hd
  rw [hm] at hd
  exact (strict_equals_of_diff_nil o ho hp).1 a b hl hl' hw hw' H [] hd

/-- **C05 (⇒), list mode, MERGE strategy, no Precision.** An empty diff means `Equals`
    (no hash hypothesis: merge diffs compare lists with `Equals`). -/
theorem equals_of_diffM_nil_merge (o : Opts) (ho : dispatchTag o = .list) (hp : precOf o = 0)
    (hm : isMerge o = true) (a b : Json) (hl : a.listDoc = true) (hl' : b.listDoc = true)
    (hw : a.wf = true) (hw' : b.wf = true) (hd : diffM o a b = []) : equals o a b = true := by
  unfold diffM at hd
  rw [hm] at hd
  exact merge_equals_of_diff_nil o ho hp a b hl hl' hw hw' [] hd

/-- (⇒) for either strategy -/
theorem equals_of_diffM_nil (o : Opts) (ho : dispatchTag o = .list) (hp : precOf o = 0)
    (a b : Json) (hl : a.listDoc = true) (hl' : b.listDoc = true)
    (hw : a.wf = true) (hw' : b.wf = true) (H : DE.HashOK o a b) (hd : diffM o a b = []) :
    equals o a b = true := by
  cases hm : isMerge o with
  | false => exact equals_of_diffM_nil_strict o ho hp hm a b hl hl' hw hw' H hd
  | true => exact equals_of_diffM_nil_merge o ho hp hm a b hl hl' hw hw' hd

/-- **C05, list mode, strict or MERGE strategy, no Precision:**
    `a.Diff(b)` is empty if and only if `a.Equals(b)` under the same options. -/
theorem diffM_nil_iff_equals (F : FloatEq0) (o : Opts) (ho : dispatchTag o = .list)
    (hp : precOf o = 0) (a b : Json) (hr : a.rawDoc = true) (ha : Dom a) (hb : Dom b)
    (H : DE.HashOK o a b) : diffM o a b = [] ↔ equals o a b = true :=
  ⟨equals_of_diffM_nil o ho hp a b ha.listDoc hb.listDoc ha.wf hb.wf H,
   diffM_nil_of_equals F o ho hp a b hr ha hb⟩

/-- MERGE strategy: the equivalence needs no hash hypothesis -/
theorem diffM_nil_iff_equals_merge (F : FloatEq0) (o : Opts) (ho : dispatchTag o = .list)
    (hp : precOf o = 0) (hm : isMerge o = true) (a b : Json) (hr : a.rawDoc = true) (ha : Dom a)
    (hb : Dom b) : diffM o a b = [] ↔ equals o a b = true :=
  ⟨equals_of_diffM_nil_merge o ho hp hm a b ha.listDoc hb.listDoc ha.wf hb.wf,
   diffM_nil_of_equals F o ho hp a b hr ha hb⟩

/-! ## 10. why the hypotheses are there: counter-witnesses -/

/-- A typed `jsonList` on the left against a plain `jsonArray` on the right: `Equals` dispatches its
    argument, `jsonList.diff` does not (`n.(jsonList)` fails → `diffDifferentTypes`). Hence
    `listDoc` alone is not enough for (⇐) on the left document. Not reachable through the public
    API of the Go library (a `jsonList` only exists as the result of `dispatch`). -/
theorem diff_list_vs_array_nonempty (m : Bool) :
    equals [] (.arr .list []) (.arr .raw []) = true ∧
      diffNode [] m (.arr .list []) (.arr .raw []) [] ≠ [] :=
  ⟨by simp [equals, effTag, Json.dispatch, dispatchTag, equalsList],
   DE.diffNode_arr_other_ne (o := []) rfl [] _ rfl (.inr ⟨rfl, [], rfl⟩) m []⟩

/-- Negative zero (former known finding D5b, repaired in the Go code: `0` and `-0` now hash alike).
    Relative to the IEEE fact `|0 - (-0)| ≤ +0`, which the kernel cannot evaluate (`numWithin` is an
    opaque `Float` computation; see the `#eval` below), `[0]` and `[-0]` are `Equals`; their elements
    now have the same hash code, so the diff IS empty: this pair is no longer a counter-witness. (The
    theorems above keep the hypothesis `noNegZero`, which is now stronger than necessary, because
    `FloatEq0` says nothing about the bit pattern of `-0`.) -/
theorem negZero_after_fix (hz : numWithin 0 0 negZeroBits = true) :
    equals [] (.arr .raw [.num 0]) (.arr .raw [.num negZeroBits]) = true ∧
      hashCode [] (.num 0) = hashCode [] (.num negZeroBits) ∧
      diffM [] (.arr .raw [.num 0]) (.arr .raw [.num negZeroBits]) = [] := by
  have hh : hashCode [] (.num 0) = hashCode [] (.num negZeroBits) := by decide
  refine ⟨by simp [equals, effTag, Json.dispatch, dispatchTag, equalsList, precOf, hz], hh, ?_⟩
  have hl : hashList [] [Json.num 0] = hashList [] [Json.num negZeroBits] := by
    simp only [hashList, hh]
  unfold diffM
  rw [show isMerge [] = false from rfl,
    DE.diffNode_arr_arr (o := []) rfl _ _ rfl rfl (.inl rfl) false []]
  simp only [Bool.false_eq_true, if_false]
  rw [← hl, lcsValues_self]
  exact diffRest_nil_of_hashList_eq [] [] _ _ hl 0 0 .void

/-- Precision (known finding D5a), relative to two IEEE facts the kernel cannot evaluate: whenever
    two numbers are within `eps` of each other but not within `+0` (e.g. `eps = 0.5`, `x = 1`,
    `y = 1 + 2⁻⁵²`; see the `#eval` below), they are `Equals` under `Precision(eps)` but the diff is not
    empty, because `diff_common.go` calls `Equals` without the options. -/
theorem precision_counterwitness (eps x y : UInt64) (h1 : numWithin eps x y = true)
    (h0 : numWithin 0 x y = false) :
    equals [.prec eps] (.num x) (.num y) = true ∧ diffM [.prec eps] (.num x) (.num y) ≠ [] := by
  refine ⟨by simp [equals, precOf, h1], ?_⟩
  unfold diffM
  rw [DE.diffNode_scalar _ _ _ _ (fun _ _ e => by cases e) (fun _ e => by cases e)]
  intro hd
  rw [diffCommon_nil_iff] at hd
  simp [equals, precOf, h0] at hd

/-! The two counter-witnesses and the former one (negative zero), evaluated by the runtime (which
    does evaluate `Float`):
    each line prints `(Equals, number of hunks of the diff)`. -/

-- Precision (known finding D5a): 1 and 1 + 2⁻⁵² are equal within 0.5, the diff ignores Precision
#eval (equals [.prec 0x3FE0000000000000] (.num 0x3FF0000000000000) (.num 0x3FF0000000000001),
  (diffM [.prec 0x3FE0000000000000] (.num 0x3FF0000000000000) (.num 0x3FF0000000000001)).length)
-- negative zero (former known finding D5b, repaired: the diff is now empty)
#eval (equals [] (.arr .raw [.num 0]) (.arr .raw [.num negZeroBits]),
  (diffM [] (.arr .raw [.num 0]) (.arr .raw [.num negZeroBits])).length)
-- typed list against plain array (model only)
#eval (equals [] (.arr .list []) (.arr .raw []), (diffM [] (.arr .list []) (.arr .raw [])).length)

/-! ## axioms -/

#print axioms hashCode_eq_of_equals
#print axioms lcsValues_self
#print axioms diffNode_nil_of_equals
#print axioms strict_equals_of_diff_nil
#print axioms merge_equals_of_diff_nil
#print axioms diffM_nil_of_equals
#print axioms equals_of_diffM_nil_strict
#print axioms equals_of_diffM_nil_merge
#print axioms equals_of_diffM_nil
#print axioms diffM_nil_iff_equals
#print axioms diffM_nil_iff_equals_merge
#print axioms diff_list_vs_array_nonempty
#print axioms negZero_after_fix
#print axioms precision_counterwitness

end Jd
