/-
  JdProofs.LcsProofs — correctness of the golcs model in JdModel.Lcs.

  * `lcsValues a b` is a common subsequence of `a` and `b` (for ANY table contents);
  * the DP rows compute the textbook LCS-length recurrence `lcsLenSpec`;
  * back-tracking yields a subsequence whose length is the table corner, and that is optimal.
-/
import JdModel.Lcs

namespace Jd

/-! ## 1–2. The back-tracked values form a common subsequence (independent of the table) -/

theorem lcsBack_sublist {α} [BEq α] [LawfulBEq α] (ra rb : List α) (rows : List (List Nat)) :
    (lcsBack ra rb rows).Sublist ra ∧ (lcsBack ra rb rows).Sublist rb := by
  fun_induction lcsBack ra rb rows with
  | case1 => simp
  | case2 => simp
  | case3 x ra y rb rows h ih =>
    have hxy : x = y := eq_of_beq h
    subst hxy
    exact ⟨ih.1.cons_cons _, ih.2.cons_cons _⟩
  | case4 x ra y rb rows h n up left hge ih =>
    exact ⟨ih.1.cons _, ih.2⟩
  | case5 x ra y rb rows h n up left hge ih =>
    exact ⟨ih.1, ih.2.cons _⟩

theorem lcsValues_sublist_left {α} [BEq α] [LawfulBEq α] (a b : List α) :
    (lcsValues a b).Sublist a := by
  have h := (lcsBack_sublist a.reverse b.reverse (lcsRows b a.reverse)).1
  have := h.reverse
  simpa [lcsValues] using this

theorem lcsValues_sublist_right {α} [BEq α] [LawfulBEq α] (a b : List α) :
    (lcsValues a b).Sublist b := by
  have h := (lcsBack_sublist a.reverse b.reverse (lcsRows b a.reverse)).2
  have := h.reverse
  simpa [lcsValues] using this

/-! ## 3. The textbook specification and its characterisation -/

/-- textbook LCS length recurrence -/
def lcsLenSpec {α} [BEq α] : List α → List α → Nat
  | [], _ => 0
  | _, [] => 0
  | x :: xs, y :: ys =>
    if x == y then 1 + lcsLenSpec xs ys
    else max (lcsLenSpec xs (y :: ys)) (lcsLenSpec (x :: xs) ys)
termination_by a b => a.length + b.length

@[simp] theorem lcsLenSpec_nil_left {α} [BEq α] (b : List α) : lcsLenSpec [] b = 0 := by
  simp [lcsLenSpec]

@[simp] theorem lcsLenSpec_nil_right {α} [BEq α] (a : List α) : lcsLenSpec a [] = 0 := by
  cases a <;> simp [lcsLenSpec]

theorem lcsLenSpec_cons_cons {α} [BEq α] (x y : α) (xs ys : List α) :
    lcsLenSpec (x :: xs) (y :: ys) =
      if x == y then 1 + lcsLenSpec xs ys
      else max (lcsLenSpec xs (y :: ys)) (lcsLenSpec (x :: xs) ys) := by
  rw [lcsLenSpec]

/-- `lcsLenSpec` bounds every common subsequence. -/
theorem lcsLenSpec_upper {α} [BEq α] [LawfulBEq α] (a b : List α) :
    ∀ c : List α, c.Sublist a → c.Sublist b → c.length ≤ lcsLenSpec a b := by
  fun_induction lcsLenSpec a b with
  | case1 b => intro c ha _; simp_all
  | case2 a _ => intro c _ hb; simp_all
  | case3 x xs y ys h ih =>
    intro c ha hb
    cases c with
    | nil => simp
    | cons z c' =>
      have h1 := ih c' ha.tail hb.tail
      simp only [List.length_cons]
      omega
  | case4 x xs y ys h ih1 ih2 =>
    intro c ha hb
    have hne : x ≠ y := by
      intro e; subst e; simp at h
    rcases List.sublist_cons_iff.mp ha with h1 | ⟨r, rfl, hr⟩
    · have := ih1 c h1 hb
      omega
    · rcases List.sublist_cons_iff.mp hb with h2 | ⟨r', e, _⟩
      · have := ih2 _ ha h2
        omega
      · cases e; exact absurd rfl hne

/-- `lcsLenSpec` is attained by some common subsequence. -/
theorem lcsLenSpec_witness {α} [BEq α] [LawfulBEq α] (a b : List α) :
    ∃ c : List α, c.Sublist a ∧ c.Sublist b ∧ c.length = lcsLenSpec a b := by
  fun_induction lcsLenSpec a b with
  | case1 b => exact ⟨[], by simp⟩
  | case2 a _ => exact ⟨[], by simp⟩
  | case3 x xs y ys h ih =>
    obtain ⟨c, h1, h2, h3⟩ := ih
    have hxy : x = y := eq_of_beq h
    subst hxy
    exact ⟨x :: c, h1.cons_cons _, h2.cons_cons _, by simp [h3]; omega⟩
  | case4 x xs y ys h ih1 ih2 =>
    obtain ⟨c1, a1, b1, l1⟩ := ih1
    obtain ⟨c2, a2, b2, l2⟩ := ih2
    by_cases hle : lcsLenSpec (x :: xs) ys ≤ lcsLenSpec xs (y :: ys)
    · exact ⟨c1, a1.cons _, b1, by omega⟩
    · exact ⟨c2, a2, b2.cons _, by omega⟩

theorem lcsLenSpec_le_cons_right {α} [BEq α] [LawfulBEq α] (a b : List α) (y : α) :
    lcsLenSpec a b ≤ lcsLenSpec a (y :: b) := by
  obtain ⟨c, h1, h2, h3⟩ := lcsLenSpec_witness a b
  have := lcsLenSpec_upper a (y :: b) c h1 (h2.cons _)
  omega

theorem lcsLenSpec_le_cons_left {α} [BEq α] [LawfulBEq α] (a b : List α) (x : α) :
    lcsLenSpec a b ≤ lcsLenSpec (x :: a) b := by
  obtain ⟨c, h1, h2, h3⟩ := lcsLenSpec_witness a b
  have := lcsLenSpec_upper (x :: a) b c (h1.cons _) h2
  omega

theorem lcsLenSpec_cons_right_le {α} [BEq α] [LawfulBEq α] (a b : List α) (y : α) :
    lcsLenSpec a (y :: b) ≤ lcsLenSpec a b + 1 := by
  obtain ⟨c, h1, h2, h3⟩ := lcsLenSpec_witness a (y :: b)
  have := lcsLenSpec_upper a b c.tail ((List.tail_sublist c).trans h1) h2.tail
  simp at this
  omega

theorem lcsLenSpec_cons_left_le {α} [BEq α] [LawfulBEq α] (a b : List α) (x : α) :
    lcsLenSpec (x :: a) b ≤ lcsLenSpec a b + 1 := by
  obtain ⟨c, h1, h2, h3⟩ := lcsLenSpec_witness (x :: a) b
  have := lcsLenSpec_upper a b c.tail h1.tail ((List.tail_sublist c).trans h2)
  simp at this
  omega

/-- The golcs cell rule (max of all three neighbours) agrees with the textbook recurrence. -/
theorem lcsLenSpec_cell {α} [BEq α] [LawfulBEq α] (x y : α) (ra rp : List α) :
    max (max (lcsLenSpec ra rp + (if x == y then 1 else 0)) (lcsLenSpec ra (y :: rp)))
        (lcsLenSpec (x :: ra) rp) = lcsLenSpec (x :: ra) (y :: rp) := by
  have h1 := lcsLenSpec_le_cons_right ra rp y
  have h2 := lcsLenSpec_cons_right_le ra rp y
  have h3 := lcsLenSpec_cons_left_le ra rp x
  rw [lcsLenSpec_cons_cons]
  split <;> omega

/-- LCS length is invariant under reversing both lists. -/
theorem lcsLenSpec_reverse {α} [BEq α] [LawfulBEq α] (a b : List α) :
    lcsLenSpec a.reverse b.reverse = lcsLenSpec a b := by
  apply Nat.le_antisymm
  · obtain ⟨c, h1, h2, h3⟩ := lcsLenSpec_witness a.reverse b.reverse
    have := lcsLenSpec_upper a b c.reverse (by simpa using h1.reverse) (by simpa using h2.reverse)
    simp at this
    omega
  · obtain ⟨c, h1, h2, h3⟩ := lcsLenSpec_witness a b
    have := lcsLenSpec_upper a.reverse b.reverse c.reverse h1.reverse h2.reverse
    simp at this
    omega

/-! ## 3 (cont.). The DP rows compute the specification -/

/-- The specified table row for the reversed left prefix `ra`, from the column whose reversed right
    prefix is `rp`, continuing over the remaining right elements `ys`:
    `[spec ra rp, spec ra (y₁ :: rp), spec ra (y₂ :: y₁ :: rp), …]`. -/
def lcsSpecRowFrom {α} [BEq α] (ra : List α) : (rp ys : List α) → List Nat
  | rp, [] => [lcsLenSpec ra rp]
  | rp, y :: ys => lcsLenSpec ra rp :: lcsSpecRowFrom ra (y :: rp) ys

/-- the full specified row `[T[x][0], …, T[x][n]]` -/
def lcsSpecRow {α} [BEq α] (ra b : List α) : List Nat := lcsSpecRowFrom ra [] b

theorem lcsSpecRowFrom_eq_cons {α} [BEq α] (ra rp ys : List α) :
    lcsSpecRowFrom ra rp ys = lcsLenSpec ra rp :: (lcsSpecRowFrom ra rp ys).tail := by
  cases ys <;> simp [lcsSpecRowFrom]

theorem lcsSpecRowFrom_nil {α} [BEq α] (rp ys : List α) :
    lcsSpecRowFrom ([] : List α) rp ys = List.replicate (ys.length + 1) 0 := by
  induction ys generalizing rp with
  | nil => simp [lcsSpecRowFrom]
  | cons y ys ih => simp [lcsSpecRowFrom, ih, List.replicate_succ]

theorem lcsSpecRowFrom_getD {α} [BEq α] (ra rp ys : List α) (k : Nat) (hk : k ≤ ys.length) :
    (lcsSpecRowFrom ra rp ys).getD k 0 = lcsLenSpec ra ((ys.take k).reverse ++ rp) := by
  induction ys generalizing rp k with
  | nil =>
    have : k = 0 := by simpa using hk
    subst this
    simp [lcsSpecRowFrom]
  | cons y ys ih =>
    cases k with
    | zero => simp [lcsSpecRowFrom]
    | succ k =>
      have hk' : k ≤ ys.length := by simpa using hk
      have := ih (y :: rp) k hk'
      simp only [lcsSpecRowFrom, List.getD_cons_succ, this]
      simp

/-- One DP row step: from the specified row for `ra`, `lcsRowGo` produces the specified row for
    `x :: ra` (minus its first cell, which is passed in as `left`). -/
theorem lcsRowGo_spec {α} [BEq α] [LawfulBEq α] (x : α) (ra rp ys : List α) :
    lcsRowGo x ys (lcsSpecRowFrom ra rp ys) (lcsLenSpec (x :: ra) rp)
      = (lcsSpecRowFrom (x :: ra) rp ys).tail := by
  induction ys generalizing rp with
  | nil => simp [lcsSpecRowFrom, lcsRowGo]
  | cons y ys ih =>
    have ih' := ih (y :: rp)
    rw [lcsSpecRowFrom_eq_cons ra (y :: rp) ys] at ih'
    simp only [lcsSpecRowFrom, List.tail_cons]
    rw [lcsSpecRowFrom_eq_cons ra (y :: rp) ys]
    simp only [lcsRowGo]
    rw [lcsLenSpec_cell, ih']
    exact (lcsSpecRowFrom_eq_cons (x :: ra) (y :: rp) ys).symm

theorem lcsRow_spec {α} [BEq α] [LawfulBEq α] (x : α) (ra b : List α) :
    lcsRow x b (lcsSpecRow ra b) = lcsSpecRow (x :: ra) b := by
  unfold lcsRow lcsSpecRow
  have h := lcsRowGo_spec x ra [] b
  rw [lcsLenSpec_nil_right] at h
  rw [h, lcsSpecRowFrom_eq_cons (x :: ra) [] b, lcsLenSpec_nil_right]
  simp

/-- Table correctness: the newest row of `lcsRows b ra` is the specified row for `ra`. -/
theorem lcsRows_headD {α} [BEq α] [LawfulBEq α] (b ra : List α) :
    (lcsRows b ra).headD [] = lcsSpecRow ra b := by
  induction ra with
  | nil => simp [lcsRows, lcsSpecRow, lcsSpecRowFrom_nil]
  | cons x ra ih =>
    show lcsRow x b ((lcsRows b ra).headD []) = _
    rw [ih, lcsRow_spec]

theorem lcsRows_tail {α} [BEq α] (b : List α) (x : α) (ra : List α) :
    (lcsRows b (x :: ra)).tail = lcsRows b ra := by
  simp [lcsRows]

/-- Table correctness, cell by cell: `T[|ra|][k] = lcsLenSpec ra (b.take k).reverse`
    (`ra` is the reversed left prefix). -/
theorem lcsRows_cell {α} [BEq α] [LawfulBEq α] (b ra : List α) (k : Nat) (hk : k ≤ b.length) :
    ((lcsRows b ra).headD []).getD k 0 = lcsLenSpec ra (b.take k).reverse := by
  rw [lcsRows_headD, lcsSpecRow, lcsSpecRowFrom_getD _ _ _ _ hk]
  simp

/-- Table correctness in the unreversed reading: the row for the left prefix `p` at column `k`
    is the LCS length of `p` and `b.take k`. -/
theorem lcsRows_cell' {α} [BEq α] [LawfulBEq α] (b p : List α) (k : Nat) (hk : k ≤ b.length) :
    ((lcsRows b p.reverse).headD []).getD k 0 = lcsLenSpec p (b.take k) := by
  rw [lcsRows_cell _ _ _ hk, lcsLenSpec_reverse]

theorem lcsLength_eq_reverse {α} [BEq α] [LawfulBEq α] (a b : List α) :
    lcsLength a b = lcsLenSpec a.reverse b.reverse := by
  unfold lcsLength
  rw [lcsRows_cell _ _ _ (Nat.le_refl _)]
  simp

theorem lcsLength_eq {α} [BEq α] [LawfulBEq α] (a b : List α) :
    lcsLength a b = lcsLenSpec a b := by
  rw [lcsLength_eq_reverse, lcsLenSpec_reverse]

/-! ## 4. Back-tracking reads off a subsequence of the specified length; optimality -/

theorem lcsRows_cell_rev {α} [BEq α] [LawfulBEq α] (b ra rb suf : List α)
    (hb : b = rb.reverse ++ suf) :
    ((lcsRows b ra).headD []).getD rb.length 0 = lcsLenSpec ra rb := by
  subst hb
  rw [lcsRows_cell _ _ _ (by simp), List.take_left' (by simp)]
  simp

theorem lcsBack_length {α} [BEq α] [LawfulBEq α] (b ra rb suf : List α)
    (hb : b = rb.reverse ++ suf) :
    (lcsBack ra rb (lcsRows b ra)).length = lcsLenSpec ra rb := by
  generalize hrows : lcsRows b ra = rows
  fun_induction lcsBack ra rb rows generalizing suf with
  | case1 => simp
  | case2 => simp
  | case3 x ra y rb rows h ih =>
    subst hrows
    rw [lcsRows_tail] at ih ⊢
    have := ih (y :: suf) (by simp [hb]) rfl
    rw [lcsLenSpec_cons_cons, if_pos h, List.length_cons, this]
    omega
  | case4 x ra y rb rows h n up left hge ih =>
    subst hrows
    have hb' : b = rb.reverse ++ (y :: suf) := by simp [hb]
    have hup : up = lcsLenSpec ra (y :: rb) := by
      simp only [up, n, lcsRows_tail]
      exact lcsRows_cell_rev b ra (y :: rb) suf hb
    have hleft : left = lcsLenSpec (x :: ra) rb := by
      simp only [left, n, Nat.add_sub_cancel]
      exact lcsRows_cell_rev b (x :: ra) rb _ hb'
    rw [lcsRows_tail] at ih ⊢
    have ih' := ih suf hb rfl
    rw [ih', lcsLenSpec_cons_cons, if_neg h]
    omega
  | case5 x ra y rb rows h n up left hge ih =>
    subst hrows
    have hb' : b = rb.reverse ++ (y :: suf) := by simp [hb]
    have hup : up = lcsLenSpec ra (y :: rb) := by
      simp only [up, n, lcsRows_tail]
      exact lcsRows_cell_rev b ra (y :: rb) suf hb
    have hleft : left = lcsLenSpec (x :: ra) rb := by
      simp only [left, n, Nat.add_sub_cancel]
      exact lcsRows_cell_rev b (x :: ra) rb _ hb'
    have ih' := ih (y :: suf) hb' rfl
    rw [ih', lcsLenSpec_cons_cons, if_neg h]
    omega

theorem lcsValues_length_spec {α} [BEq α] [LawfulBEq α] (a b : List α) :
    (lcsValues a b).length = lcsLenSpec a b := by
  unfold lcsValues
  rw [List.length_reverse, lcsBack_length b a.reverse b.reverse [] (by simp), lcsLenSpec_reverse]

theorem lcsValues_length {α} [BEq α] [LawfulBEq α] (a b : List α) :
    (lcsValues a b).length = lcsLength a b := by
  rw [lcsValues_length_spec, lcsLength_eq]

theorem lcs_optimal {α} [BEq α] [LawfulBEq α] (a b : List α) :
    ∀ c : List α, c.Sublist a → c.Sublist b → c.length ≤ (lcsValues a b).length := by
  intro c ha hb
  rw [lcsValues_length_spec]
  exact lcsLenSpec_upper a b c ha hb

end Jd

#print axioms Jd.lcsValues_sublist_left
#print axioms Jd.lcsValues_sublist_right
#print axioms Jd.lcsRows_cell
#print axioms Jd.lcsRows_cell'
#print axioms Jd.lcsLength_eq
#print axioms Jd.lcsLenSpec_reverse
#print axioms Jd.lcsValues_length
#print axioms Jd.lcs_optimal
