/-
  JdProofs.DiffEmptySet — property C05 in the SET and MULTISET readings of the v2 library (strict
  and MERGE strategy, no Precision), and with SetKeys:
      `diffM o a b = []  ↔  equals o a b = true`.
  Everything lives in the namespace `Jd.DES`. (List reading: JdProofs.DiffEmpty.)

  All stages reached: (A) one array read as a set, (B) as a multiset, (C) arrays nested anywhere below
  objects and inside arrays, both strategies, (D) SetKeys.

  MAIN THEOREMS (about the library functions `diffM` / `diffNode` and `equals` of the model)
    * `equals_of_diffM_nil`  (⇒)  an empty diff means `Equals`.
        Hypotheses: `SetReading o` (= `dispatchTag o = .set ∧ keysOf o = none`, or
        `dispatchTag o = .mset` — SetKeys plays no role in the multiset diff), `precOf o = 0`,
        `a.rawDoc`, `a.wf`, `b.wf`.  NO hash hypothesis, NO float hypothesis, `b` may carry any tags.
        (In the set modes the diff compares member hash codes and `Equals` compares the hash code
        of the sorted member hash codes: whatever the diff cannot see, `Equals` cannot see either.)
    * `diffM_nil_of_equals`  (⇐)  `Equals` means an empty diff, under the same hypotheses plus
        `DiffFaithful o (subterms a) (subterms b)`: for a node `x` of `a` and a node `y` of `b` with the
        same hash code, (i) if both are arrays, the lists of member hash codes that were hashed
        (`arrPre`: sorted, and deduplicated for a set) are the same — no FNV collision between array
        nodes; (ii) SET reading only: if both are objects they are `Equals` — no collision and no
        alias between object members of sets (the set diff matches members by hash code and then
        diffs two matched objects member by member). Pairs of other kinds are unconstrained: the
        aliases of KF-C04-alias between scalars and arrays (`""` / `[]`) are harmless here.
        Both clauses are needed, and (⇐) is FALSE without them — on the Go code as well:
          - `Witness.alias_breaks_converse`: `[{"a":""}]` and `[{"a":[]}]` are `Equals` under SET (and
            SET+MERGE) and their diff is NOT empty (consequence of KF-C04-alias);
          - `Witness.fnv_collision_breaks_converse`: `["aedb68afb","b7cdeb749"]` and
            `["a568b3ad2","b76a57d20"]` are `Equals` under SET, MULTISET, SET+MERGE, MULTISET+MERGE
            (a genuine FNV-1a 64 collision of the two 16-byte pre-images; the four member hash codes
            are distinct) and their diff is NOT empty.
        In the MULTISET reading clause (ii) is not required (`Witness.alias_mset_consistent`).
    * `diffM_nil_iff_equals` the two together; `c05_setmodes` for `o ∈ [[.set], [.mset],
        [.set,.merge], [.mset,.merge]]`; `equals_of_diffNode_nil`, `diffNode_nil_of_equals` the
        inductions behind them (every node, every path prefix, either strategy).
    * `diffFaithful_of_hashFaithful`, `diffM_nil_iff_equals_hashFaithful`: the hypothesis family of
        JdProofs.EqualsSet / SetDiffPatch (`HashFaithful o (subterms a ++ subterms b)`, `setDoc`
        documents, `FloatEq0`) implies `DiffFaithful`; C05 under exactly those hypotheses.
    * SetKeys (`dispatchTag o = .set`, `keysOf o` arbitrary; either strategy):
        `equals_of_diffNode_nil_keys` (⇒), `diffNode_nil_of_equals_keys` (⇐),
        `diffM_nil_iff_equals_keys`. Extra hypotheses: `IdentInj o (subterms a)` / `(subterms b)` —
        in every array node two members with the same identity (same hash codes of the values under
        the keys) have the same hash code, i.e. the keys identify the members; `KindSepI` / `KindSepH` —
        no object has the identity / hash code of a non-object; `setDoc` on both sides and
        `FloatEq0` (`Equals` objects have equal hash codes, `hash_eq_of_equals`). (⇒) uses
        `IdentInj` on both sides and `KindSepI`; (⇐) uses `DiffFaithful`, `KindSepH` and `IdentInj`
        on `b`. WITHOUT `IdentInj` BOTH directions are FALSE, with no collision involved, on the Go
        code as well (defect class KF-C01-identperm):
          - `Witness.setkeys_forward_fails`: `[{"id":"k","v":"x"},{"id":"k","v":"y"}]` against
            `[{"id":"k","v":"y"}]` under SetKeys(id): EMPTY diff, NOT `Equals`;
          - `Witness.setkeys_converse_fails`: the same first document against its members in the
            other order: `Equals`, NON-empty diff (the LAST bearers of the identity are compared).

  HYPOTHESES and why
    * `precOf o = 0`: with Precision the property is false already for scalars (KF-C05-precision,
      JdProofs.DiffEmpty).
    * `a.rawDoc`: documents as read from text; a `jsonSet`-typed left node is `Equals` to a plain
      array but is replaced wholesale by the diff (`Witness.typed_set_left_is_excluded`; model only).
    * `a.wf`, `b.wf` (strictly increasing keys): the model's invariant standing for Go maps
      (`Witness.dup_keys_excluded`).
    * `DiffFaithful`, `IdentInj`, `KindSepI`, `KindSepH`: decidable (`diffFaithful_of_check`, …),
      see above. No witness is known for the necessity of `KindSepI` / `KindSepH` (it would take a
      genuine collision between an object identity and a string hash code).
    * No `FloatLaws` / `FloatEq0` for the SET / MULTISET theorems: scalars are compared by the very
      same call (`diff_common.go` calls `Equals` without options, which agrees with `Equals` with
      options when there is no Precision), numbers inside arrays only through hash codes.
  NON-VACUITY: `Example.ex_set`, `ex_mset`, `ex_ne`, `ex_keys` and the `example`s there.
-/
import JdProofs.SetDiffPatch

namespace Jd.DES
open Jd Jd.Spec Jd.SetDP

/-! ## 1. unfolding equations of the diff in the set modes, either strategy -/

/-- the set hunk computed by `jsonSet.diff` once the strategy test is passed -/
def setBody (o : Opts) (m : Bool) (p : Path) (xs ys : List Json) : Diff :=
  (ksort (diffSetElems o m p ys xs)).flatMap subOf ++
    (if ((ksort (diffSetElems o m p ys xs)).filterMap remOf).isEmpty &&
        (setAdd o xs ys).isEmpty then []
     else [{ path := p ++ [.set],
             remove := (ksort (diffSetElems o m p ys xs)).filterMap remOf,
             add := setAdd o xs ys }])

/-- a plain array read as a set against a node that dispatches to a set -/
theorem diffNode_set {o : Opts} (hd : dispatchTag o = .set) (m : Bool) (xs : List Json) (b : Json)
    (ys : List Json) (hb : b.dispatch o = .arr .set ys) (p : Path) :
    diffNode o m (.arr .raw xs) b p =
      if m && !(equals o (.arr .set xs) (.arr .set ys)) then
        [{ merge := true, path := p, add := (Json.arr .set ys).nodeList }]
      else setBody o m p xs ys := by
  rw [diffNode.eq_def]
  simp only [effTag, hd, beq_self_eq_true, if_true, hb]
  rfl

/-- … against any other node: one hunk replacing the value -/
theorem diffNode_set_other {o : Opts} (hd : dispatchTag o = .set) (m : Bool) (xs : List Json)
    (b : Json) (hb : ∀ ys, b.dispatch o ≠ .arr .set ys) (p : Path) :
    diffNode o m (.arr .raw xs) b p ≠ [] := by
  rw [diffNode.eq_def]
  simp only [effTag, hd, beq_self_eq_true, if_true]
  generalize b.dispatch o = b' at hb
  cases b' with
  | arr t ys =>
    cases t with
    | set => exact absurd rfl (hb ys)
    | _ => cases m <;> simp
  | _ => cases m <;> simp

theorem diffSetElems_nil_m (o : Opts) (m : Bool) (p : Path) (ys : List Json) :
    diffSetElems o m p ys [] = [] := by
  rw [diffSetElems.eq_def]

theorem diffSetElems_cons_m (o : Opts) (m : Bool) (p : Path) (ys : List Json) (x : Json)
    (r : List Json) :
    diffSetElems o m p ys (x :: r) =
      if (r.map (identOf o)).contains (identOf o x) then diffSetElems o m p ys r
      else match identLookup o (identOf o x) ys with
        | none => (identOf o x, .removed x) :: diffSetElems o m p ys r
        | some y =>
          match x, y with
          | .obj kvs, .obj _ =>
            (identOf o x, .sub (diffNode o m (.obj kvs) y (p ++ [newPathSetKeys o kvs]))) ::
              diffSetElems o m p ys r
          | _, _ => diffSetElems o m p ys r := by
  rw [diffSetElems.eq_def]
  rfl

/-- the multiset hunk -/
def msetBody (o : Opts) (p : Path) (xs ys : List Json) : Diff :=
  if (bagSurplus o xs ys).isEmpty && (bagSurplus o ys xs).isEmpty then []
  else [{ path := p ++ [.mset], remove := bagSurplus o xs ys, add := bagSurplus o ys xs }]

theorem diffNode_mset {o : Opts} (hd : dispatchTag o = .mset) (m : Bool) (xs : List Json) (b : Json)
    (ys : List Json) (hb : b.dispatch o = .arr .mset ys) (p : Path) :
    diffNode o m (.arr .raw xs) b p =
      if m && !(equals o (.arr .mset xs) (.arr .mset ys)) then
        [{ merge := true, path := p, add := (Json.arr .mset ys).nodeList }]
      else msetBody o p xs ys := by
  rw [diffNode.eq_def]
  simp only [effTag, hd, beq_self_eq_true, if_true, hb]
  rfl

theorem diffNode_mset_other {o : Opts} (hd : dispatchTag o = .mset) (m : Bool) (xs : List Json)
    (b : Json) (hb : ∀ ys, b.dispatch o ≠ .arr .mset ys) (p : Path) :
    diffNode o m (.arr .raw xs) b p ≠ [] := by
  rw [diffNode.eq_def]
  simp only [effTag, hd, beq_self_eq_true, if_true]
  generalize b.dispatch o = b' at hb
  cases b' with
  | arr t ys =>
    cases t with
    | mset => exact absurd rfl (hb ys)
    | _ => cases m <;> simp
  | _ => cases m <;> simp

/-! ## 2. when the parts of a set / multiset hunk are empty -/

theorem diffSetElems_sub_cons (o : Opts) (m : Bool) (p : Path) (ys : List Json) (x : Json)
    (r : List Json) : ∀ kp ∈ diffSetElems o m p ys r, kp ∈ diffSetElems o m p ys (x :: r) := by
  intro kp hkp
  rw [diffSetElems_cons_m]
  split
  · exact hkp
  · split
    · exact List.mem_cons_of_mem _ hkp
    · split
      · exact List.mem_cons_of_mem _ hkp
      · exact hkp

/-- every identity of the first array that is absent from the second yields a removed member -/
theorem removed_of_absent (o : Opts) (m : Bool) (p : Path) (ys : List Json) :
    ∀ (xs : List Json) (h : UInt64), h ∈ xs.map (identOf o) → h ∉ ys.map (identOf o) →
      ∃ z, (h, SetPart.removed z) ∈ diffSetElems o m p ys xs
  | [], h, hx, _ => by simp at hx
  | x :: r, h, hx, hy => by
    by_cases hr : h ∈ r.map (identOf o)
    · obtain ⟨z, hz⟩ := removed_of_absent o m p ys r h hr hy
      exact ⟨z, diffSetElems_sub_cons o m p ys x r _ hz⟩
    · have hxe : h = identOf o x := by
        simp only [List.map_cons, List.mem_cons] at hx
        rcases hx with e | e
        · exact e
        · exact absurd e hr
      subst hxe
      refine ⟨x, ?_⟩
      rw [diffSetElems_cons_m, if_neg (by simpa using hr), identLookup_none.2 hy]
      exact List.mem_cons_self

/-- a removed member has an identity that is absent from the second array -/
theorem absent_of_removed (o : Opts) (m : Bool) (p : Path) (ys : List Json) :
    ∀ (xs : List Json) (h : UInt64) (z : Json),
      (h, SetPart.removed z) ∈ diffSetElems o m p ys xs →
      z ∈ xs ∧ h = identOf o z ∧ h ∉ ys.map (identOf o)
  | [], h, z, hm => by simp [diffSetElems_nil_m] at hm
  | x :: r, h, z, hm => by
    have ih := absent_of_removed o m p ys r h z
    have lift : (h, SetPart.removed z) ∈ diffSetElems o m p ys r →
        z ∈ x :: r ∧ h = identOf o z ∧ h ∉ ys.map (identOf o) := fun hh =>
      ⟨List.mem_cons_of_mem _ (ih hh).1, (ih hh).2⟩
    rw [diffSetElems_cons_m] at hm
    split at hm
    · exact lift hm
    · split at hm
      · next e =>
        rcases List.mem_cons.1 hm with he | hm
        · simp only [Prod.mk.injEq, SetPart.removed.injEq] at he
          obtain ⟨rfl, rfl⟩ := he
          exact ⟨List.mem_cons_self, rfl, identLookup_none.1 e⟩
        · exact lift hm
      · split at hm
        · rcases List.mem_cons.1 hm with he | hm
          · simp at he
          · exact lift hm
        · exact lift hm

/-- the removed members of a set hunk are empty exactly when every identity of the first array
    occurs in the second -/
theorem rem_nil_iff (o : Opts) (m : Bool) (p : Path) (xs ys : List Json) :
    (ksort (diffSetElems o m p ys xs)).filterMap remOf = [] ↔
      ∀ h ∈ xs.map (identOf o), h ∈ ys.map (identOf o) := by
  have hp := ksort_perm (diffSetElems o m p ys xs)
  constructor
  · intro hnil h hx
    apply Classical.byContradiction
    intro hy
    obtain ⟨z, hz⟩ := removed_of_absent o m p ys xs h hx hy
    have : z ∈ (ksort (diffSetElems o m p ys xs)).filterMap remOf :=
      List.mem_filterMap.2 ⟨_, hp.mem_iff.2 hz, rfl⟩
    rw [hnil] at this
    cases this
  · intro hall
    rw [List.eq_nil_iff_forall_not_mem]
    intro z hz
    obtain ⟨⟨h, part⟩, hkp, e⟩ := List.mem_filterMap.1 hz
    cases part with
    | sub d => simp [remOf] at e
    | removed w =>
      simp only [remOf, Option.some.injEq] at e
      subst e
      obtain ⟨hw, rfl, hny⟩ := absent_of_removed o m p ys xs h w (hp.mem_iff.1 hkp)
      exact hny (hall _ (List.mem_map_of_mem hw))

/-- the added members of a set hunk are empty exactly when every identity of the second array
    occurs in the first -/
theorem add_nil_iff (o : Opts) (xs ys : List Json) :
    setAdd o xs ys = [] ↔ ∀ h ∈ ys.map (identOf o), h ∈ xs.map (identOf o) := by
  obtain ⟨_, h2⟩ := setAdd_spec o xs ys
  constructor
  · intro hnil h hy
    apply Classical.byContradiction
    intro hx
    have := (h2 h).2 ⟨hy, hx⟩
    rw [hnil] at this
    cases this
  · intro hall
    rw [List.eq_nil_iff_forall_not_mem]
    intro z hz
    obtain ⟨h1, hn⟩ := (h2 _).1 (List.mem_map_of_mem (f := identOf o) hz)
    exact hn (hall _ h1)

/-- the parts of a set diff that are sub-diffs: an object member of the first array against an
    object member of the second with the same identity -/
theorem sub_origin (o : Opts) (m : Bool) (p : Path) (ys : List Json) :
    ∀ (xs : List Json) (h : UInt64) (d : Diff), (h, SetPart.sub d) ∈ diffSetElems o m p ys xs →
      ∃ kvs kvs', Json.obj kvs ∈ xs ∧ Json.obj kvs' ∈ ys ∧
        identOf o (.obj kvs') = identOf o (.obj kvs) ∧
        d = diffNode o m (.obj kvs) (.obj kvs') (p ++ [newPathSetKeys o kvs])
  | [], h, d, hm => by simp [diffSetElems_nil_m] at hm
  | x :: r, h, d, hm => by
    have lift : (h, SetPart.sub d) ∈ diffSetElems o m p ys r →
        ∃ kvs kvs', Json.obj kvs ∈ x :: r ∧ Json.obj kvs' ∈ ys ∧
          identOf o (.obj kvs') = identOf o (.obj kvs) ∧
          d = diffNode o m (.obj kvs) (.obj kvs') (p ++ [newPathSetKeys o kvs]) := fun hh => by
      obtain ⟨kvs, kvs', h1, h2⟩ := sub_origin o m p ys r h d hh
      exact ⟨kvs, kvs', List.mem_cons_of_mem _ h1, h2⟩
    rw [diffSetElems_cons_m] at hm
    split at hm
    · exact lift hm
    · split at hm
      · rcases List.mem_cons.1 hm with he | hm
        · simp at he
        · exact lift hm
      · next y e =>
        split at hm
        · rcases List.mem_cons.1 hm with he | hm
          · simp only [Prod.mk.injEq, SetPart.sub.injEq] at he
            obtain ⟨hy, hyi⟩ := identLookup_some e
            exact ⟨_, _, List.mem_cons_self, hy, hyi, he.2⟩
          · exact lift hm
        · exact lift hm

/-- the sub-diffs of a set diff are empty when object members with the same identity have an
    empty diff -/
theorem subs_nil_of (o : Opts) (m : Bool) (p : Path) (xs ys : List Json)
    (H : ∀ kvs kvs', Json.obj kvs ∈ xs → Json.obj kvs' ∈ ys →
      identOf o (.obj kvs') = identOf o (.obj kvs) →
      ∀ q, diffNode o m (.obj kvs) (.obj kvs') q = []) :
    (ksort (diffSetElems o m p ys xs)).flatMap subOf = [] := by
  rw [List.flatMap_eq_nil_iff]
  rintro ⟨h, part⟩ hkp
  cases part with
  | removed z => rfl
  | sub d =>
    obtain ⟨kvs, kvs', h1, h2, h3, rfl⟩ :=
      sub_origin o m p ys xs h d ((ksort_perm _).mem_iff.1 hkp)
    exact H kvs kvs' h1 h2 h3 _

theorem setBody_nil_iff (o : Opts) (m : Bool) (p : Path) (xs ys : List Json) :
    setBody o m p xs ys = [] ↔
      (ksort (diffSetElems o m p ys xs)).flatMap subOf = [] ∧
      (∀ h, h ∈ xs.map (identOf o) ↔ h ∈ ys.map (identOf o)) := by
  unfold setBody
  rw [List.append_eq_nil_iff]
  constructor
  · rintro ⟨h1, h2⟩
    refine ⟨h1, ?_⟩
    split at h2
    · next hc =>
      simp only [Bool.and_eq_true, List.isEmpty_iff] at hc
      exact fun h => ⟨(rem_nil_iff o m p xs ys).1 hc.1 h, (add_nil_iff o xs ys).1 hc.2 h⟩
    · cases h2
  · rintro ⟨h1, h2⟩
    refine ⟨h1, ?_⟩
    rw [(rem_nil_iff o m p xs ys).2 (fun h => (h2 h).1), (add_nil_iff o xs ys).2 (fun h => (h2 h).2)]
    rfl

/-- the surplus of a multiset diff is empty exactly when no hash code is more frequent in the first
    array than in the second -/
theorem bagSurplus_nil_iff (o : Opts) (xs ys : List Json) :
    bagSurplus o xs ys = [] ↔
      ∀ c, (hashList o xs).count c ≤ (hashList o ys).count c := by
  constructor
  · intro h c
    have := (bagSurplus_spec o xs ys).2 c
    rw [h] at this
    simp only [List.map_nil, List.count_nil] at this
    rw [hashList_eq_map, hashList_eq_map]
    omega
  · intro h
    exact bagSurplus_nil (fun c => by rw [countOcc_eq_count, countOcc_eq_count]; exact h c)

theorem msetBody_nil_iff (o : Opts) (p : Path) (xs ys : List Json) :
    msetBody o p xs ys = [] ↔ (hashList o xs).Perm (hashList o ys) := by
  unfold msetBody
  constructor
  · intro h
    split at h
    · next hc =>
      simp only [Bool.and_eq_true, List.isEmpty_iff] at hc
      rw [List.perm_iff_count]
      intro c
      exact Nat.le_antisymm ((bagSurplus_nil_iff o xs ys).1 hc.1 c)
        ((bagSurplus_nil_iff o ys xs).1 hc.2 c)
    · cases h
  · intro h
    rw [(bagSurplus_nil_iff o xs ys).2 (fun c => Nat.le_of_eq (h.count_eq c)),
      (bagSurplus_nil_iff o ys xs).2 (fun c => Nat.le_of_eq (h.count_eq c).symm)]
    rfl

/-! ## 3. `Equals` on arrays in the set modes; members of well-formed documents -/

theorem dispatch_eq_set {o : Opts} (hd : dispatchTag o = .set) {b : Json} {ys : List Json}
    (hb : b.dispatch o = .arr .set ys) : b = .arr .raw ys ∨ b = .arr .set ys := by
  cases b with
  | arr t zs =>
    cases t <;> simp_all [Json.dispatch]
  | _ => simp [Json.dispatch] at hb

theorem dispatch_eq_mset {o : Opts} (hd : dispatchTag o = .mset) {b : Json} {ys : List Json}
    (hb : b.dispatch o = .arr .mset ys) : b = .arr .raw ys ∨ b = .arr .mset ys := by
  cases b with
  | arr t zs =>
    cases t <;> simp_all [Json.dispatch]
  | _ => simp [Json.dispatch] at hb

theorem equals_raw_set {o : Opts} (hd : dispatchTag o = .set) (xs : List Json) {b : Json}
    {ys : List Json} (hb : b.dispatch o = .arr .set ys) :
    equals o (.arr .raw xs) b =
      (hcombine (hdedup (hashList o xs)) == hcombine (hdedup (hashList o ys))) := by
  simp only [equals, effTag, hd, hb, hashCode_arr_set]

theorem equals_set_set (o : Opts) (xs ys : List Json) :
    equals o (.arr .set xs) (.arr .set ys) =
      (hcombine (hdedup (hashList o xs)) == hcombine (hdedup (hashList o ys))) := by
  simp only [equals, effTag, Json.dispatch, hashCode_arr_set]

theorem equals_raw_set_other {o : Opts} (hd : dispatchTag o = .set) (xs : List Json) {b : Json}
    (hb : ∀ ys, b.dispatch o ≠ .arr .set ys) : equals o (.arr .raw xs) b = false := by
  simp only [equals, effTag, hd]
  generalize b.dispatch o = b' at hb
  cases b' with
  | arr t ys =>
    cases t with
    | set => exact absurd rfl (hb ys)
    | _ => rfl
  | _ => rfl

theorem equals_raw_mset {o : Opts} (hd : dispatchTag o = .mset) (xs : List Json) {b : Json}
    {ys : List Json} (hb : b.dispatch o = .arr .mset ys) :
    equals o (.arr .raw xs) b =
      (xs.length == ys.length &&
        fnv1a ((hsort (hashList o xs)).flatMap le8) ==
          fnv1a ((hsort (hashList o ys)).flatMap le8)) := by
  simp only [equals, effTag, hd, hb, hashCode_arr_mset]

theorem equals_mset_mset (o : Opts) (xs ys : List Json) :
    equals o (.arr .mset xs) (.arr .mset ys) =
      (xs.length == ys.length &&
        fnv1a ((hsort (hashList o xs)).flatMap le8) ==
          fnv1a ((hsort (hashList o ys)).flatMap le8)) := by
  simp only [equals, effTag, Json.dispatch, hashCode_arr_mset]

theorem equals_raw_mset_other {o : Opts} (hd : dispatchTag o = .mset) (xs : List Json) {b : Json}
    (hb : ∀ ys, b.dispatch o ≠ .arr .mset ys) : equals o (.arr .raw xs) b = false := by
  simp only [equals, effTag, hd]
  generalize b.dispatch o = b' at hb
  cases b' with
  | arr t ys =>
    cases t with
    | mset => exact absurd rfl (hb ys)
    | _ => rfl
  | _ => rfl

theorem wfList_mem : ∀ {xs : List Json} {x : Json}, wfList xs = true → x ∈ xs → x.wf = true
  | [], _, _, h => by cases h
  | y :: r, x, hw, h => by
    simp only [wfList, Bool.and_eq_true] at hw
    rcases List.mem_cons.1 h with rfl | h
    · exact hw.1
    · exact wfList_mem hw.2 h

theorem rawDocList_mem : ∀ {xs : List Json} {x : Json}, rawDocList xs = true → x ∈ xs →
    x.rawDoc = true
  | [], _, _, h => by cases h
  | y :: r, x, hw, h => by
    simp only [rawDocList, Bool.and_eq_true] at hw
    rcases List.mem_cons.1 h with rfl | h
    · exact hw.1
    · exact rawDocList_mem hw.2 h

theorem wfKvs_mem : ∀ {kvs : List (String × Json)} {k : String} {v : Json}, wfKvs kvs = true →
    (k, v) ∈ kvs → v.wf = true
  | [], _, _, _, h => by cases h
  | (k', v') :: r, k, v, hw, h => by
    simp only [wfKvs, Bool.and_eq_true] at hw
    rcases List.mem_cons.1 h with e | h
    · cases e; exact hw.1
    · exact wfKvs_mem hw.2 h

theorem rawDocKvs_mem : ∀ {kvs : List (String × Json)} {k : String} {v : Json},
    rawDocKvs kvs = true → (k, v) ∈ kvs → v.rawDoc = true
  | [], _, _, _, h => by cases h
  | (k', v') :: r, k, v, hw, h => by
    simp only [rawDocKvs, Bool.and_eq_true] at hw
    rcases List.mem_cons.1 h with e | h
    · cases e; exact hw.1
    · exact rawDocKvs_mem hw.2 h

/-! ## 4. (⇒) an empty diff means `Equals` — no hash hypothesis, either strategy -/

/-- the readings of this file: SET without SetKeys, or MULTISET (where SetKeys plays no role) -/
def SetReading (o : Opts) : Prop :=
  (dispatchTag o = .set ∧ keysOf o = none) ∨ dispatchTag o = .mset

/-- one array node, SET reading: the hunk is empty only if the two arrays have the same set of
    member hash codes, hence the same hash code -/
theorem set_equals_of_body_nil {o : Opts} (hk : keysOf o = none) {m : Bool} {p : Path}
    {xs ys : List Json} (h : setBody o m p xs ys = []) :
    hcombine (hdedup (hashList o xs)) = hcombine (hdedup (hashList o ys)) := by
  have h2 := ((setBody_nil_iff o m p xs ys).1 h).2
  rw [funext (identOf_eq_hashCode hk)] at h2
  unfold hcombine
  rw [hsort_hdedup_ext (l := hashList o xs) (l' := hashList o ys)
    (fun c => by rw [hashList_eq_map, hashList_eq_map]; exact h2 c)]

theorem equals_of_diffNode_nil {o : Opts} (hm : SetReading o) (hp : precOf o = 0) (m : Bool) :
    ∀ a : Json, a.rawDoc = true → a.wf = true → ∀ b : Json, b.wf = true →
      ∀ p, diffNode o m a b p = [] → equals o a b = true := by
  have scalar : ∀ a : Json, (∀ t xs, a ≠ .arr t xs) → (∀ kvs, a ≠ .obj kvs) →
      ∀ b p, diffNode o m a b p = [] → equals o a b = true :=
    fun a h1 h2 b p h => (diffNode_scalar_nil_iff hp m a b h1 h2 p).1 h
  intro a
  induction a using jsonInd with
  | void => intro _ _ b _ p h; exact scalar _ (fun _ _ e => by cases e) (fun _ e => by cases e) b p h
  | null => intro _ _ b _ p h; exact scalar _ (fun _ _ e => by cases e) (fun _ e => by cases e) b p h
  | bool x => intro _ _ b _ p h; exact scalar _ (fun _ _ e => by cases e) (fun _ e => by cases e) b p h
  | num x => intro _ _ b _ p h; exact scalar _ (fun _ _ e => by cases e) (fun _ e => by cases e) b p h
  | str x => intro _ _ b _ p h; exact scalar _ (fun _ _ e => by cases e) (fun _ e => by cases e) b p h
  | arr t xs _ =>
    intro hr _ b _ p h
    simp only [Json.rawDoc, Bool.and_eq_true, beq_iff_eq] at hr
    obtain ⟨rfl, _⟩ := hr
    rcases hm with ⟨hd, hk⟩ | hd
    · by_cases hb : ∃ ys, b.dispatch o = .arr .set ys
      · obtain ⟨ys, hb⟩ := hb
        rw [equals_raw_set hd xs hb]
        rw [diffNode_set hd m xs b ys hb p] at h
        split at h
        · cases h
        · simp [set_equals_of_body_nil hk h]
      · exact absurd h (diffNode_set_other hd m xs b (fun ys e => hb ⟨ys, e⟩) p)
    · by_cases hb : ∃ ys, b.dispatch o = .arr .mset ys
      · obtain ⟨ys, hb⟩ := hb
        rw [equals_raw_mset hd xs hb]
        rw [diffNode_mset hd m xs b ys hb p] at h
        split at h
        · cases h
        · have hperm := (msetBody_nil_iff o p xs ys).1 h
          have hlen : xs.length = ys.length := by
            have := hperm.length_eq
            rwa [hashList_eq_map, hashList_eq_map, List.length_map, List.length_map] at this
          simp [hsort_eq_of_perm hperm, hlen]
      · exact absurd h (diffNode_mset_other hd m xs b (fun ys e => hb ⟨ys, e⟩) p)
  | obj kvs ih =>
    intro hr hw b hwb p h
    cases b with
    | obj kvs' =>
      simp only [Json.rawDoc] at hr
      simp only [Json.wf, Bool.and_eq_true] at hw hwb
      refine equals_obj_of_diff_nil hw.1 hwb.1 h ?_
      have key : ∀ r : List (String × Json), (∀ kv ∈ r, kv ∈ kvs) →
          diffKvs o m p kvs' r = [] → AllLook (equals o) r kvs' := by
        intro r
        induction r with
        | nil => intro _ _ k v hm; cases hm
        | cons kv r ihr =>
          obtain ⟨k, v⟩ := kv
          intro hsub hd k0 v0 hm0
          obtain ⟨⟨v', hl, hdv⟩, hrest⟩ := diffKvs_cons_nil hd
          rcases List.mem_cons.1 hm0 with e | hm0
          · cases e
            have hmem : (k, v) ∈ kvs := hsub _ List.mem_cons_self
            exact ⟨v', hl, ih k v hmem (rawDocKvs_mem hr hmem) (wfKvs_mem hw.2 hmem) v'
              (alookup_wf hl hwb.2) _ hdv⟩
          · exact ihr (fun kv hh => hsub kv (List.mem_cons_of_mem _ hh)) hrest k0 v0 hm0
      exact key kvs (fun _ hh => hh)
    | _ => exact absurd h (DE.diffNode_obj_other_ne o m kvs _ (fun _ e => by cases e) p)

/-! ## 5. (⇐) `Equals` means an empty diff — relative to a no-collision hypothesis -/

/-- the hash codes whose bytes are hashed to give the hash code of an array node (sorted distinct
    member hash codes for a set, sorted member hash codes for a multiset) -/
def arrPre (o : Opts) : Json → List UInt64
  | .arr t xs =>
    match effTag o t with
    | .set => hsort (hdedup (hashList o xs))
    | .mset => hsort (hashList o xs)
    | _ => hashList o xs
  | _ => []

/-- what the diff needs of two nodes with the same hash code: two arrays were hashed from the same
    member hash codes (no FNV collision); two objects are `Equals` (no collision, no alias) — the
    latter in the SET reading only: the multiset diff never looks inside a member -/
def pairOK (o : Opts) (x y : Json) : Bool :=
  match x, y with
  | .obj _, .obj _ => dispatchTag o == .mset || equals o x y
  | .arr _ _, .arr _ _ => arrPre o x == arrPre o y
  | _, _ => true

/-- no harmful hash collision between the nodes `SA` of the first and `SB` of the second document -/
def DiffFaithful (o : Opts) (SA SB : List Json) : Prop :=
  ∀ x ∈ SA, ∀ y ∈ SB, hashCode o x = hashCode o y → pairOK o x y = true

theorem DiffFaithful.mono {o : Opts} {SA SB SA' SB' : List Json} (h : DiffFaithful o SA SB)
    (ha : ∀ x ∈ SA', x ∈ SA) (hb : ∀ y ∈ SB', y ∈ SB) : DiffFaithful o SA' SB' :=
  fun x hx y hy e => h x (ha x hx) y (hb y hy) e

theorem mem_hsort_hdedup (c : UInt64) (l : List UInt64) : c ∈ hsort (hdedup l) ↔ c ∈ l := by
  rw [(hsort_perm _).mem_iff, mem_hdedup]

theorem diffNode_nil_of_equals {o : Opts} (hm : SetReading o) (hp : precOf o = 0) (m : Bool)
    {SA SB : List Json} (FH : DiffFaithful o SA SB) :
    ∀ a : Json, a.rawDoc = true → a.wf = true → Within SA a →
      ∀ b : Json, b.wf = true → Within SB b → equals o a b = true →
      ∀ p, diffNode o m a b p = [] := by
  have scalar : ∀ a : Json, (∀ t xs, a ≠ .arr t xs) → (∀ kvs, a ≠ .obj kvs) →
      ∀ b, equals o a b = true → ∀ p, diffNode o m a b p = [] :=
    fun a h1 h2 b h p => (diffNode_scalar_nil_iff hp m a b h1 h2 p).2 h
  intro a
  induction a using jsonInd with
  | void => intro _ _ _ b _ _ h; exact scalar _ (fun _ _ e => by cases e) (fun _ e => by cases e) b h
  | null => intro _ _ _ b _ _ h; exact scalar _ (fun _ _ e => by cases e) (fun _ e => by cases e) b h
  | bool x => intro _ _ _ b _ _ h; exact scalar _ (fun _ _ e => by cases e) (fun _ e => by cases e) b h
  | num x => intro _ _ _ b _ _ h; exact scalar _ (fun _ _ e => by cases e) (fun _ e => by cases e) b h
  | str x => intro _ _ _ b _ _ h; exact scalar _ (fun _ _ e => by cases e) (fun _ e => by cases e) b h
  | arr t xs ih =>
    intro hr hw wa b hwb wb h p
    simp only [Json.rawDoc, Bool.and_eq_true, beq_iff_eq] at hr
    obtain ⟨rfl, hrx⟩ := hr
    simp only [Json.wf] at hw
    rcases hm with ⟨hd, hk⟩ | hd
    · have hraw : effTag o .raw = .set := by simp [effTag, hd]
      by_cases hb : ∃ ys, b.dispatch o = .arr .set ys
      · obtain ⟨ys, hb⟩ := hb
        rw [equals_raw_set hd xs hb, beq_iff_eq] at h
        rw [diffNode_set hd m xs b ys hb p, equals_set_set, h]
        simp only [beq_self_eq_true, Bool.not_true, Bool.and_false, Bool.false_eq_true, if_false]
        have hbt : ∃ t', b = .arr t' ys ∧ effTag o t' = .set := by
          rcases dispatch_eq_set hd hb with rfl | rfl
          · exact ⟨_, rfl, by simp [effTag, hd]⟩
          · exact ⟨_, rfl, rfl⟩
        obtain ⟨t', rfl, ht'⟩ := hbt
        have hwy : wfList ys = true := by simpa [Json.wf] using hwb
        rw [setBody_nil_iff]
        constructor
        · apply subs_nil_of
          intro kvs kvs' hx hy e q
          rw [identOf_eq_hashCode hk, identOf_eq_hashCode hk] at e
          have hok := FH _ (wa.elem hx).self _ (wb.elem hy).self e.symm
          simp only [pairOK, hd] at hok
          have : (Tag.set == Tag.mset) = false := rfl
          rw [this, Bool.false_or] at hok
          exact ih _ hx (rawDocList_mem hrx hx) (wfList_mem hw hx) (wa.elem hx) _
            (wfList_mem hwy hy) (wb.elem hy) hok q
        · have hh : hashCode o (.arr .raw xs) = hashCode o (.arr t' ys) := by
            simp only [hashCode, hraw, ht']
            exact h
          have hok := FH _ wa.self _ wb.self hh
          simp only [pairOK, arrPre, hraw, ht', beq_iff_eq] at hok
          intro c
          rw [funext (identOf_eq_hashCode hk), ← hashList_eq_map, ← hashList_eq_map,
            ← mem_hsort_hdedup c (hashList o xs), ← mem_hsort_hdedup c (hashList o ys), hok]
      · rw [equals_raw_set_other hd xs (fun ys e => hb ⟨ys, e⟩)] at h
        cases h
    · have hraw : effTag o .raw = .mset := by simp [effTag, hd]
      by_cases hb : ∃ ys, b.dispatch o = .arr .mset ys
      · obtain ⟨ys, hb⟩ := hb
        have h' := h
        rw [equals_raw_mset hd xs hb, Bool.and_eq_true, beq_iff_eq, beq_iff_eq] at h'
        have he : equals o (.arr .mset xs) (.arr .mset ys) = true := by
          rw [equals_mset_mset, ← equals_raw_mset hd xs hb]; exact h
        rw [diffNode_mset hd m xs b ys hb p, he]
        simp only [Bool.not_true, Bool.and_false, Bool.false_eq_true, if_false]
        have hbt : ∃ t', b = .arr t' ys ∧ effTag o t' = .mset := by
          rcases dispatch_eq_mset hd hb with rfl | rfl
          · exact ⟨_, rfl, by simp [effTag, hd]⟩
          · exact ⟨_, rfl, rfl⟩
        obtain ⟨t', rfl, ht'⟩ := hbt
        have hh : hashCode o (.arr .raw xs) = hashCode o (.arr t' ys) := by
          simp only [hashCode, hraw, ht']
          exact h'.2
        have hok := FH _ wa.self _ wb.self hh
        simp only [pairOK, arrPre, hraw, ht', beq_iff_eq] at hok
        rw [msetBody_nil_iff]
        exact (hsort_perm _).symm.trans (hok ▸ hsort_perm _)
      · rw [equals_raw_mset_other hd xs (fun ys e => hb ⟨ys, e⟩)] at h
        cases h
  | obj kvs ih =>
    intro hr hw wa b hwb wb h p
    cases b with
    | obj kvs' =>
      simp only [Json.rawDoc] at hr
      simp only [Json.wf, Bool.and_eq_true] at hw hwb
      obtain ⟨h1, h2⟩ := (equals_obj_iff o hw.1 hwb.1).1 h
      have key : ∀ r : List (String × Json), (∀ kv ∈ r, kv ∈ kvs) →
          diffKvs o m p kvs' r = [] := by
        intro r
        induction r with
        | nil => intro _; exact DE.diffKvs_nil o m p kvs'
        | cons kv r ihr =>
          obtain ⟨k, v⟩ := kv
          intro hsub
          have hmem : (k, v) ∈ kvs := hsub _ List.mem_cons_self
          obtain ⟨v', hl, he⟩ := h1 k v hmem
          have hmem' := mem_of_alookup hl
          rw [DE.diffKvs_cons, ihr (fun kv hh => hsub kv (List.mem_cons_of_mem _ hh)), hl]
          simp only [List.append_nil]
          exact ih k v hmem (rawDocKvs_mem hr hmem) (wfKvs_mem hw.2 hmem) (wa.val hmem) v'
            (alookup_wf hl hwb.2) (wb.val hmem') he _
      rw [DE.diffNode_obj_obj, key kvs (fun _ hh => hh), filter_added_nil h2]
      rfl
    | _ => simp [equals] at h

/-! ## 6. property C05 in the SET and MULTISET readings, strict and MERGE strategy -/

theorem within_subterms (a : Json) : Within (subterms a) a := fun _ h => h

/-- **(⇒)** an empty diff means `Equals`: no hash hypothesis, no float hypothesis -/
theorem equals_of_diffM_nil (o : Opts) (hm : SetReading o) (hp : precOf o = 0) (a b : Json)
    (hr : a.rawDoc = true) (hw : a.wf = true) (hw' : b.wf = true) (h : diffM o a b = []) :
    equals o a b = true :=
  equals_of_diffNode_nil hm hp (isMerge o) a hr hw b hw' [] h

/-- **(⇐)** `Equals` means an empty diff, when no two nodes of the two documents collide harmfully -/
theorem diffM_nil_of_equals (o : Opts) (hm : SetReading o) (hp : precOf o = 0) (a b : Json)
    (hr : a.rawDoc = true) (hw : a.wf = true) (hw' : b.wf = true)
    (FH : DiffFaithful o (subterms a) (subterms b)) (h : equals o a b = true) :
    diffM o a b = [] :=
  diffNode_nil_of_equals hm hp (isMerge o) FH a hr hw (within_subterms a) b hw' (within_subterms b)
    h []

/-- **C05, SET / MULTISET readings, strict or MERGE strategy** -/
theorem diffM_nil_iff_equals (o : Opts) (hm : SetReading o) (hp : precOf o = 0) (a b : Json)
    (hr : a.rawDoc = true) (hw : a.wf = true) (hw' : b.wf = true)
    (FH : DiffFaithful o (subterms a) (subterms b)) :
    diffM o a b = [] ↔ equals o a b = true :=
  ⟨equals_of_diffM_nil o hm hp a b hr hw hw', diffM_nil_of_equals o hm hp a b hr hw hw' FH⟩

/-- the four option lists of the task -/
def setOptions : List Opts := [[.set], [.mset], [.set, .merge], [.mset, .merge]]

theorem setOptions_reading {o : Opts} (ho : o ∈ setOptions) : SetReading o ∧ precOf o = 0 := by
  simp only [setOptions, List.mem_cons, List.not_mem_nil, or_false] at ho
  rcases ho with rfl | rfl | rfl | rfl
  · exact ⟨.inl ⟨rfl, rfl⟩, rfl⟩
  · exact ⟨.inr rfl, rfl⟩
  · exact ⟨.inl ⟨rfl, rfl⟩, rfl⟩
  · exact ⟨.inr rfl, rfl⟩

/-- C05 for `o = [.set]`, `[.mset]`, `[.set, .merge]`, `[.mset, .merge]` -/
theorem c05_setmodes {o : Opts} (ho : o ∈ setOptions) (a b : Json)
    (hr : a.rawDoc = true) (hw : a.wf = true) (hw' : b.wf = true) :
    (diffM o a b = [] → equals o a b = true) ∧
    (DiffFaithful o (subterms a) (subterms b) → equals o a b = true → diffM o a b = []) :=
  ⟨equals_of_diffM_nil o (setOptions_reading ho).1 (setOptions_reading ho).2 a b hr hw hw',
   fun FH => diffM_nil_of_equals o (setOptions_reading ho).1 (setOptions_reading ho).2 a b hr hw hw'
     FH⟩

/-! ## 7. the hypothesis family of EqualsSet / SetDiffPatch implies `DiffFaithful` -/

theorem mem_subtermsList_inv {z : Json} : ∀ {xs : List Json}, z ∈ subtermsList xs →
    ∃ x ∈ xs, z ∈ subterms x
  | [], h => by simp [subtermsList] at h
  | y :: r, h => by
    simp only [subtermsList, List.mem_append] at h
    rcases h with h | h
    · exact ⟨y, List.mem_cons_self, h⟩
    · obtain ⟨x, hx, hz⟩ := mem_subtermsList_inv h
      exact ⟨x, List.mem_cons_of_mem _ hx, hz⟩

theorem mem_subtermsKvs_inv {z : Json} : ∀ {kvs : List (String × Json)}, z ∈ subtermsKvs kvs →
    ∃ k v, (k, v) ∈ kvs ∧ z ∈ subterms v
  | [], h => by simp [subtermsKvs] at h
  | (k', v') :: r, h => by
    simp only [subtermsKvs, List.mem_append] at h
    rcases h with h | h
    · exact ⟨k', v', List.mem_cons_self, h⟩
    · obtain ⟨k, v, hx, hz⟩ := mem_subtermsKvs_inv h
      exact ⟨k, v, List.mem_cons_of_mem _ hx, hz⟩

theorem subterms_trans {x z : Json} (hz : z ∈ subterms x) : ∀ a, x ∈ subterms a → z ∈ subterms a := by
  intro a
  induction a using jsonInd with
  | void => intro h; simp only [subterms, List.mem_singleton] at h; exact h ▸ hz
  | null => intro h; simp only [subterms, List.mem_singleton] at h; exact h ▸ hz
  | bool _ => intro h; simp only [subterms, List.mem_singleton] at h; exact h ▸ hz
  | num _ => intro h; simp only [subterms, List.mem_singleton] at h; exact h ▸ hz
  | str _ => intro h; simp only [subterms, List.mem_singleton] at h; exact h ▸ hz
  | arr t xs ih =>
    intro h
    simp only [subterms, List.mem_cons] at h
    rcases h with rfl | h
    · exact hz
    · obtain ⟨x', hx', hxx⟩ := mem_subtermsList_inv h
      exact subterms_elem_sub hx' (ih x' hx' hxx)
  | obj kvs ih =>
    intro h
    simp only [subterms, List.mem_cons] at h
    rcases h with rfl | h
    · exact hz
    · obtain ⟨k, v, hm, hxx⟩ := mem_subtermsKvs_inv h
      exact subterms_val_sub hm (ih k v hm hxx)

/-- `HashFaithful` (equal hash codes only for equivalent nodes: the hypothesis of
    `equals_eq_equivB_set/_mset` and of `diff_then_patch_set/_mset`) implies `DiffFaithful`, on
    `setDoc` documents and with the IEEE-754 law `FloatEq0` -/
theorem diffFaithful_of_hashFaithful (F : FloatEq0) {o : Opts}
    (hm : dispatchTag o = .set ∨ dispatchTag o = .mset) (hp : precOf o = 0) {a b : Json}
    (da : DocOk a) (db : DocOk b) (HF : HashFaithful o (subterms a ++ subterms b)) :
    DiffFaithful o (subterms a) (subterms b) := by
  intro x hx y hy e
  have dx : DocOk x := fun z hz => da z (subterms_trans hz a hx)
  have dy : DocOk y := fun z hz => db z (subterms_trans hz b hy)
  have wx : Within (subterms a ++ subterms b) x :=
    fun z hz => List.mem_append.2 (.inl (subterms_trans hz a hx))
  have wy : Within (subterms a ++ subterms b) y :=
    fun z hz => List.mem_append.2 (.inr (subterms_trans hz b hy))
  have heq : equivB o x y = true := HF x wx.self y wy.self e
  cases x with
  | obj kvs =>
    cases y with
    | obj kvs' =>
      simp only [pairOK]
      rw [equals_eq_equivB_of F hm hp HF dx dy wx wy, heq, Bool.or_true]
    | _ => rfl
  | arr t xs =>
    cases y with
    | arr t' ys =>
      have ht := dx.raw
      have ht' := dy.raw
      subst ht ht'
      have hhash : ∀ x' ∈ xs, ∀ y' ∈ ys, equivB o x' y' = true → hashCode o x' = hashCode o y' :=
        fun x' hx' y' hy' e' => equivB_hash_core F o hm hp x' y' (dx.elem hx') (dy.elem hy') e'
      rcases hm with hd | hd
      · simp only [equivB, hd, Bool.and_eq_true, allIn_iff, allCovered_iff] at heq
        simp only [pairOK, arrPre, effTag, hd, beq_iff_eq]
        apply hsort_hdedup_ext
        intro c
        simp only [hashList_eq_map, List.mem_map]
        constructor
        · rintro ⟨x', hx', rfl⟩
          obtain ⟨y', hy', e'⟩ := heq.1 x' hx'
          exact ⟨y', hy', (hhash x' hx' y' hy' e').symm⟩
        · rintro ⟨y', hy', rfl⟩
          obtain ⟨x', hx', e'⟩ := heq.2 y' hy'
          exact ⟨x', hx', hhash x' hx' y' hy' e'⟩
      · simp only [equivB, hd, Bool.and_eq_true, beq_iff_eq] at heq
        simp only [pairOK, arrPre, effTag, hd, beq_iff_eq]
        apply hsort_eq_of_perm
        rw [hashList_eq_map, hashList_eq_map]
        exact bagSub_hash_perm o xs ys heq.1 heq.2 hhash
    | _ => rfl
  | _ => rfl

/-- C05 in the set modes under the hypotheses of `diff_then_patch_set/_mset` (without `memOK`) -/
theorem diffM_nil_iff_equals_hashFaithful (F : FloatEq0) (o : Opts) (hm : SetReading o)
    (hp : precOf o = 0) (a b : Json) (ha : a.setDoc = true) (hb : b.setDoc = true)
    (HF : HashFaithful o (subterms a ++ subterms b)) :
    diffM o a b = [] ↔ equals o a b = true := by
  have hm' : dispatchTag o = .set ∨ dispatchTag o = .mset := by
    rcases hm with ⟨h, _⟩ | h
    · exact .inl h
    · exact .inr h
  have ha' := ha
  have hb' := hb
  simp only [Json.setDoc, Bool.and_eq_true] at ha' hb'
  exact diffM_nil_iff_equals o hm hp a b ha'.1.1.1 ha'.1.1.2 hb'.1.1.2
    (diffFaithful_of_hashFaithful F hm' hp (docOk_of_setDoc ha) (docOk_of_setDoc hb) HF)

/-! ## 8. SetKeys: members of a set are matched by the hash codes of their key values -/

/-- `Equals` documents have the same hash code in the set modes (numbers: `FloatEq0`) -/
theorem hash_eq_of_equals (F : FloatEq0) {o : Opts}
    (hm : dispatchTag o = .set ∨ dispatchTag o = .mset) (hp : precOf o = 0) :
    ∀ a b, DocOk a → DocOk b → equals o a b = true → hashCode o a = hashCode o b := by
  intro a
  induction a using jsonInd with
  | void => intro b _ _ h; cases b <;> simp [equals, Json.isVoid] at h ⊢
  | null => intro b _ _ h; cases b <;> simp [equals, Json.isNull] at h ⊢
  | bool x => intro b _ _ h; cases b <;> simp [equals] at h ⊢; simp [h]
  | str x => intro b _ _ h; cases b <;> simp [equals] at h ⊢; simp [h]
  | num x =>
    intro b ha hb h
    cases b with
    | num y =>
      have hx := ha (.num x) (mem_subterms_self _)
      have hy := hb (.num y) (mem_subterms_self _)
      simp only [nodeOk, Bool.and_eq_true, bne_iff_ne, ne_eq] at hx hy
      simp only [equals, hp] at h
      rw [F.eq_of_within0 x y hx.1 hy.1 hx.2 hy.2 h]
    | _ => simp [equals] at h
  | arr t xs _ =>
    intro b ha hb h
    have ht := ha.raw
    subst ht
    cases b with
    | arr t' ys =>
      have ht' := hb.raw
      subst ht'
      rcases hm with hd | hd
      · rw [equals_arr_raw_set hd, beq_iff_eq] at h; exact h
      · rw [equals_arr_raw_mset hd, Bool.and_eq_true, beq_iff_eq, beq_iff_eq] at h; exact h.2
    | _ => rcases hm with hd | hd <;> simp [equals, effTag, hd, Json.dispatch] at h
  | obj kvs ih =>
    intro b ha hb h
    cases b with
    | obj kvs' =>
      have hs := ha.sorted
      have hs' := hb.sorted
      have hlen : kvs.length = kvs'.length := by
        simp only [equals, Bool.and_eq_true, beq_iff_eq] at h; exact h.1
      obtain ⟨h1, _⟩ := (equals_obj_iff o hs hs').1 h
      have hflip := AllLook.flip hs hs' hlen h1
      have key : hashKvs o kvs = hashKvs o kvs' :=
        hashKvs_congr o (equals o) kvs kvs' hs hs' h1 hflip
          (fun k v v' hm1 hm2 e => ih k v hm1 v' (ha.val hm1) (hb.val hm2) e)
      simp only [hashCode, key]
    | _ => simp [equals] at h

theorem identOf_nonobj (o : Opts) {x : Json} (h : x.isObj = false) : identOf o x = hashCode o x := by
  cases x <;> simp_all [identOf, Json.isObj]

/-- `Equals` objects have the same identity, with or without SetKeys -/
theorem ident_eq_of_equals (F : FloatEq0) {o : Opts}
    (hm : dispatchTag o = .set ∨ dispatchTag o = .mset) (hp : precOf o = 0)
    {kvs kvs' : List (String × Json)} (ha : DocOk (.obj kvs)) (hb : DocOk (.obj kvs'))
    (h : equals o (.obj kvs) (.obj kvs') = true) :
    identOf o (.obj kvs) = identOf o (.obj kvs') := by
  simp only [identOf, identObj]
  cases hk : keysOf o with
  | none => exact hash_eq_of_equals F hm hp _ _ ha hb h
  | some ks =>
    have hs := ha.sorted
    have hs' := hb.sorted
    have hlen : kvs.length = kvs'.length := by
      simp only [equals, Bool.and_eq_true, beq_iff_eq] at h; exact h.1
    obtain ⟨h1, _⟩ := (equals_obj_iff o hs hs').1 h
    have hflip := AllLook.flip hs hs' hlen h1
    have key : ∀ l : List String, identKeyHashes o kvs l = identKeyHashes o kvs' l := by
      intro l
      induction l with
      | nil => rfl
      | cons k r ihr =>
        simp only [identKeyHashes, ihr]
        cases e : alookup k kvs with
        | some v =>
          obtain ⟨v', hl, he⟩ := h1 k v (mem_of_alookup e)
          rw [hl]
          simp only [hash_eq_of_equals F hm hp v v' (ha.val (mem_of_alookup e))
            (hb.val (mem_of_alookup hl)) he]
        | none =>
          cases e' : alookup k kvs' with
          | none => rfl
          | some v' =>
            obtain ⟨v, hl, _⟩ := hflip k v' (mem_of_alookup e')
            rw [e] at hl
            cases hl
    simp only [key ks]

/-- an identity present in both arrays: its LAST bearers on either side are the pair the set diff
    looks at; when both are objects their sub-diff is one of the parts -/
theorem matched_of_present (o : Opts) (m : Bool) (p : Path) (ys : List Json) :
    ∀ (xs : List Json) (h : UInt64), h ∈ xs.map (identOf o) → h ∈ ys.map (identOf o) →
      ∃ x ∈ xs, ∃ y ∈ ys, identOf o x = h ∧ identOf o y = h ∧
        ∀ kvs kvs', x = .obj kvs → y = .obj kvs' →
          (h, SetPart.sub (diffNode o m (.obj kvs) (.obj kvs') (p ++ [newPathSetKeys o kvs]))) ∈
            diffSetElems o m p ys xs
  | [], h, hx, _ => by simp at hx
  | x :: r, h, hx, hy => by
    by_cases hr : h ∈ r.map (identOf o)
    · obtain ⟨x', hx', y', hy', e1, e2, hc⟩ := matched_of_present o m p ys r h hr hy
      exact ⟨x', List.mem_cons_of_mem _ hx', y', hy', e1, e2, fun kvs kvs' ex ey =>
        diffSetElems_sub_cons o m p ys x r _ (hc kvs kvs' ex ey)⟩
    · have hxe : h = identOf o x := by
        simp only [List.map_cons, List.mem_cons] at hx
        rcases hx with e | e
        · exact e
        · exact absurd e hr
      subst hxe
      cases e : identLookup o (identOf o x) ys with
      | none => exact absurd hy (identLookup_none.1 e)
      | some y =>
        obtain ⟨hym, hyi⟩ := identLookup_some e
        refine ⟨x, List.mem_cons_self, y, hym, rfl, hyi, ?_⟩
        intro kvs kvs' ex ey
        subst ex ey
        rw [diffSetElems_cons_m, if_neg (by simpa using hr), e]
        exact List.mem_cons_self

/-- the members of one array node are told apart by their identities: two members with the same
    identity (the same values under the SetKeys) have the same hash code -/
def nodeIdentInj (o : Opts) : Json → Bool
  | .arr _ xs =>
    xs.all fun x => xs.all fun x' => identOf o x != identOf o x' || hashCode o x == hashCode o x'
  | _ => true

/-- every array node among `S` has members told apart by their identities -/
def IdentInj (o : Opts) (S : List Json) : Prop := ∀ n ∈ S, nodeIdentInj o n = true

theorem IdentInj.apply {o : Opts} {S : List Json} (h : IdentInj o S) {t : Tag} {xs : List Json}
    (hn : Json.arr t xs ∈ S) {x x' : Json} (hx : x ∈ xs) (hx' : x' ∈ xs)
    (e : identOf o x = identOf o x') : hashCode o x = hashCode o x' := by
  have := h _ hn
  simp only [nodeIdentInj, List.all_eq_true] at this
  simpa [e] using this x hx x' hx'

/-- no alias between the identity of an object and the identity (= hash code) of a non-object -/
def KindSepI (o : Opts) (SA SB : List Json) : Prop :=
  ∀ x ∈ SA, ∀ y ∈ SB, identOf o x = identOf o y → x.isObj = y.isObj

/-- no alias between the hash code of an object and the hash code of a non-object -/
def KindSepH (o : Opts) (SA SB : List Json) : Prop :=
  ∀ x ∈ SA, ∀ y ∈ SB, hashCode o x = hashCode o y → x.isObj = y.isObj

/-- **(⇒) with SetKeys** (any options reading arrays as sets, in particular `keysOf o = some ks`):
    an empty diff means `Equals` when identities tell the members of every set apart -/
theorem equals_of_diffNode_nil_keys (F : FloatEq0) {o : Opts} (hd : dispatchTag o = .set)
    (hp : precOf o = 0) (m : Bool) {SA SB : List Json} (IA : IdentInj o SA) (IB : IdentInj o SB)
    (KS : KindSepI o SA SB) :
    ∀ a : Json, DocOk a → Within SA a → ∀ b : Json, DocOk b → Within SB b →
      ∀ p, diffNode o m a b p = [] → equals o a b = true := by
  have scalar : ∀ a : Json, (∀ t xs, a ≠ .arr t xs) → (∀ kvs, a ≠ .obj kvs) →
      ∀ b p, diffNode o m a b p = [] → equals o a b = true :=
    fun a h1 h2 b p h => (diffNode_scalar_nil_iff hp m a b h1 h2 p).1 h
  intro a
  induction a using jsonInd with
  | void => intro _ _ b _ _ p h; exact scalar _ (fun _ _ e => by cases e) (fun _ e => by cases e) b p h
  | null => intro _ _ b _ _ p h; exact scalar _ (fun _ _ e => by cases e) (fun _ e => by cases e) b p h
  | bool x => intro _ _ b _ _ p h; exact scalar _ (fun _ _ e => by cases e) (fun _ e => by cases e) b p h
  | num x => intro _ _ b _ _ p h; exact scalar _ (fun _ _ e => by cases e) (fun _ e => by cases e) b p h
  | str x => intro _ _ b _ _ p h; exact scalar _ (fun _ _ e => by cases e) (fun _ e => by cases e) b p h
  | arr t xs ih =>
    intro da wa b db wb p h
    have ht := da.raw
    subst ht
    by_cases hb : ∃ ys, b.dispatch o = .arr .set ys
    · obtain ⟨ys, hb⟩ := hb
      have hbr : b = .arr .raw ys := by
        rcases dispatch_eq_set hd hb with rfl | rfl
        · rfl
        · exact absurd db.raw (by simp)
      subst hbr
      rw [equals_raw_set hd xs hb]
      rw [diffNode_set hd m xs _ ys hb p] at h
      split at h
      · cases h
      · obtain ⟨hsub, hids⟩ := (setBody_nil_iff o m p xs ys).1 h
        rw [List.flatMap_eq_nil_iff] at hsub
        have core : ∀ c, c ∈ xs.map (identOf o) → ∃ x ∈ xs, ∃ y ∈ ys,
            identOf o x = c ∧ identOf o y = c ∧ hashCode o x = hashCode o y := by
          intro c hc
          obtain ⟨x, hx, y, hy, e1, e2, hpart⟩ :=
            matched_of_present o m p ys xs c hc ((hids c).1 hc)
          refine ⟨x, hx, y, hy, e1, e2, ?_⟩
          have hkind := KS x (wa.elem hx).self y (wb.elem hy).self (e1.trans e2.symm)
          cases x with
          | obj kvs =>
            cases y with
            | obj kvs' =>
              have hd0 := hsub _ ((ksort_perm _).mem_iff.2 (hpart kvs kvs' rfl rfl))
              simp only [subOf] at hd0
              exact hash_eq_of_equals F (.inl hd) hp _ _ (da.elem hx) (db.elem hy)
                (ih _ hx (da.elem hx) (wa.elem hx) _ (db.elem hy) (wb.elem hy) _ hd0)
            | _ => simp [Json.isObj] at hkind
          | _ =>
            have hx0 := hkind
            simp only [Json.isObj] at hx0
            rw [← identOf_nonobj o (by simp [Json.isObj]), ← identOf_nonobj o hx0.symm, e1, e2]
        have hext : ∀ c, c ∈ hashList o xs ↔ c ∈ hashList o ys := by
          intro c
          simp only [hashList_eq_map, List.mem_map]
          constructor
          · rintro ⟨x, hx, rfl⟩
            obtain ⟨x', hx', y', hy', e1, _, e3⟩ := core _ (List.mem_map_of_mem (f := identOf o) hx)
            exact ⟨y', hy', by rw [← e3, IA.apply wa.self hx hx' e1.symm]⟩
          · rintro ⟨y, hy, rfl⟩
            obtain ⟨x', hx', y', hy', _, e2, e3⟩ :=
              core _ ((hids _).2 (List.mem_map_of_mem (f := identOf o) hy))
            exact ⟨x', hx', by rw [e3, IB.apply wb.self hy hy' e2.symm]⟩
        simp [hcombine, hsort_hdedup_ext hext]
    · exact absurd h (diffNode_set_other hd m xs b (fun ys e => hb ⟨ys, e⟩) p)
  | obj kvs ih =>
    intro da wa b db wb p h
    cases b with
    | obj kvs' =>
      refine equals_obj_of_diff_nil da.sorted db.sorted h ?_
      have key : ∀ r : List (String × Json), (∀ kv ∈ r, kv ∈ kvs) →
          diffKvs o m p kvs' r = [] → AllLook (equals o) r kvs' := by
        intro r
        induction r with
        | nil => intro _ _ k v hm; cases hm
        | cons kv r ihr =>
          obtain ⟨k, v⟩ := kv
          intro hsub hd' k0 v0 hm0
          obtain ⟨⟨v', hl, hdv⟩, hrest⟩ := diffKvs_cons_nil hd'
          rcases List.mem_cons.1 hm0 with e | hm0
          · cases e
            have hmem : (k, v) ∈ kvs := hsub _ List.mem_cons_self
            have hmem' := mem_of_alookup hl
            exact ⟨v', hl, ih k v hmem (da.val hmem) (wa.val hmem) v' (db.val hmem')
              (wb.val hmem') _ hdv⟩
          · exact ihr (fun kv hh => hsub kv (List.mem_cons_of_mem _ hh)) hrest k0 v0 hm0
      exact key kvs (fun _ hh => hh)
    | _ => exact absurd h (DE.diffNode_obj_other_ne o m kvs _ (fun _ e => by cases e) p)

/-- **(⇐) with SetKeys**: `Equals` means an empty diff when no two nodes collide harmfully, no
    object is hashed like a non-object, and identities tell the members of every set of `b` apart -/
theorem diffNode_nil_of_equals_keys (F : FloatEq0) {o : Opts} (hd : dispatchTag o = .set)
    (hp : precOf o = 0) (m : Bool) {SA SB : List Json} (FH : DiffFaithful o SA SB)
    (KH : KindSepH o SA SB) (IB : IdentInj o SB) :
    ∀ a : Json, DocOk a → Within SA a → ∀ b : Json, DocOk b → Within SB b →
      equals o a b = true → ∀ p, diffNode o m a b p = [] := by
  have scalar : ∀ a : Json, (∀ t xs, a ≠ .arr t xs) → (∀ kvs, a ≠ .obj kvs) →
      ∀ b, equals o a b = true → ∀ p, diffNode o m a b p = [] :=
    fun a h1 h2 b h p => (diffNode_scalar_nil_iff hp m a b h1 h2 p).2 h
  have hraw : effTag o .raw = .set := by simp [effTag, hd]
  have hneq : (dispatchTag o == Tag.mset) = false := by rw [hd]; rfl
  intro a
  induction a using jsonInd with
  | void => intro _ _ b _ _ h; exact scalar _ (fun _ _ e => by cases e) (fun _ e => by cases e) b h
  | null => intro _ _ b _ _ h; exact scalar _ (fun _ _ e => by cases e) (fun _ e => by cases e) b h
  | bool x => intro _ _ b _ _ h; exact scalar _ (fun _ _ e => by cases e) (fun _ e => by cases e) b h
  | num x => intro _ _ b _ _ h; exact scalar _ (fun _ _ e => by cases e) (fun _ e => by cases e) b h
  | str x => intro _ _ b _ _ h; exact scalar _ (fun _ _ e => by cases e) (fun _ e => by cases e) b h
  | arr t xs ih =>
    intro da wa b db wb h p
    have ht := da.raw
    subst ht
    by_cases hb : ∃ ys, b.dispatch o = .arr .set ys
    · obtain ⟨ys, hb⟩ := hb
      have hbr : b = .arr .raw ys := by
        rcases dispatch_eq_set hd hb with rfl | rfl
        · rfl
        · exact absurd db.raw (by simp)
      subst hbr
      rw [equals_raw_set hd xs hb, beq_iff_eq] at h
      rw [diffNode_set hd m xs _ ys hb p, equals_set_set, h]
      simp only [beq_self_eq_true, Bool.not_true, Bool.and_false, Bool.false_eq_true, if_false]
      -- the two arrays have the same member hash codes
      have hh : hashCode o (.arr .raw xs) = hashCode o (.arr .raw ys) := by
        simp only [hashCode, hraw]; exact h
      have hok := FH _ wa.self _ wb.self hh
      simp only [pairOK, arrPre, hraw, beq_iff_eq] at hok
      have hext : ∀ c, c ∈ xs.map (hashCode o) ↔ c ∈ ys.map (hashCode o) := by
        intro c
        rw [← hashList_eq_map, ← hashList_eq_map, ← mem_hsort_hdedup c (hashList o xs),
          ← mem_hsort_hdedup c (hashList o ys), hok]
      -- members with the same hash code have the same identity
      have k2 : ∀ x ∈ xs, ∀ y ∈ ys, hashCode o x = hashCode o y → identOf o x = identOf o y := by
        intro x hx y hy e
        have hkind := KH x (wa.elem hx).self y (wb.elem hy).self e
        cases x with
        | obj kvs =>
          cases y with
          | obj kvs' =>
            have hok' := FH _ (wa.elem hx).self _ (wb.elem hy).self e
            simp only [pairOK, hneq, Bool.false_or] at hok'
            exact ident_eq_of_equals F (.inl hd) hp (da.elem hx) (db.elem hy) hok'
          | _ => simp [Json.isObj] at hkind
        | _ =>
          have hx0 := hkind
          simp only [Json.isObj] at hx0
          rw [identOf_nonobj o (by simp [Json.isObj]), identOf_nonobj o hx0.symm, e]
      rw [setBody_nil_iff]
      constructor
      · apply subs_nil_of
        intro kvs kvs' hx hy e q
        obtain ⟨y, hy', ey⟩ := List.mem_map.1 ((hext _).1 (List.mem_map_of_mem (f := hashCode o) hx))
        have e1 : identOf o (.obj kvs) = identOf o y := k2 _ hx y hy' ey.symm
        have e2 : hashCode o y = hashCode o (.obj kvs') :=
          IB.apply wb.self hy' hy (e1.symm.trans e.symm)
        have hok' := FH _ (wa.elem hx).self _ (wb.elem hy).self (ey.symm.trans e2)
        simp only [pairOK, hneq, Bool.false_or] at hok'
        exact ih _ hx (da.elem hx) (wa.elem hx) _ (db.elem hy) (wb.elem hy) hok' q
      · intro c
        simp only [List.mem_map]
        constructor
        · rintro ⟨x, hx, rfl⟩
          obtain ⟨y, hy, ey⟩ := List.mem_map.1 ((hext _).1 (List.mem_map_of_mem (f := hashCode o) hx))
          exact ⟨y, hy, (k2 x hx y hy ey.symm).symm⟩
        · rintro ⟨y, hy, rfl⟩
          obtain ⟨x, hx, ex⟩ := List.mem_map.1 ((hext _).2 (List.mem_map_of_mem (f := hashCode o) hy))
          exact ⟨x, hx, k2 x hx y hy ex⟩
    · rw [equals_raw_set_other hd xs (fun ys e => hb ⟨ys, e⟩)] at h
      cases h
  | obj kvs ih =>
    intro da wa b db wb h p
    cases b with
    | obj kvs' =>
      obtain ⟨h1, h2⟩ := (equals_obj_iff o da.sorted db.sorted).1 h
      have key : ∀ r : List (String × Json), (∀ kv ∈ r, kv ∈ kvs) →
          diffKvs o m p kvs' r = [] := by
        intro r
        induction r with
        | nil => intro _; exact DE.diffKvs_nil o m p kvs'
        | cons kv r ihr =>
          obtain ⟨k, v⟩ := kv
          intro hsub
          have hmem : (k, v) ∈ kvs := hsub _ List.mem_cons_self
          obtain ⟨v', hl, he⟩ := h1 k v hmem
          have hmem' := mem_of_alookup hl
          rw [DE.diffKvs_cons, ihr (fun kv hh => hsub kv (List.mem_cons_of_mem _ hh)), hl]
          simp only [List.append_nil]
          exact ih k v hmem (da.val hmem) (wa.val hmem) v' (db.val hmem') (wb.val hmem') he _
      rw [DE.diffNode_obj_obj, key kvs (fun _ hh => hh), filter_added_nil h2]
      rfl
    | _ => simp [equals] at h

/-- **C05 with SetKeys** (options reading arrays as sets; `keysOf o` arbitrary) -/
theorem diffM_nil_iff_equals_keys (F : FloatEq0) (o : Opts) (hd : dispatchTag o = .set)
    (hp : precOf o = 0) (a b : Json) (ha : a.setDoc = true) (hb : b.setDoc = true)
    (IA : IdentInj o (subterms a)) (IB : IdentInj o (subterms b))
    (KI : KindSepI o (subterms a) (subterms b)) (KH : KindSepH o (subterms a) (subterms b))
    (FH : DiffFaithful o (subterms a) (subterms b)) :
    diffM o a b = [] ↔ equals o a b = true :=
  ⟨equals_of_diffNode_nil_keys F hd hp (isMerge o) IA IB KI a (docOk_of_setDoc ha)
      (within_subterms a) b (docOk_of_setDoc hb) (within_subterms b) [],
   fun h => diffNode_nil_of_equals_keys F hd hp (isMerge o) FH KH IB a (docOk_of_setDoc ha)
      (within_subterms a) b (docOk_of_setDoc hb) (within_subterms b) h []⟩

/-! ## 9. non-vacuity: concrete documents satisfying every hypothesis -/

/-- executable check of `DiffFaithful` -/
def diffFaithfulB (o : Opts) (SA SB : List Json) : Bool :=
  SA.all fun x => SB.all fun y => hashCode o x != hashCode o y || pairOK o x y

theorem diffFaithful_of_check {o : Opts} {SA SB : List Json} (h : diffFaithfulB o SA SB = true) :
    DiffFaithful o SA SB := by
  intro x hx y hy e
  simp only [diffFaithfulB, List.all_eq_true] at h
  have := h x hx y hy
  simpa [e] using this

namespace Example

/-- `{"s":[true,null,{"k":["x","y"]}],"t":"u"}` -/
def exA : Json :=
  .obj [("s", .arr .raw [.bool true, .null, .obj [("k", .arr .raw [.str "x", .str "y"])]]),
        ("t", .str "u")]
/-- `{"s":[{"k":["y","x","y"]},null,true,null],"t":"u"}`: equal to `exA` when arrays are sets -/
def exB : Json :=
  .obj [("s", .arr .raw [.obj [("k", .arr .raw [.str "y", .str "x", .str "y"])], .null, .bool true,
          .null]),
        ("t", .str "u")]
/-- `{"s":[{"k":["y","x"]},null,true],"t":"u"}`: equal to `exA` when arrays are multisets -/
def exC : Json :=
  .obj [("s", .arr .raw [.obj [("k", .arr .raw [.str "y", .str "x"])], .null, .bool true]),
        ("t", .str "u")]
/-- `{"s":[{"k":["y","z"]},null,true],"t":"u"}`: differs from `exA` in either reading -/
def exD : Json :=
  .obj [("s", .arr .raw [.obj [("k", .arr .raw [.str "y", .str "z"])], .null, .bool true]),
        ("t", .str "u")]

theorem ex_docs : exA.rawDoc = true ∧ exA.wf = true ∧ exB.wf = true ∧ exC.wf = true ∧
    exD.wf = true := by decide

theorem ex_faithful_set : DiffFaithful [.set] (subterms exA) (subterms exB) :=
  diffFaithful_of_check (by decide +kernel)
theorem ex_faithful_set_merge : DiffFaithful [.set, .merge] (subterms exA) (subterms exB) :=
  diffFaithful_of_check (by decide +kernel)
theorem ex_faithful_mset : DiffFaithful [.mset] (subterms exA) (subterms exC) :=
  diffFaithful_of_check (by decide +kernel)
theorem ex_faithful_mset_merge : DiffFaithful [.mset, .merge] (subterms exA) (subterms exC) :=
  diffFaithful_of_check (by decide +kernel)
theorem ex_faithful_set_D : DiffFaithful [.set] (subterms exA) (subterms exD) :=
  diffFaithful_of_check (by decide +kernel)

/-- the hypotheses of (⇐) hold and so does its premise: the diff of `exA` and `exB` is empty in the
    SET reading, with either strategy -/
theorem ex_set : equals [.set] exA exB = true ∧ diffM [.set] exA exB = [] ∧
    diffM [.set, .merge] exA exB = [] := by
  have e1 : equals [.set] exA exB = true := by decide +kernel
  have e2 : equals [.set, .merge] exA exB = true := by decide +kernel
  exact ⟨e1,
    diffM_nil_of_equals _ (.inl ⟨rfl, rfl⟩) rfl exA exB ex_docs.1 ex_docs.2.1 ex_docs.2.2.1
      ex_faithful_set e1,
    diffM_nil_of_equals _ (.inl ⟨rfl, rfl⟩) rfl exA exB ex_docs.1 ex_docs.2.1 ex_docs.2.2.1
      ex_faithful_set_merge e2⟩

theorem ex_mset : equals [.mset] exA exC = true ∧ diffM [.mset] exA exC = [] ∧
    diffM [.mset, .merge] exA exC = [] := by
  have e1 : equals [.mset] exA exC = true := by decide +kernel
  have e2 : equals [.mset, .merge] exA exC = true := by decide +kernel
  exact ⟨e1,
    diffM_nil_of_equals _ (.inr rfl) rfl exA exC ex_docs.1 ex_docs.2.1 ex_docs.2.2.2.1
      ex_faithful_mset e1,
    diffM_nil_of_equals _ (.inr rfl) rfl exA exC ex_docs.1 ex_docs.2.1 ex_docs.2.2.2.1
      ex_faithful_mset_merge e2⟩

/-- (⇒) used contrapositively: `exA` and `exB` are not equal as multisets, `exA` and `exD` are not
    equal as sets, so the diffs are not empty -/
theorem ex_ne : diffM [.mset] exA exB ≠ [] ∧ diffM [.set] exA exD ≠ [] ∧
    diffM [.set, .merge] exA exD ≠ [] := by
  refine ⟨fun h => ?_, fun h => ?_, fun h => ?_⟩
  · have := equals_of_diffM_nil _ (.inr rfl) rfl exA exB ex_docs.1 ex_docs.2.1 ex_docs.2.2.1 h
    exact absurd this (by decide +kernel)
  · have := equals_of_diffM_nil _ (.inl ⟨rfl, rfl⟩) rfl exA exD ex_docs.1 ex_docs.2.1
      ex_docs.2.2.2.2 h
    exact absurd this (by decide +kernel)
  · have := equals_of_diffM_nil _ (.inl ⟨rfl, rfl⟩) rfl exA exD ex_docs.1 ex_docs.2.1
      ex_docs.2.2.2.2 h
    exact absurd this (by decide +kernel)

/-- the iff on a pair where both sides are false -/
example : diffM [.set] exA exD = [] ↔ equals [.set] exA exD = true :=
  diffM_nil_iff_equals _ (.inl ⟨rfl, rfl⟩) rfl exA exD ex_docs.1 ex_docs.2.1 ex_docs.2.2.2.2
    ex_faithful_set_D

/-- the version with the hypotheses of `diff_then_patch_set` on the example documents of
    JdProofs.SetDiffPatch (`{"s":[true,null,{"k":null}]}` against
    `{"s":[{"k":null},null,false],"t":null}`) -/
example (F : FloatEq0) :
    diffM [.set] SetDP.Example.exA SetDP.Example.exB = [] ↔
      equals [.set] SetDP.Example.exA SetDP.Example.exB = true :=
  diffM_nil_iff_equals_hashFaithful F _ (.inl ⟨rfl, rfl⟩) rfl _ _ SetDP.Example.ex_docs.1
    SetDP.Example.ex_docs.2.1 SetDP.Example.ex_hashFaithful_set

example (F : FloatEq0) :
    diffM [.mset] SetDP.Example.exA SetDP.Example.exB = [] ↔
      equals [.mset] SetDP.Example.exA SetDP.Example.exB = true :=
  diffM_nil_iff_equals_hashFaithful F _ (.inr rfl) rfl _ _ SetDP.Example.ex_docs.1
    SetDP.Example.ex_docs.2.1 SetDP.Example.ex_hashFaithful_mset

/-! SetKeys -/

theorem identInj_of_check {o : Opts} {S : List Json} (h : S.all (nodeIdentInj o) = true) :
    IdentInj o S := fun n hn => List.all_eq_true.1 h n hn

theorem kindSepI_of_check {o : Opts} {SA SB : List Json}
    (h : (SA.all fun x => SB.all fun y => identOf o x != identOf o y || x.isObj == y.isObj) = true) :
    KindSepI o SA SB := by
  intro x hx y hy e
  simp only [List.all_eq_true] at h
  simpa [e] using h x hx y hy

theorem kindSepH_of_check {o : Opts} {SA SB : List Json}
    (h : (SA.all fun x => SB.all fun y => hashCode o x != hashCode o y || x.isObj == y.isObj) = true) :
    KindSepH o SA SB := by
  intro x hx y hy e
  simp only [List.all_eq_true] at h
  simpa [e] using h x hx y hy

def keysO : Opts := [.setKeys ["id"]]
/-- `[{"id":"k","v":["p","q"]},{"id":"l","v":"y"}]` -/
def kA : Json := .arr .raw [.obj [("id", .str "k"), ("v", .arr .raw [.str "p", .str "q"])],
  .obj [("id", .str "l"), ("v", .str "y")]]
/-- `[{"id":"l","v":"y"},{"id":"k","v":["q","p","p"]}]`: the same set -/
def kB : Json := .arr .raw [.obj [("id", .str "l"), ("v", .str "y")],
  .obj [("id", .str "k"), ("v", .arr .raw [.str "q", .str "p", .str "p"])]]
/-- `[{"id":"l","v":"y"},{"id":"k","v":["q","r"]}]`: the member with identity `k` has changed -/
def kD : Json := .arr .raw [.obj [("id", .str "l"), ("v", .str "y")],
  .obj [("id", .str "k"), ("v", .arr .raw [.str "q", .str "r"])]]

/-- every hypothesis of `diffM_nil_iff_equals_keys` holds for `kA`, `kB` (both sides true) and for
    `kA`, `kD` (both sides false: the object with identity `k` is sub-diffed) -/
theorem ex_keys (F : FloatEq0) :
    (equals keysO kA kB = true ∧ diffM keysO kA kB = []) ∧
    (equals keysO kA kD = false ∧ diffM keysO kA kD ≠ []) := by
  have iAB := diffM_nil_iff_equals_keys F keysO rfl rfl kA kB (by decide) (by decide)
    (identInj_of_check (by decide +kernel)) (identInj_of_check (by decide +kernel))
    (kindSepI_of_check (by decide +kernel)) (kindSepH_of_check (by decide +kernel))
    (diffFaithful_of_check (by decide +kernel))
  have iAD := diffM_nil_iff_equals_keys F keysO rfl rfl kA kD (by decide) (by decide)
    (identInj_of_check (by decide +kernel)) (identInj_of_check (by decide +kernel))
    (kindSepI_of_check (by decide +kernel)) (kindSepH_of_check (by decide +kernel))
    (diffFaithful_of_check (by decide +kernel))
  have e1 : equals keysO kA kB = true := by decide +kernel
  have e2 : equals keysO kA kD = false := by decide +kernel
  exact ⟨⟨e1, iAB.2 e1⟩, ⟨e2, fun h => by rw [iAD.1 h] at e2; cases e2⟩⟩

end Example

/-! ## 10. the hypotheses are needed; where the property is false -/

namespace Witness

/-- one object member on each side, same identity: the set hunk contains their sub-diff -/
theorem setBody_single_obj_ne (o : Opts) (m : Bool) (p : Path) (kvs kvs' : List (String × Json))
    (e : identOf o (.obj kvs') = identOf o (.obj kvs))
    (hne : diffNode o m (.obj kvs) (.obj kvs') (p ++ [newPathSetKeys o kvs]) ≠ []) :
    setBody o m p [.obj kvs] [.obj kvs'] ≠ [] := by
  intro h
  have := ((setBody_nil_iff o m p _ _).1 h).1
  rw [diffSetElems_cons_m, diffSetElems_nil_m] at this
  simp [identLookup, e, ksort, kinsert, subOf] at this
  exact hne this

/-- `[{"a":""}]` -/
def wa : Json := .arr .raw [.obj [("a", .str "")]]
/-- `[{"a":[]}]` -/
def wb : Json := .arr .raw [.obj [("a", .arr .raw [])]]

theorem member_diff_ne (o : Opts) (m : Bool) (p : Path) :
    diffNode o m (.obj [("a", .str "")]) (.obj [("a", .arr .raw [])]) p ≠ [] := by
  rw [DE.diffNode_obj_obj, DE.diffKvs_cons]
  simp only [alookup, if_true]
  rw [DE.diffNode_scalar o m _ _ (fun _ _ e => by cases e) (fun _ e => by cases e)]
  cases m <;> simp [diffCommon, equals]

/-- **(⇐) is FALSE without the no-collision hypothesis, SET reading, both strategies** (a
    consequence of the known finding KF-C04-alias: the empty string and the empty set have the same
    hash code, hence so have `{"a":""}` and `{"a":[]}`): `[{"a":""}]` and `[{"a":[]}]` are `Equals`
    under SET, and their diff is not empty (the two members are matched by hash code and then
    compared member by member). Confirmed on the Go code. -/
theorem alias_breaks_converse :
    wa.rawDoc = true ∧ wa.wf = true ∧ wb.rawDoc = true ∧ wb.wf = true ∧
    equals [.set] wa wb = true ∧ diffM [.set] wa wb ≠ [] ∧
    equals [.set, .merge] wa wb = true ∧ diffM [.set, .merge] wa wb ≠ [] := by
  have key : ∀ o : Opts, dispatchTag o = .set →
      identOf o (.obj [("a", .arr .raw [])]) = identOf o (.obj [("a", .str "")]) →
      equals o (.arr .set [.obj [("a", .str "")]]) (.arr .set [.obj [("a", .arr .raw [])]]) = true →
      diffM o wa wb ≠ [] := by
    intro o hd e he
    unfold diffM wa wb
    rw [diffNode_set hd _ _ _ [.obj [("a", .arr .raw [])]] (by simp [Json.dispatch, hd]), he]
    simp only [Bool.not_true, Bool.and_false, Bool.false_eq_true, if_false]
    exact setBody_single_obj_ne o _ _ _ _ e (member_diff_ne o _ _)
  refine ⟨by decide, by decide, by decide, by decide, by decide +kernel, ?_, by decide +kernel, ?_⟩
  · exact key _ rfl (by decide +kernel) (by decide +kernel)
  · exact key _ rfl (by decide +kernel) (by decide +kernel)

/-- the pair violates `DiffFaithful` (as it must) -/
theorem alias_not_faithful : ¬ DiffFaithful [.set] (subterms wa) (subterms wb) := fun FH =>
  alias_breaks_converse.2.2.2.2.2.1
    (diffM_nil_of_equals _ (.inl ⟨rfl, rfl⟩) rfl wa wb (by decide) (by decide) (by decide) FH
      alias_breaks_converse.2.2.2.2.1)

/-- in the MULTISET reading the same pair is harmless: the multiset diff never looks inside a member,
    `DiffFaithful` holds, the documents are `Equals` and the diff is empty -/
theorem alias_mset_consistent :
    DiffFaithful [.mset] (subterms wa) (subterms wb) ∧ equals [.mset] wa wb = true ∧
      diffM [.mset] wa wb = [] := by
  have FH : DiffFaithful [.mset] (subterms wa) (subterms wb) :=
    diffFaithful_of_check (by decide +kernel)
  have e : equals [.mset] wa wb = true := by decide +kernel
  exact ⟨FH, e,
    diffM_nil_of_equals _ (.inr rfl) rfl wa wb (by decide) (by decide) (by decide) FH e⟩

/-- `["aedb68afb","b7cdeb749"]` -/
def ca : Json := .arr .raw [.str "aedb68afb", .str "b7cdeb749"]
/-- `["a568b3ad2","b76a57d20"]` -/
def cb : Json := .arr .raw [.str "a568b3ad2", .str "b76a57d20"]

/-- **(⇐) is FALSE outright, SET and MULTISET readings, both strategies — no alias involved**: a
    genuine FNV-1a 64 collision. The four strings have four different hash codes, but the two
    16-byte strings "sorted hash codes of the members" of `ca` and of `cb` have the same FNV-1a hash
    code, so `ca` and `cb` (arrays of strings, no member in common) are `Equals` under SET and under
    MULTISET, while their diff removes two members and adds two. (Found by a parallel collision
    search, about 2³² evaluations; confirmed on the Go code: `Equals` returns true, `Diff` has one
    hunk.) This is why `DiffFaithful` has a clause for array nodes. -/
theorem fnv_collision_breaks_converse :
    ca.rawDoc = true ∧ ca.wf = true ∧ cb.rawDoc = true ∧ cb.wf = true ∧
    (∀ o ∈ setOptions, equals o ca cb = true ∧ diffM o ca cb ≠ []) := by
  have kset : ∀ o : Opts, dispatchTag o = .set →
      equals o (.arr .set [.str "aedb68afb", .str "b7cdeb749"])
        (.arr .set [.str "a568b3ad2", .str "b76a57d20"]) = true →
      identOf o (.str "aedb68afb") ∉ [identOf o (.str "a568b3ad2"), identOf o (.str "b76a57d20")] →
      diffM o ca cb ≠ [] := by
    intro o hd he hn h
    unfold diffM ca cb at h
    rw [diffNode_set hd _ _ _ [.str "a568b3ad2", .str "b76a57d20"] (by simp [Json.dispatch, hd]),
      he] at h
    simp only [Bool.not_true, Bool.and_false, Bool.false_eq_true, if_false] at h
    exact hn (((setBody_nil_iff _ _ _ _ _).1 h).2 _ |>.1 List.mem_cons_self)
  have kmset : ∀ o : Opts, dispatchTag o = .mset →
      equals o (.arr .mset [.str "aedb68afb", .str "b7cdeb749"])
        (.arr .mset [.str "a568b3ad2", .str "b76a57d20"]) = true →
      hashCode o (.str "aedb68afb") ∉ hashList o [.str "a568b3ad2", .str "b76a57d20"] →
      diffM o ca cb ≠ [] := by
    intro o hd he hn h
    unfold diffM ca cb at h
    rw [diffNode_mset hd _ _ _ [.str "a568b3ad2", .str "b76a57d20"] (by simp [Json.dispatch, hd]),
      he] at h
    simp only [Bool.not_true, Bool.and_false, Bool.false_eq_true, if_false] at h
    exact hn (((msetBody_nil_iff _ _ _ _).1 h).subset (by simp [hashList]))
  refine ⟨by decide, by decide, by decide, by decide, ?_⟩
  intro o ho
  simp only [setOptions, List.mem_cons, List.not_mem_nil, or_false] at ho
  rcases ho with rfl | rfl | rfl | rfl
  · exact ⟨by decide +kernel, kset _ rfl (by decide +kernel) (by decide +kernel)⟩
  · exact ⟨by decide +kernel, kmset _ rfl (by decide +kernel) (by decide +kernel)⟩
  · exact ⟨by decide +kernel, kset _ rfl (by decide +kernel) (by decide +kernel)⟩
  · exact ⟨by decide +kernel, kmset _ rfl (by decide +kernel) (by decide +kernel)⟩

/-- no alias: the four members have four different hash codes, none of them shared -/
theorem fnv_collision_members_distinct :
    (hashList [.set] [.str "aedb68afb", .str "b7cdeb749", .str "a568b3ad2", .str "b76a57d20"]).Nodup := by
  decide +kernel

/-- why `rawDoc` on the left: a `jsonSet`-typed node against a plain array is `Equals` but the diff
    replaces it wholesale (model only: a `jsonSet` exists in Go only as the result of `dispatch`,
    and `jsonArray.diff` dispatches both sides) -/
theorem typed_set_left_is_excluded (m : Bool) :
    equals [.set] (.arr .set []) (.arr .raw []) = true ∧
      diffNode [.set] m (.arr .set []) (.arr .raw []) [] ≠ [] := by
  refine ⟨by decide +kernel, ?_⟩
  rw [diffNode.eq_def]
  cases m <;> simp [effTag, Json.nodeList, Json.isVoid]

/-! ### SetKeys: both directions are FALSE when two members of one set have the same identity
  (defect class KF-C01-identperm); confirmed on the Go code -/

abbrev ox : Json := .obj [("id", .str "k"), ("v", .str "x")]
abbrev oy : Json := .obj [("id", .str "k"), ("v", .str "y")]
/-- `[{"id":"k","v":"x"},{"id":"k","v":"y"}]` -/
def ka : Json := .arr .raw [ox, oy]
/-- `[{"id":"k","v":"y"}]` -/
def kb : Json := .arr .raw [oy]
/-- `[{"id":"k","v":"y"},{"id":"k","v":"x"}]`: the members of `ka` in the other order -/
def kc : Json := .arr .raw [oy, ox]
def ko : Opts := [.setKeys ["id"]]

theorem ident_xy : identOf ko ox = identOf ko oy := by decide +kernel

theorem diff_str_self {o : Opts} (hp : precOf o = 0) (m : Bool) (s : String) (p : Path) :
    diffNode o m (.str s) (.str s) p = [] :=
  (diffNode_scalar_nil_iff hp m _ _ (fun _ _ e => by cases e) (fun _ e => by cases e)
    p).2 (by simp [equals])

theorem diff_str_ne {o : Opts} (hp : precOf o = 0) (m : Bool) {s t : String} (h : s ≠ t)
    (p : Path) : diffNode o m (.str s) (.str t) p ≠ [] := fun e =>
  h (by simpa [equals] using (diffNode_scalar_nil_iff hp m _ _
    (fun _ _ e => by cases e) (fun _ e => by cases e) p).1 e)

theorem ko_prec : precOf ko = 0 := rfl

theorem diff_oy_oy (m : Bool) (p : Path) : diffNode ko m oy oy p = [] := by
  unfold oy
  rw [DE.diffNode_obj_obj, DE.diffKvs_cons, DE.diffKvs_cons, DE.diffKvs_nil]
  simp [alookup, diff_str_self ko_prec]

theorem diff_oy_ox (m : Bool) (p : Path) : diffNode ko m oy ox p ≠ [] := by
  intro h
  unfold oy ox at h
  rw [DE.diffNode_obj_obj, DE.diffKvs_cons, DE.diffKvs_cons, DE.diffKvs_nil] at h
  simp [alookup, diff_str_self ko_prec] at h
  exact diff_str_ne ko_prec m (by decide) _ h

/-- **(⇒) is FALSE under SetKeys**: `ka` has two members with the same key value; only the last one
    is compared; the diff against `kb` is empty although the documents are not `Equals` -/
theorem setkeys_forward_fails :
    ka.setDoc = true ∧ kb.setDoc = true ∧ equals ko ka kb = false ∧ diffM ko ka kb = [] := by
  refine ⟨by decide, by decide, by decide +kernel, ?_⟩
  unfold diffM ka kb
  rw [diffNode_set (o := ko) rfl _ _ _ [oy] rfl]
  simp only [show isMerge ko = false from rfl, Bool.false_and, Bool.false_eq_true, if_false]
  rw [setBody_nil_iff]
  constructor
  · rw [diffSetElems_cons_m, diffSetElems_cons_m, diffSetElems_nil_m]
    simp [ident_xy, identLookup, ksort, kinsert, subOf, diff_oy_oy]
  · intro h
    simp [ident_xy]

/-- **(⇐) is FALSE under SetKeys**, without any hash collision: `ka` and `kc` have the same
    members, they are `Equals`, but the diff compares the LAST member of each side bearing the
    shared identity, `oy` against `ox`, and is not empty -/
theorem setkeys_converse_fails :
    ka.setDoc = true ∧ kc.setDoc = true ∧ equals ko ka kc = true ∧ diffM ko ka kc ≠ [] := by
  refine ⟨by decide, by decide, by decide +kernel, ?_⟩
  intro h
  unfold diffM ka kc at h
  rw [diffNode_set (o := ko) rfl _ _ _ [oy, ox] rfl] at h
  simp only [show isMerge ko = false from rfl, Bool.false_and, Bool.false_eq_true, if_false] at h
  have hs := ((setBody_nil_iff _ _ _ _ _).1 h).1
  rw [diffSetElems_cons_m, diffSetElems_cons_m, diffSetElems_nil_m] at hs
  simp [ident_xy, identLookup, ksort, kinsert, subOf] at hs
  exact diff_oy_ox _ _ hs

/-- the two pairs are outside the domain of the SetKeys theorems: identities do not tell the
    members of `ka` apart -/
theorem ka_not_identInj : ¬ IdentInj ko (subterms ka) := fun h =>
  absurd (h ka (mem_subterms_self ka)) (by decide +kernel)

/-- why `wf` (unique keys, the invariant standing for Go maps): with a duplicated key the model's
    `Equals` compares the numbers of bindings, the diff does not (not reachable in Go) -/
theorem dup_keys_excluded :
    equals [.set] (.obj [("a", .str "x"), ("a", .str "x")]) (.obj [("a", .str "x")]) = false ∧
      diffM [.set] (.obj [("a", .str "x"), ("a", .str "x")]) (.obj [("a", .str "x")]) = [] := by
  refine ⟨by decide +kernel, ?_⟩
  unfold diffM
  rw [DE.diffNode_obj_obj, DE.diffKvs_cons, DE.diffKvs_cons, DE.diffKvs_nil]
  simp [alookup, diff_str_self (o := [.set]) rfl]

end Witness

end Jd.DES

-- the witnesses, evaluated
#eval (Jd.equals [.set] Jd.DES.Witness.wa Jd.DES.Witness.wb,
  Jd.diffM [.set] Jd.DES.Witness.wa Jd.DES.Witness.wb)
#eval (Jd.equals [.mset] Jd.DES.Witness.ca Jd.DES.Witness.cb,
  Jd.diffM [.mset] Jd.DES.Witness.ca Jd.DES.Witness.cb)
#eval (Jd.equals Jd.DES.Witness.ko Jd.DES.Witness.ka Jd.DES.Witness.kb,
  Jd.diffM Jd.DES.Witness.ko Jd.DES.Witness.ka Jd.DES.Witness.kb)
#eval (Jd.equals Jd.DES.Witness.ko Jd.DES.Witness.ka Jd.DES.Witness.kc,
  Jd.diffM Jd.DES.Witness.ko Jd.DES.Witness.ka Jd.DES.Witness.kc)

/-! ## axioms -/
#print axioms Jd.DES.equals_of_diffNode_nil
#print axioms Jd.DES.diffNode_nil_of_equals
#print axioms Jd.DES.equals_of_diffM_nil
#print axioms Jd.DES.diffM_nil_of_equals
#print axioms Jd.DES.diffM_nil_iff_equals
#print axioms Jd.DES.c05_setmodes
#print axioms Jd.DES.diffFaithful_of_hashFaithful
#print axioms Jd.DES.diffM_nil_iff_equals_hashFaithful
#print axioms Jd.DES.Example.ex_set
#print axioms Jd.DES.Example.ex_mset
#print axioms Jd.DES.Example.ex_ne
#print axioms Jd.DES.Witness.alias_breaks_converse
#print axioms Jd.DES.Witness.alias_not_faithful
#print axioms Jd.DES.Witness.fnv_collision_breaks_converse
#print axioms Jd.DES.Witness.fnv_collision_members_distinct
#print axioms Jd.DES.Witness.alias_mset_consistent
#print axioms Jd.DES.Witness.typed_set_left_is_excluded
#print axioms Jd.DES.equals_of_diffNode_nil_keys
#print axioms Jd.DES.diffNode_nil_of_equals_keys
#print axioms Jd.DES.diffM_nil_iff_equals_keys
#print axioms Jd.DES.Example.ex_keys
#print axioms Jd.DES.Witness.setkeys_forward_fails
#print axioms Jd.DES.Witness.setkeys_converse_fails
#print axioms Jd.DES.Witness.ka_not_identInj
#print axioms Jd.DES.Witness.dup_keys_excluded
