import JdModel.Basic
import JdModel.Hash
import JdModel.Equals
import JdModel.Lcs
import JdModel.Diff
import JdModel.Patch
