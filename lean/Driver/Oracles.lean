/-
  Driver.Oracles — spec oracles evaluated on the implementation's own outputs, and the class
  predicates of the known findings (the negated preconditions of the `_partial` theorems).
-/
import Driver.Wire
import JdSpec

namespace Jd.Driver
open Jd Jd.Wire Jd.Spec

mutual
partial def subterms : Json → List Json
  | .arr t xs => .arr t xs :: xs.flatMap subterms
  | .obj kvs => .obj kvs :: kvs.flatMap (fun kv => subterms kv.2)
  | n => [n]
end

partial def hasNull : Json → Bool
  | .null => true
  | .arr _ xs => xs.any hasNull
  | .obj kvs => kvs.any (fun kv => hasNull kv.2)
  | _ => false

partial def hasNegZero : Json → Bool
  | .num b => b == 0x8000000000000000
  | .arr _ xs => xs.any hasNegZero
  | .obj kvs => kvs.any (fun kv => hasNegZero kv.2)
  | _ => false

/-- the nodes of a document whose HASH CODES the library looks at: every array (sets and multisets are compared
    by hash; the list diff hashes its elements) and every direct element of an array. A value below an object key
    or the root that is neither is compared structurally: an alias between such values (`{"k":""}` vs `{"k":[]}`)
    explains nothing and does not make a failure a known finding. -/
partial def hashedNodes : Json → List Json
  | .arr t xs => .arr t xs :: xs ++ xs.flatMap hashedNodes
  | .obj kvs => kvs.flatMap (fun kv => hashedNodes kv.2)
  | _ => []

/-- `AliasFree`: among the given nodes, equal hash codes (and equal identities) imply equivalence.
    Its negation is the class predicate of KF-C04-alias (hash pre-images not domain-separated). -/
def aliasFree (o : Opts) (nodes : List Json) : Bool :=
  let hs := nodes.map (fun n => (hashCode o n, identOf o n, n))
  hs.all (fun x => hs.all (fun y =>
    (x.1 != y.1 || equivB o x.2.2 y.2.2) &&
    (x.2.1 != y.2.1 || !(x.2.2.isObj == y.2.2.isObj) || x.2.2.isObj || equivB o x.2.2 y.2.2)))

def setMode (o : Opts) : Bool := dispatchTag o != .list

/-- class of KF-C01-identperm: under SetKeys with several keys the identity of an object combines the
    hash codes of its key values SORTED, so two members whose key values are permutations of each
    other across the keys share an identity although their key tuples differ -/
def identPerm (o : Opts) (nodes : List Json) : Bool :=
  match keysOf o with
  | none => false
  | some ks =>
    let proj (kvs : List (String × Json)) : Json := .obj (kvs.filter (fun kv => ks.contains kv.1))
    let objs := nodes.filterMap (fun n => match n with | .obj kvs => some kvs | _ => none)
    objs.any (fun x => objs.any (fun y =>
      identObj o x == identObj o y && !(equivB o (proj x) (proj y))))

/-- class of KF-C01-keytwin (v2): some array holds two object members with DIFFERENT identities whose
    path objects coincide — one lacks a set key for which the other holds null (`newPathSetKeys` writes
    null for an absent key), so a hunk addressed to one of them can land in the other -/
def keyTwin (o : Opts) (nodes : List Json) : Bool :=
  match keysOf o with
  | none => false
  | some _ =>
    let pathObj (kvs : List (String × Json)) : Json :=
      match newPathSetKeys o kvs with
      | .setKeys po => .obj po
      | _ => .obj kvs
    nodes.any (fun n => match n with
      | .arr _ xs =>
        let objs := xs.filterMap (fun n => match n with | .obj kvs => some kvs | _ => none)
        objs.any (fun x => objs.any (fun y =>
          identObj o x != identObj o y && equivB o (pathObj x) (pathObj y)))
      | _ => false)

/-- the ACTIVE part of the class KF-C01-keytwin for diff-then-patch: a twin pair exists AND one of its members
    that lacks a set key (the one whose path object is completed with null) has an identity-mate with other
    content somewhere in the two documents — only then is a hunk addressed THROUGH a null-completed path object.
    When every member lacking a key is unchanged, all keyed paths carry explicit key values, the exact pass of the
    lookup finds the member the hunk was made for, and a failure is not an instance of the known finding. -/
def keyTwinActive (o : Opts) (nodes : List Json) : Bool :=
  match keysOf o with
  | none => false
  | some ks =>
    let pathObj (kvs : List (String × Json)) : Json :=
      match newPathSetKeys o kvs with
      | .setKeys po => .obj po
      | _ => .obj kvs
    let members : List (List (String × Json)) := nodes.flatMap (fun n => match n with
      | .arr _ xs => xs.filterMap (fun n => match n with | .obj kvs => some kvs | _ => none)
      | _ => [])
    let partialKey (kvs : List (String × Json)) : Bool := ks.any (fun k => (alookup k kvs).isNone)
    let changes (z : List (String × Json)) : Bool :=
      members.any (fun z' => identObj o z' == identObj o z && !(specEq (.obj z') (.obj z)))
    nodes.any (fun n => match n with
      | .arr _ xs =>
        let objs := xs.filterMap (fun n => match n with | .obj kvs => some kvs | _ => none)
        objs.any (fun x => objs.any (fun y =>
          identObj o x != identObj o y && equivB o (pathObj x) (pathObj y) &&
          ((partialKey x && changes x) || (partialKey y && changes y))))
      | _ => false)

/-- C01 oracle on the implementation's outputs: the patch succeeded and its result is equivalent
    to `b` (model `equals` and the hash-free spec `equivB`). `implEq` is the implementation's own
    verdict `r.Equals(b, opts)`. -/
def oracleC01 (o : Opts) (a b : Json) (implEq : Bool) (out : Outcome Json) : String :=
  let bad (why : String) : String :=
    if keyTwinActive o (subterms a ++ subterms b) then "kf KF-C01-keytwin " ++ why
    else if identPerm o (subterms a ++ subterms b) then "kf KF-C01-identperm " ++ why
    else if !(aliasFree o (hashedNodes a ++ hashedNodes b)) then
      -- (a hash alias explains a failure only when the model of the unchanged code fails in the same way)
      let asModelled : Bool := match out, patchAll true a (diffM o a b) with
        | .ok r, .ok r' => specEq (untag r) (untag r')
        | .err, .err => true
        | _, _ => false
      if asModelled then "kf KF-C04-alias " ++ why else "fail " ++ why ++ " (and the model of the unchanged code behaves differently)"
    else "fail " ++ why
  match out with
  | .ok r =>
    if !implEq then bad "implementation: patched document does not Equal b"
    else if !(equals o r b) then bad "model equals: patched document differs from b"
    else if !(equivB o r b) then bad "spec Equiv: patched document is not equivalent to b"
    else "ok"
  | .err => bad "Patch returned an error on the library's own diff"
  | .panic => "fail Patch panicked"

end Jd.Driver

namespace Jd.Driver
open Jd Jd.Wire Jd.Spec

def hasPrecisionPair (o : Opts) (a b : Json) : Bool :=
  precOf o != 0 &&
    (subterms a).any (fun x => (subterms b).any (fun y =>
      match x, y with
      | .num p, .num q => p != q && numWithin (precOf o) p q
      | _, _ => false))

/-- C04: the implementation's verdict against the hash-free spec -/
def oracleC04 (o : Opts) (a b : Json) (implEq implEqRev implRefl : Bool) : String :=
  let spec := equivB o a b
  let cls (why : String) : String :=
    if keyTwin o (subterms a ++ subterms b) then "kf KF-C01-keytwin " ++ why
    else if identPerm o (subterms a ++ subterms b) then "kf KF-C01-identperm " ++ why
    -- KF-C04-setprecision: in the set readings arrays are compared by hash codes, which ignore the precision: numbers
    -- within eps INSIDE arrays are not Equal although the advertised equivalence holds (one-directional: Equals says no)
    else if setMode o && hasPrecisionPair o a b && spec && !implEq then "kf KF-C04-setprecision " ++ why
    else if setMode o && (hasNegZero a || hasNegZero b) && equivB o a b && !implEq then "kf KF-C04-negzero " ++ why
    else if !(aliasFree o (hashedNodes a ++ hashedNodes b)) then "kf KF-C04-alias " ++ why
    else "fail " ++ why
  -- a deviation is an instance of a KNOWN finding only when the model of the unchanged code deviates in the same way
  let cls' (why : String) : String :=
    if implEq != equals o a b || implEqRev != equals o b a || implRefl != equals o a a then "fail " ++ why ++ " (and the model of the unchanged code answers differently)"
    else cls why
  if implEq != spec then cls' s!"Equals={implEq} but the advertised equivalence says {spec}"
  else if implEq != implEqRev then cls' "Equals is not symmetric on this pair"
  else if !implRefl then cls' "Equals(a,a) is false"
  else "ok"

/-- C05: empty diff ⇔ Equals -/
def oracleC05 (o : Opts) (a b : Json) (diffEmpty implEq : Bool) : String :=
  if diffEmpty == implEq then "ok"
  else
    let why := s!"diff empty={diffEmpty} but Equals={implEq}"
    -- (a known finding only when the model of the unchanged code deviates in the same way)
    if diffEmpty != (diffM o a b).isEmpty || implEq != equals o a b then "fail " ++ why ++ " (and the model of the unchanged code answers differently)"
    else if keyTwin o (subterms a ++ subterms b) then "kf KF-C01-keytwin " ++ why
    else if identPerm o (subterms a ++ subterms b) then "kf KF-C01-identperm " ++ why
    -- KF-C05-precision is "Equal under the precision, yet a non-empty diff"; the opposite deviation is not in it
    else if hasPrecisionPair o a b && implEq && !diffEmpty then "kf KF-C05-precision " ++ why
    else if (hasNegZero a || hasNegZero b) then "kf KF-C05-negzero " ++ why
    else if !(aliasFree o (hashedNodes a ++ hashedNodes b)) then "kf KF-C04-alias " ++ why
    else "fail " ++ why

def strictListPath (p : Path) : Bool :=
  p.all (fun e => match e with | .key _ | .idx _ => true | _ => false)

def compareRef (eqv : Json → Json → Bool) (impl : Outcome Json) (ref : Option Json) : String :=
  match impl, ref with
  | .ok r, some r' => if eqv r r' then "ok" else "fail applied, but the result differs from what the hunks say"
  | .ok _, none => "fail applied although an expectation encoded in the hunks does not hold"
  | .err, some _ => "fail rejected although every expectation holds"
  | .err, none => "ok"
  | .panic, _ => "fail panic"

/-- C03: strict list-mode hunks against the reference interpreter -/
def oracleC03 (c : Json) (d : Diff) (impl : Outcome Json) : String :=
  if !(d.all (fun h => !h.merge && strictListPath h.path)) then "ok skipped-not-strict-list"
  else compareRef specEq impl (applyStrictAll c d)

/-- some element of the list has an equivalent later in the list -/
def dupUnder (eqv : Json → Json → Bool) : List Json → Bool
  | [] => false
  | x :: r => r.any (eqv x) || dupUnder eqv r

/-- C08: set / bag / keyed hunks against the reference semantics -/
def oracleC08 (c : Json) (d : Diff) (impl : Outcome Json) : String :=
  if d.any (·.merge) then "ok skipped-merge" else
  let o : Opts := if d.any (fun h => h.path.any (fun e => match e with | .mset | .msetKeys _ => true | _ => false)) then [.mset] else [.set]
  let res := compareRef (equivB o) impl (applyRefAll c d)
  if res == "ok" then res
  else if (match impl with | .panic => true | _ => false) then res   -- a panic belongs to no known-finding class
  -- a SET hunk that lists one element twice under `-` is malformed; the property does not say whether
  -- the second removal finds the element "absent" (the code rejects: SetPatch `duplicate removals
  -- rejected`) or whether the list is read as a set (the reference): a rejection is accepted
  else if (match impl with | .err => true | _ => false) &&
      d.any (fun h => (match h.path.getLast? with | some .set => true | _ => false) &&
        dupUnder (equivB [.set]) h.remove) then "ok dup-set-removal-rejected"
  else
    -- class of KF-C08-swallow: the code reports success although a keyed member's nested patch failed
    let nodes := subterms c ++ d.flatMap (fun h => (h.remove ++ h.add).flatMap subterms)
    let hnodes := hashedNodes c ++ d.flatMap (fun h => (h.remove ++ h.add) ++ (h.remove ++ h.add).flatMap hashedNodes)
    let ks : List String := (d.flatMap (fun h => h.path.flatMap (fun e => match e with
      | .setKeys po => po.map (·.1) | _ => []))).eraseDups
    -- a deviation from the reference is an instance of a KNOWN finding only when the model of the unchanged code
    -- (patchAll true) deviates in the same way: an implementation that differs from that model as well is judged
    -- by the reference alone (a seeded change that swapped the two passes of the keyed lookup hid behind the class)
    let asModelled : Bool := match impl, patchAll true c d with
      | .ok r, .ok r' => specEq (untag r) (untag r')
      | .err, .err => true
      | _, _ => false
    if !asModelled then res else
    if !ks.isEmpty && keyTwin [.set, .setKeys ks] nodes then "kf KF-C01-keytwin " ++ res else
    match patchAll true c d, patchAll false c d with
    | .ok _, .err => "kf KF-C08-swallow " ++ res
    | _, _ =>
      if !(aliasFree o hnodes) then "kf KF-C04-alias " ++ res
      else if nodes.any hasNegZero then "kf KF-C04-negzero " ++ res
      else res

/-- length of a longest common subsequence, by the textbook recursion (spec; exponential, small inputs) -/
partial def lcsLenSpec (eqv : Json → Json → Bool) : List Json → List Json → Nat
  | [], _ => 0
  | _, [] => 0
  | x :: xs, y :: ys =>
    if eqv x y then 1 + lcsLenSpec eqv xs ys
    else max (lcsLenSpec eqv xs (y :: ys)) (lcsLenSpec eqv (x :: xs) ys)

def isScalar : Json → Bool
  | .arr _ _ | .obj _ => false
  | _ => true

/-- C06 on a pair of arrays `a b` (the harness strips wrappers: `pre` path elements are dropped) -/
def oracleC06 (pre : Nat) (a b : Json) (d0 : Diff) : String :=
  let d := d0.map (fun h => { h with path := h.path.drop pre })
  match a, b with
  | .arr _ xs, .arr _ ys =>
    let top := d.filter (fun h => h.path.length == 1)
    if !(d.all (fun h => match h.path.getLast? with
          | some (.idx _) => h.before.length == 1 && h.after.length == 1
          | _ => true)) then "fail a list hunk does not carry exactly one line of before and after context"
    else match applyStrictAll a d with
      | none => "fail context or removed values do not match the neighbouring elements (reference interpreter rejects the diff on a)"
      | some r =>
        if !(specEq r b) then "fail reference interpreter does not reach b"
        else if xs.all isScalar && ys.all isScalar then
          let L := lcsLenSpec specEq xs ys
          let rm := (top.map (·.remove.length)).foldl (· + ·) 0
          let ad := (top.map (·.add.length)).foldl (· + ·) 0
          if rm != xs.length - L || ad != ys.length - L then
            s!"fail not minimal: removes {rm} adds {ad}, LCS length {L}, |a|={xs.length} |b|={ys.length}"
          else "ok"
        else
          if d.any (fun h => (h.remove.zip h.add).any (fun p => sameContainerType [] p.1 p.2)) then
            "fail a hunk replaces a container by a container of the same kind at the same position instead of recursing"
          else
            -- removes + recursions = |a| - L where containers of the same kind may pair up
            "ok"
  | _, _ => "ok skipped-not-arrays"

/-- navigate by keys and indices (and keyed members) to the node a path addresses -/
partial def getAt (o : Opts) (n : Json) : Path → Option Json
  | [] => some n
  | .key k :: r => match n with
    | .obj kvs => (alookup k kvs).bind (getAt o · r)
    | _ => none
  | .idx i :: r => match n with
    | .arr _ xs => if i < 0 then none else (xs[i.toNat]?).bind (getAt o · r)
    | _ => none
  | .setKeys po :: r => match n with
    | .arr _ xs =>
      match xs.filter (keyedMembers xs po) with
      | m :: _ => getAt o m r
      | [] => none
    | _ => none
  | _ => none

/-- C07: per-hunk facts and leave-one-out results (computed by the implementation) -/
def oracleC07 (o : Opts) (a b : Json) (d : Diff) (loo : List (Outcome Json)) : String :=
  let cls (why : String) : String :=
    if keyTwin o (subterms a ++ subterms b) then "kf KF-C01-keytwin " ++ why
    else if identPerm o (subterms a ++ subterms b) then "kf KF-C01-identperm " ++ why
    else if !(aliasFree o (hashedNodes a ++ hashedNodes b)) then "kf KF-C04-alias " ++ why
    else if hasNegZero a || hasNegZero b then "kf KF-C05-negzero " ++ why
    else if hasPrecisionPair o a b then "kf KF-C05-precision " ++ why
    else "fail " ++ why
  -- the LOCATION clause is structural (the reference interpreter compares without the precision): that Diff ignores the
  -- precision (KF-C05-precision) never explains a hunk that names values which are not where it says they are
  let clsLoc (why : String) : String :=
    if keyTwin o (subterms a ++ subterms b) then "kf KF-C01-keytwin " ++ why
    else if identPerm o (subterms a ++ subterms b) then "kf KF-C01-identperm " ++ why
    else if !(aliasFree o (hashedNodes a ++ hashedNodes b)) then "kf KF-C04-alias " ++ why
    else if hasNegZero a || hasNegZero b then "kf KF-C05-negzero " ++ why
    else "fail " ++ why
  -- (ii) what a hunk removes differs from what it adds
  if d.any (fun h => !h.merge && h.remove.length == h.add.length && equivList o h.remove h.add && !h.remove.isEmpty) then
    cls "a hunk removes exactly what it adds (no-op hunk)"
  else if d.any (fun h => match h.path.getLast? with
      | some .set | some .mset => h.remove.any (fun r => memEq o r h.add)
      | _ => false) then
    cls "a set/multiset hunk removes an element and adds an equivalent one"
  else if d.any (fun h => h.remove.isEmpty && (h.add.isEmpty || (!h.merge && h.add.all Json.isVoid))) then
    cls "a hunk neither removes nor adds anything"
  -- (i) set / multiset hunks: removed members are in a, added members are in b at the addressed array
  else if d.any (fun h => match h.path.getLast? with
      | some .set | some .mset =>
        let par := h.path.dropLast
        (match getAt o a par with
         | some (.arr _ xs) => !(h.remove.all (fun r => memEq o r xs))
         | _ => !h.remove.isEmpty) ||
        (match getAt o b par with
         | some (.arr _ ys) => !(h.add.all (fun r => memEq o r ys))
         | _ => !h.add.isEmpty)
      | _ => false) then
    cls "a set/multiset hunk removes a value not present in a or adds a value not present in b"
  -- (i) object-member hunks: the removed value is a's member, the added value is b's member
  else if d.any (fun h => !h.merge && (match h.path.getLast? with
      | some (.key _) =>
        (match h.remove with
         | [r] => !(h.path.any (fun e => match e with | .idx _ => true | _ => false)) &&
                  (match getAt o a h.path with | some v => !(equivB o v r) && !(specEq v r) | none => true)
         | _ => false) ||
        (match h.add with
         | [w] => !w.isVoid && (match getAt o b h.path with | some v => !(equivB o v w) && !(specEq v w) | none => true)
         | _ => false)
      | _ => false)) then
    cls "an object-member hunk removes a value that is not a's or adds a value that is not b's"
  -- (i) list reading: every hunk names values (and context) present at the addressed location of the
  --     document the preceding hunks produce (the coordinates the diff format defines)
  else if dispatchTag o == .list && !(isMerge o) &&
      (d.foldl (fun (st : Option Json) h => st.bind (fun n => applyStrict n h.path h)) (some a)).isNone &&
      d.all (fun h => h.path.all (fun e => match e with | .key _ | .idx _ => true | _ => false)) then
    clsLoc "a hunk removes values, or names context, not present at the addressed location (after the preceding hunks)"
  -- (iv) no redundant hunk
  else match (loo.zipIdx.find? (fun (out, _) => match out with
      | .ok r => equivB o r b && equals o r b
      | _ => false)) with
    | some (_, j) => cls s!"hunk {j} is redundant: without it the remaining hunks still turn a into b"
    | none => "ok"

end Jd.Driver

namespace Jd.Driver
open Jd Jd.Wire Jd.Spec

/-- can this diff be expressed with JSON Pointers at all (C09 refusal clause)? -/
def expressible (d : Diff) : Bool :=
  d.all (fun h => h.path.all (fun e => match e with
    | .key k => (atoi? k).isNone && k != "-"
    | .idx _ => true
    | _ => false))

/-- C09: the implementation's JSON Patch text evaluated by the independent RFC 6902 evaluator -/
def oracleC09 (nc : NumCodec) (a b : Json) (d : Diff) (implText : Outcome String)
    (targets : List (Json × Outcome Json)) : String :=
  match implText with
  | .panic => "fail RenderPatch panicked"
  | .err =>
    if expressible d then "fail RenderPatch refused a diff whose paths are expressible as JSON Pointers"
    else "ok refused-inexpressible"
  | .ok text =>
    match parseJson nc text with
    | none => "fail the rendered JSON Patch is not valid JSON"
    | some doc =>
      match opsOfJson doc with
      | none => "fail the rendered JSON Patch is not a well-formed RFC 6902 document"
      | some ops =>
        if !(ops.all (fun o => o.op == "test" || o.op == "remove" || o.op == "add")) then
          "fail unexpected operation in the rendered patch"
        else
          -- KF-C04-alias in the list reading: the LCS matches elements by hash code, so an alias pair ("AAAAAAAA" and the
          -- number with that bit pattern) makes Diff emit hunks that do not describe a -> b; the known finding explains a
          -- failure only when the diff is the one the model of the unchanged code produces
          let aliasKF : Bool := !(aliasFree [] (hashedNodes a ++ hashedNodes b)) && encDiff d == encDiff (diffM [] a b)
          match eval a ops with
          | none =>
            if aliasKF then "kf KF-C04-alias RFC 6902 evaluation of the rendered patch on a fails" else
            (if expressible d then "fail" else "fail (inexpressible path mistranslated)") ++
              " RFC 6902 evaluation of the rendered patch on a fails"
          | some r =>
            if !(specEq r b) then
              (if aliasKF then "kf KF-C04-alias RFC 6902 evaluation of the rendered patch on a does not yield b"
               else "fail RFC 6902 evaluation of the rendered patch on a does not yield b")
            else
              match targets.find? (fun (c, nat) => match nat with
                  | .ok rc => (match eval c ops with | some r' => !(specEq r' rc) | none => true)
                  | _ => false) with
              | some (c, _) => "fail on target " ++ encNode c ++ " the native diff applies but the JSON Patch fails or gives a different result"
              | none => "ok"

/-- C10: whenever jd reads and applies a patch, RFC 6902 evaluation succeeds with the same result -/
def oracleC10 (nc : NumCodec) (text : String) (c : Json) (implRead : Outcome Diff) (implPatch : Outcome Json) : String :=
  match implRead, implPatch with
  | .panic, _ | _, .panic => "fail panic"
  | .ok _, .ok r =>
    (match parseJson nc text with
     | none => "fail jd applied a patch RFC 6902 rejects (the text is not JSON)"
     | some doc =>
       match opsOfJson doc with
       | none => "fail jd applied a patch RFC 6902 rejects (the text is not a well-formed JSON Patch document: an array of objects with string op and path members, and a value member on add / test)"
       | some ops =>
         match eval c ops with
         | none => "fail jd applied the patch but RFC 6902 evaluation fails (jd is more permissive)"
         | some r' => if specEq r' r then "ok applied" else "fail jd and RFC 6902 evaluation give different results")
  | _, _ => "ok stricter-or-unread"

/-- C11: RFC 7386 MergePatch(a, rendered patch) is b under the array reading in force -/
def oracleC11 (nc : NumCodec) (o : Opts) (a b : Json) (implText : Outcome String) : String :=
  match implText with
  | .ok text =>
    (match parseJson nc text with
     | none => "fail the rendered merge patch is not valid JSON"
     | some p =>
       let r := mergePatch a p
       if equivB o r b then "ok"
       else if setMode o && !(aliasFree o (hashedNodes a ++ hashedNodes b)) then "kf KF-C04-alias MergePatch(a, patch) is not b"
       else "fail MergePatch(a, patch) = " ++ encNode r ++ " is not b")
  | .err =>
    -- under SetKeys a hash alias inside a keyed member ("" / []) makes two members clash: Diff emits a merge hunk below
    -- a keyed path element, which RenderMerge refuses (theorem: RenderMerge succeeds iff no clash); the known finding
    -- explains the refusal only when the model of the unchanged code refuses as well
    if !(aliasFree o (hashedNodes a ++ hashedNodes b)) &&
        (match renderMergeM nc (diffM o a b) with | .err => true | _ => false) then
      "kf KF-C04-alias RenderMerge returned an error"
    else "fail RenderMerge returned an error"
  | .panic => "fail RenderMerge panicked"

mutual
/-- class of KF-C12-emptyobj: the patch has `{}` where the target holds an object (nested), or is `{}`
    at the root over a non-object target -/
partial def emptyObjOverObj (t p : Json) : Bool :=
  match p with
  | .obj [] => t.isObj
  | .obj pkvs => pkvs.any (fun kv => match t with
      | .obj tkvs => (match alookup kv.1 tkvs with | some tv => emptyObjOverObj tv kv.2 | none => false)
      | _ => false)
  | _ => false
end

/-- C12: jd's reading and application of a merge patch against the RFC 7386 pseudocode -/
def oracleC12 (nc : NumCodec) (t : Json) (text : String) (impl : Outcome Json) : String :=
  match parseJson nc text with
  | none => "ok skipped-not-json"
  | some p =>
    let want := mergePatch t p
    let cls (why : String) : String :=
      match p with
      | .null => "kf KF-C12-rootnull " ++ why
      | .obj [] => if !t.isObj then "kf KF-C12-emptyobj " ++ why else "fail " ++ why
      | _ => if emptyObjOverObj t p then "kf KF-C12-emptyobj " ++ why else "fail " ++ why
    match impl with
    | .ok r => if specEq r want then "ok" else cls ("jd gives " ++ encNode r ++ ", RFC 7386 gives " ++ encNode want)
    | .err => cls "jd rejects a merge patch"
    | .panic => "fail panic"

end Jd.Driver
