/-
  Driver.Oracles — spec oracles evaluated on the implementation's own outputs, and the class
  predicates of the known findings (the negated preconditions of the `_partial` theorems).
-/
import Driver.Wire
import JdSpec

namespace Jd.Driver
open Jd Jd.Wire Jd.Spec

mutual
partial def subterms : Json → List Json
  | .arr t xs => .arr t xs :: xs.flatMap subterms
  | .obj kvs => .obj kvs :: kvs.flatMap (fun kv => subterms kv.2)
  | n => [n]
end

partial def hasNull : Json → Bool
  | .null => true
  | .arr _ xs => xs.any hasNull
  | .obj kvs => kvs.any (fun kv => hasNull kv.2)
  | _ => false

partial def hasNegZero : Json → Bool
  | .num b => b == 0x8000000000000000
  | .arr _ xs => xs.any hasNegZero
  | .obj kvs => kvs.any (fun kv => hasNegZero kv.2)
  | _ => false

/-- `AliasFree`: among the given nodes, equal hash codes (and equal identities) imply equivalence.
    Its negation is the class predicate of KF-C04-alias (hash pre-images not domain-separated). -/
def aliasFree (o : Opts) (nodes : List Json) : Bool :=
  let hs := nodes.map (fun n => (hashCode o n, identOf o n, n))
  hs.all (fun x => hs.all (fun y =>
    (x.1 != y.1 || equivB o x.2.2 y.2.2) &&
    (x.2.1 != y.2.1 || !(x.2.2.isObj == y.2.2.isObj) || x.2.2.isObj || equivB o x.2.2 y.2.2)))

def setMode (o : Opts) : Bool := dispatchTag o != .list

/-- C01 oracle on the implementation's outputs: the patch succeeded and its result is equivalent
    to `b` (model `equals` and the hash-free spec `equivB`). `implEq` is the implementation's own
    verdict `r.Equals(b, opts)`. -/
def oracleC01 (o : Opts) (a b : Json) (implEq : Bool) (out : Outcome Json) : String :=
  let bad (why : String) : String :=
    if setMode o && !(aliasFree o (subterms a ++ subterms b)) then "kf KF-C04-alias " ++ why
    else "fail " ++ why
  match out with
  | .ok r =>
    if !implEq then bad "implementation: patched document does not Equal b"
    else if !(equals o r b) then bad "model equals: patched document differs from b"
    else if !(equivB o r b) then bad "spec Equiv: patched document is not equivalent to b"
    else "ok"
  | .err => bad "Patch returned an error on the library's own diff"
  | .panic => "fail Patch panicked"

end Jd.Driver
