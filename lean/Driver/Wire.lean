/-
  Driver.Wire — the line protocol shared with the Go harness (harness/wire.go, and the encoders in
  the `verif`-tagged hook files of /repo). Space-separated tokens:

    node   V | N | T | F | #<16 hex: float64 bits> | "<hex of UTF-8> | [r|[l|[s|[m node* ] | { ("<hex> node)* }
    path   K"<hex> | I<int> | S | M | SK node(obj) | MK node(obj)
    hunk   ( m|s path* | node* | node* | node* | node* )       before | remove | add | after
    diff   < hunk* >
    opts   o=<item>,<item>…   item: M S B C P<16hex> K<hexkey>/<hexkey>…   (K alone: no keys)
    text   x<hex of bytes>
    result ok … | err | panic
-/
import JdModel

namespace Jd.Wire

def sdrop (s : String) (n : Nat) : String := String.ofList (s.toList.drop n)

def hexDigit (n : Nat) : Char :=
  if n < 10 then Char.ofNat (48 + n) else Char.ofNat (87 + n)

def hexOfBytes (bs : List UInt8) : String :=
  String.ofList (bs.flatMap (fun b => [hexDigit (b.toNat / 16), hexDigit (b.toNat % 16)]))

def hexVal (c : Char) : Option Nat :=
  if '0' ≤ c ∧ c ≤ '9' then some (c.toNat - 48)
  else if 'a' ≤ c ∧ c ≤ 'f' then some (c.toNat - 87)
  else if 'A' ≤ c ∧ c ≤ 'F' then some (c.toNat - 55)
  else none

partial def bytesOfHexAux : List Char → List UInt8 → Option (List UInt8)
  | [], acc => some acc.reverse
  | a :: b :: r, acc =>
    match hexVal a, hexVal b with
    | some x, some y => bytesOfHexAux r (UInt8.ofNat (x * 16 + y) :: acc)
    | _, _ => none
  | _, _ => none

def bytesOfHex (s : String) : Option (List UInt8) := bytesOfHexAux s.toList []

def stringOfHex (s : String) : Option String := do
  let bs ← bytesOfHex s
  String.fromUTF8? (ByteArray.mk bs.toArray)

def hexOfString (s : String) : String := hexOfBytes s.toUTF8.toList

def hex64 (n : UInt64) : String :=
  String.ofList ((List.range 16).map (fun i => hexDigit ((n.toNat >>> (4 * (15 - i))) % 16)))

def parseHex64 (s : String) : Option UInt64 :=
  if s.length != 16 then none
  else s.toList.foldlM (fun acc c => do let v ← hexVal c; pure (acc * 16 + v)) 0 |>.map UInt64.ofNat

/-! ### printing -/

def tagChar : Tag → String
  | .raw => "r" | .list => "l" | .set => "s" | .mset => "m"

mutual
partial def encNode : Json → String
  | .void => "V"
  | .null => "N"
  | .bool true => "T"
  | .bool false => "F"
  | .num b => "#" ++ hex64 b
  | .str s => "\"" ++ hexOfString s
  | .arr t xs => "[" ++ tagChar t ++ String.join (xs.map (fun x => " " ++ encNode x)) ++ " ]"
  | .obj kvs => "{" ++ String.join (kvs.map (fun kv => " \"" ++ hexOfString kv.1 ++ " " ++ encNode kv.2)) ++ " }"
end

def encNodes (l : List Json) : String := String.join (l.map (fun x => " " ++ encNode x))

def encPathElem : PathElem → String
  | .key k => "K\"" ++ hexOfString k
  | .idx i => "I" ++ toString i
  | .set => "S"
  | .mset => "M"
  | .setKeys o => "SK " ++ encNode (.obj o)
  | .msetKeys o => "MK " ++ encNode (.obj o)

def encHunk (h : Hunk) : String :=
  "( " ++ (if h.merge then "m" else "s") ++ String.join (h.path.map (fun e => " " ++ encPathElem e)) ++
  " |" ++ encNodes h.before ++ " |" ++ encNodes h.remove ++ " |" ++ encNodes h.add ++ " |" ++ encNodes h.after ++ " )"

def encDiff (d : Diff) : String :=
  "<" ++ String.join (d.map (fun h => " " ++ encHunk h)) ++ " >"

def encText (s : String) : String := "x" ++ hexOfString s
def encBytes (bs : List UInt8) : String := "x" ++ hexOfBytes bs

def encOutcome {α} (f : α → String) : Outcome α → String
  | .ok a => "ok " ++ f a
  | .err => "err"
  | .panic => "panic"

/-! ### parsing (token lists) -/

abbrev P := StateT (List String) Option

def next : P String := do
  match (← get) with
  | [] => failure
  | t :: r => set r; pure t

def peek : P String := do
  match (← get) with
  | [] => failure
  | t :: _ => pure t

def expect (s : String) : P Unit := do
  let t ← next
  if t == s then pure () else failure

def sortKvs (kvs : List (String × Json)) : List (String × Json) :=
  kvs.foldl (fun acc kv => ainsert kv.1 kv.2 acc) []

mutual
partial def pNode : P Json := do
  let t ← next
  if t == "V" then pure .void
  else if t == "N" then pure .null
  else if t == "T" then pure (.bool true)
  else if t == "F" then pure (.bool false)
  else if t.startsWith "#" then
    match parseHex64 (sdrop t 1) with
    | some b => pure (.num b)
    | none => failure
  else if t.startsWith "\"" then
    match stringOfHex (sdrop t 1) with
    | some s => pure (.str s)
    | none => failure
  else if t == "[r" then pure (.arr .raw (← pNodesUntil "]"))
  else if t == "[l" then pure (.arr .list (← pNodesUntil "]"))
  else if t == "[s" then pure (.arr .set (← pNodesUntil "]"))
  else if t == "[m" then pure (.arr .mset (← pNodesUntil "]"))
  else if t == "{" then pure (.obj (sortKvs (← pKvs)))
  else failure
partial def pNodesUntil (stop : String) : P (List Json) := do
  if (← peek) == stop then
    let _ ← next
    pure []
  else
    let x ← pNode
    let r ← pNodesUntil stop
    pure (x :: r)
partial def pKvs : P (List (String × Json)) := do
  let t ← next
  if t == "}" then pure []
  else if t.startsWith "\"" then
    match stringOfHex (sdrop t 1) with
    | some k =>
      let v ← pNode
      let r ← pKvs
      pure ((k, v) :: r)
    | none => failure
  else failure
end

def pObjKvs : P (List (String × Json)) := do
  match (← pNode) with
  | .obj kvs => pure kvs
  | _ => failure

partial def pPathUntil (stop : String) : P Path := do
  let t ← next
  if t == stop then pure []
  else
    let e : PathElem ←
      if t.startsWith "K\"" then
        match stringOfHex (sdrop t 2) with
        | some k => pure (PathElem.key k)
        | none => failure
      else if t.startsWith "I" then
        match (sdrop t 1).toInt? with
        | some i => pure (PathElem.idx i)
        | none => failure
      else if t == "S" then pure PathElem.set
      else if t == "M" then pure PathElem.mset
      else if t == "SK" then pure (PathElem.setKeys (← pObjKvs))
      else if t == "MK" then pure (PathElem.msetKeys (← pObjKvs))
      else failure
    let r ← pPathUntil stop
    pure (e :: r)

def pHunk : P Hunk := do
  expect "("
  let m ← next
  let path ← pPathUntil "|"
  let before ← pNodesUntil "|"
  let remove ← pNodesUntil "|"
  let add ← pNodesUntil "|"
  let after ← pNodesUntil ")"
  pure { merge := m == "m", path, before, remove, add, after }

partial def pHunksUntilGt : P Diff := do
  if (← peek) == ">" then
    let _ ← next
    pure []
  else
    let h ← pHunk
    let r ← pHunksUntilGt
    pure (h :: r)

def pDiff : P Diff := do
  expect "<"
  pHunksUntilGt

def pOpts : P Opts := do
  let t ← next
  if !t.startsWith "o=" then failure
  let body := sdrop t 2
  if body == "" then pure []
  else
    (body.splitOn ",").mapM (fun it =>
      if it == "M" then pure Opt.merge
      else if it == "S" then pure Opt.set
      else if it == "B" then pure Opt.mset
      else if it == "C" then pure Opt.color
      else if it.startsWith "P" then
        match parseHex64 (sdrop it 1) with
        | some b => pure (Opt.prec b)
        | none => failure
      else if it.startsWith "K" then
        let ks := sdrop it 1
        if ks == "" then pure (Opt.setKeys [])
        else do
          let l ← (ks.splitOn "/").mapM (fun h => (stringOfHex h : Option String))
          pure (Opt.setKeys l)
      else failure)

def pText : P String := do
  let t ← next
  if t.startsWith "x" then
    match stringOfHex (sdrop t 1) with
    | some s => pure s
    | none => failure
  else failure

def pBytes : P (List UInt8) := do
  let t ← next
  if t.startsWith "x" then
    match bytesOfHex (sdrop t 1) with
    | some s => pure s
    | none => failure
  else failure

def pNat : P Nat := do
  match (← next).toNat? with
  | some n => pure n
  | none => failure

def pInt : P Int := do
  match (← next).toInt? with
  | some n => pure n
  | none => failure

/-- impl-side outcome of a node-valued operation -/
def pOutcomeNode : P (Outcome Json) := do
  let t ← next
  if t == "ok" then pure (.ok (← pNode))
  else if t == "err" then pure .err
  else if t == "panic" then pure .panic
  else failure

def pOutcomeDiff : P (Outcome Diff) := do
  let t ← next
  if t == "ok" then pure (.ok (← pDiff))
  else if t == "err" then pure .err
  else if t == "panic" then pure .panic
  else failure

def pOutcomeText : P (Outcome String) := do
  let t ← next
  if t == "ok" then pure (.ok (← pText))
  else if t == "err" then pure .err
  else if t == "panic" then pure .panic
  else failure

end Jd.Wire

namespace Jd.Wire

/-- number dictionary token `d=<text>:<16hex>,…` (the graph of strconv restricted to the tokens at hand) -/
def pNumDict : P NumCodec := do
  let t ← next
  if !t.startsWith "d=" then failure
  let body := sdrop t 2
  let pairs : List (String × UInt64) ←
    if body == "" then pure []
    else (body.splitOn ",").mapM (fun it =>
      match it.splitOn ":" with
      | [txt, hx] =>
        match parseHex64 hx with
        | some b => pure (txt, b)
        | none => failure
      | _ => failure)
  pure { fmt := fun b => (pairs.find? (fun p => p.2 == b)).map (·.1),
         parse := fun s => (pairs.find? (fun p => p.1 == s)).map (·.2) }

def encOptText : Option String → String
  | some s => "ok " ++ encText s
  | none => "unsupported"

end Jd.Wire
