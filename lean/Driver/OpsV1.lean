/-
  Driver.OpsV1 — driver operations for the model of the v1 library (JdModel/V1), the v1 wire
  encodings, and the C17 oracle.

    meta    m=<item>,<item>…   item: S (SET)  B (MULTISET)  M (MERGE)  P<16hex> (SetPrecision)
                               K<hexkey>/<hexkey>… (Setkeys; K alone: no keys)
    v1hunk  ( node* | node* | node* )        path elements | old values | new values
    v1diff  < v1hunk* >
  Path elements are nodes, or SORI"<hex> for a jsonStringOrInteger token (JSON Pointer reader).
  Inside a metadata array of a path the token NIL (a nil interface value left behind by
  prependMetadataMerge) is read as `.void`, and `.void` is written as NIL.

    v1hash <meta> <node>            -> h<16hex>
    v1ident <meta> <node>           -> h<16hex>
    v1equals <meta> <a> <b>         -> T | F
    v1diff <meta> <a> <b>           -> <v1diff>
    v1patch <node> <v1diff>         -> ok <node> | err | panic
    v1diffpatch <meta> <a> <b>      -> <v1diff> <outcome>
    c17 <meta> <a> <b> <implEquals(r,b)> <impl patch outcome> <diffEmpty> <implEquals(a,b)>

  text layer (d= is the number dictionary of the v2 text ops):
    v1render d= <v1diff>            -> ok x<text> | unsupported | panic      (v1renderc: with COLOR)
    v1readdiff d= x<text>           -> ok <v1diff> | err
    v1renderpatch d= <v1diff>       -> ok x<text> | unsupported | err
    v1readpatch d= x<text>          -> ok <v1diff> | err
    v1rendermerge d= <v1diff>       -> ok x<text> | unsupported | err | panic
    v1readmerge d= x<text>          -> ok <v1diff with the hunks sorted by their encoding> | err
    v1json d= <node>                -> ok x<text> | unsupported
    c17t <meta> <a> <b> <impl outcome of patching a with the re-read diff> <implEquals(r,b)>
    c18p d= <a> <b> <impl RenderPatch outcome> <impl outcome of patching a with the re-read patch>
    c18m d= <meta> <a> <b> <impl RenderMerge outcome> <impl outcome of patching a with the re-read patch>
-/
import Driver.Wire
import Driver.Oracles

namespace Jd.Driver
open Jd Jd.Wire Jd.Spec

def v1EncBool (b : Bool) : String := if b then "T" else "F"

/-! ### wire -/

def pV1Metas : P V1.Metas := do
  let t ← next
  if !t.startsWith "m=" then failure
  let body := sdrop t 2
  if body == "" then pure []
  else
    (body.splitOn ",").mapM (fun it =>
      if it == "S" then pure V1.Meta.set
      else if it == "B" then pure V1.Meta.mset
      else if it == "M" then pure V1.Meta.merge
      else if it.startsWith "P" then
        match parseHex64 (sdrop it 1) with
        | some b => pure (V1.Meta.prec b)
        | none => failure
      else if it.startsWith "K" then
        let ks := sdrop it 1
        if ks == "" then pure (V1.Meta.setkeys [])
        else do
          let l ← (ks.splitOn "/").mapM (fun h => (stringOfHex h : Option String))
          pure (V1.Meta.setkeys l)
      else failure)

/-- a path element; `.void` inside a metadata array stands for a nil interface value -/
def v1EncPathElem : V1.PElem → String
  | .node (.arr .raw items) =>
    "[r" ++ String.join (items.map (fun x => " " ++ (if x.isVoid then "NIL" else encNode x))) ++ " ]"
  | .node n => encNode n
  | .sori s => "SORI\"" ++ hexOfString s

def v1EncPHunk (h : V1.PHunk) : String :=
  "(" ++ String.join (h.path.map (fun e => " " ++ v1EncPathElem e)) ++
  " |" ++ encNodes h.old ++ " |" ++ encNodes h.new ++ " )"

def v1EncPDiff (d : V1.PDiff) : String :=
  "<" ++ String.join (d.map (fun h => " " ++ v1EncPHunk h)) ++ " >"

def v1EncHunk (h : V1.Hunk) : String := v1EncPHunk h.toP

def v1EncDiff (d : V1.VDiff) : String := v1EncPDiff (V1.liftDiff d)

partial def pV1MetaItemsUntil (stop : String) : P (List Json) := do
  let t ← peek
  if t == stop then
    let _ ← next
    pure []
  else if t == "NIL" then
    let _ ← next
    let r ← pV1MetaItemsUntil stop
    pure (.void :: r)
  else
    let x ← pNode
    let r ← pV1MetaItemsUntil stop
    pure (x :: r)

partial def pV1PathUntil (stop : String) : P V1.PPath := do
  let t ← peek
  if t == stop then
    let _ ← next
    pure []
  else if t == "[r" then
    let _ ← next
    let items ← pV1MetaItemsUntil "]"
    let r ← pV1PathUntil stop
    pure (.node (.arr .raw items) :: r)
  else if t.startsWith "SORI\"" then
    let _ ← next
    match stringOfHex (sdrop t 5) with
    | some s =>
      let r ← pV1PathUntil stop
      pure (.sori s :: r)
    | none => failure
  else
    let x ← pNode
    let r ← pV1PathUntil stop
    pure (.node x :: r)

def pV1Hunk : P V1.PHunk := do
  expect "("
  let path ← pV1PathUntil "|"
  let old ← pNodesUntil "|"
  let new ← pNodesUntil ")"
  pure { path, old, new }

partial def pV1HunksUntilGt : P V1.PDiff := do
  if (← peek) == ">" then
    let _ ← next
    pure []
  else
    let h ← pV1Hunk
    let r ← pV1HunksUntilGt
    pure (h :: r)

/-- a v1 diff; its paths may hold jsonStringOrInteger tokens -/
def pV1Diff : P V1.PDiff := do
  expect "<"
  pV1HunksUntilGt

/-! ### C17 oracle -/

/-- the v2-style options naming the equivalence that v1 metadata advertise: SET before MULTISET,
    Setkeys alone does not change the equivalence, the first precision -/
def v1ToOpts (m : V1.Metas) : Opts :=
  (if V1.hasSet m then [Opt.set] else if V1.hasMset m then [Opt.mset] else []) ++ [Opt.prec (V1.precOf m)]

def v1SetMode (m : V1.Metas) : Bool := V1.dispatchTag m != .list

/-- `AliasFree` for v1 hash codes: among the given nodes, equal hash codes (and, for non-objects, equal
    identities) imply equivalence. Lists and objects carry no prefix bytes in v1, so e.g. `[]`, `{}`,
    `""` all collide. Only meaningful in set / multiset mode: list mode never hashes for equality. -/
def v1AliasFree (m : V1.Metas) (nodes : List Json) : Bool :=
  let o := v1ToOpts m
  let hs := nodes.map (fun n => (V1.hashCode m n, V1.identOf m n, n))
  hs.all (fun x => hs.all (fun y =>
    (x.1 != y.1 || equivB o x.2.2 y.2.2) &&
    (x.2.1 != y.2.1 || !(x.2.2.isObj == y.2.2.isObj) || x.2.2.isObj || equivB o x.2.2 y.2.2) &&
    -- keyed objects: equal identities imply equal key tuples (the identity combines the SORTED value
    -- hashes, so it forgets which key carries which value: {id:3,k:4} and {id:4,k:3} collide)
    (x.2.1 != y.2.1 || !(x.2.2.isObj && y.2.2.isObj) ||
      (match V1.keysOf m, x.2.2, y.2.2 with
       | some ks, .obj kx, .obj ky =>
         ks.all (fun k => match alookup k kx, alookup k ky with
           | some u, some v => equivB o u v
           | none, none => true
           | _, _ => false)
       | _, _, _ => true))))

def v1HasPrecisionPair (m : V1.Metas) (a b : Json) : Bool :=
  V1.precOf m != 0 &&
    (subterms a).any (fun x => (subterms b).any (fun y =>
      match x, y with
      | .num p, .num q => p != q && numWithin (V1.precOf m) p q
      | _, _ => false))

/-- Setkeys precondition: within every array of the inputs the object members have pairwise distinct
    identities (two members with the same identity are one entity listed twice) -/
def v1KeyedDistinct (m : V1.Metas) (nodes : List Json) : Bool :=
  nodes.all (fun n => match n with
    | .arr _ xs =>
      let ids := (xs.filter Json.isObj).map (V1.identOf m)
      ids.length == (hdedup ids).length
    | _ => true)

/-- class of KF-C01-keytwin (v1): some array holds two object members such that the set-key pairs one
    of them HAS are a proper part of the other's — v1 forgets the set keys when patching (`path.next`
    ignores `setkeys=…`), so the path object of the former, which holds just those pairs, also matches
    the latter -/
def v1KeyTwin (m : V1.Metas) (nodes : List Json) : Bool :=
  match V1.keysOf m with
  | none => false
  | some ks =>
    let o : Opts := [.set]
    let proj (kvs : List (String × Json)) : List (String × Json) := kvs.filter (fun kv => ks.contains kv.1)
    nodes.any (fun n => match n with
      | .arr _ xs =>
        let objs := xs.filterMap (fun n => match n with | .obj kvs => some (proj kvs) | _ => none)
        objs.any (fun x => objs.any (fun y =>
          x.length < y.length && !x.isEmpty &&
          x.all (fun kv => match alookup kv.1 y with | some v => equivB o kv.2 v | none => false)))
      | _ => false)

/-- C17 (in-memory half) on the implementation's outputs: `a.Patch(a.Diff(b, meta))` succeeded, its
    result Equals b (implementation's verdict, model `equals`, hash-free spec `equivB`), and the diff
    is empty exactly when the implementation says `a.Equals(b, meta)`. -/
def c17Class (m : V1.Metas) (a b : Json) (why : String) : String :=
  if v1SetMode m && !(v1AliasFree m (hashedNodes a ++ hashedNodes b)) then "kf KF-C04-alias " ++ why
  else if V1.hasSet m && v1KeyTwin m (subterms a ++ subterms b) then "kf KF-C01-keytwin " ++ why
  else if V1.hasSet m && (V1.keysOf m).isSome && !(v1KeyedDistinct m (subterms a ++ subterms b)) then
    "ok skipped-setkeys-precondition (two members of one array share an identity): " ++ why
  else if (hasNegZero a || hasNegZero b) then "kf KF-C05-negzero " ++ why
  else if v1HasPrecisionPair m a b then "kf KF-C05-precision " ++ why
  else "fail " ++ why

def oracleC17 (m : V1.Metas) (a b : Json) (implEq : Bool) (out : Outcome Json)
    (diffEmpty implEqAB : Bool) : String :=
  let bad (why : String) : String := c17Class m a b why
  match out with
  | .ok r =>
    if !implEq then bad "implementation: patched document does not Equal b"
    else if !(V1.equals m r b) then bad "model equals: patched document differs from b"
    else if !(equivB (v1ToOpts m) r b) then bad "spec Equiv: patched document is not equivalent to b"
    else if diffEmpty != implEqAB then bad s!"diff empty={diffEmpty} but Equals(a,b)={implEqAB}"
    else "ok"
  | .err => bad "Patch returned an error on the library's own diff"
  | .panic => "fail Patch panicked"

/-! ### C17 text half: patching with the diff after Render and ReadDiffString -/

/-- the prefixes of a path that end in a member-object path element (the keyed path elements of
    set.go's "recurse into a specific object") and continue into a field that is not a set key,
    as wire text -/
def v1KeyedPrefixes (keys : List String) (p : List Json) : List String :=
  (List.range p.length).filterMap (fun i =>
    match p[i]?, p[i + 1]? with
    | some (Json.obj _), some (Json.str k) =>
      if keys.contains k then none
      else some (String.join ((p.take (i + 1)).map (fun e => " " ++ v1EncPathElem (.node e))))
    | _, _ => none)

/-- class of KF-C17-keyedpath: SET + Setkeys, and two or more hunks of the diff lie under the same keyed
    path element, in fields that are not set keys (some keyed member changes in two or more
    places). A v1 keyed path element is the WHOLE member object of a; a diff that does not share
    memory with the document (read from text, or any copy) stops matching the member after the
    first of those hunks changed it. -/
def v1KeyedPathClass (m : V1.Metas) (d : V1.VDiff) : Bool :=
  V1.hasSet m &&
    (match V1.keysOf m with
     | none => false
     | some ks =>
       let pre := d.map (fun h => (v1KeyedPrefixes ks h.path).eraseDups)
       let all := pre.flatten
       all.any (fun x => (all.filter (· == x)).length ≥ 2))

/-- class of KF-C17-keyless: SET + Setkeys, and two or more hunks of the diff lie under the same path object
    that carries NONE of the set keys: for such a member `pathObject` returns the whole member (in memory: the
    member map itself), so a diff that does not share memory with the document stops matching the member after
    the first of those hunks changed it -/
def v1KeylessPrefixes (keys : List String) (p : List Json) : List String :=
  (List.range p.length).filterMap (fun i =>
    match p[i]?, p[i + 1]? with
    | some (Json.obj po), some (Json.str _) =>
      if keys.all (fun k => (alookup k po).isNone) then
        some (String.join ((p.take (i + 1)).map (fun e => " " ++ v1EncPathElem (.node e))))
      else none
    | _, _ => none)

def v1KeylessPathClass (m : V1.Metas) (d : V1.VDiff) : Bool :=
  V1.hasSet m &&
    (match V1.keysOf m with
     | none => false
     | some ks =>
       let all := (d.map (fun h => (v1KeylessPrefixes ks h.path).eraseDups)).flatten
       all.any (fun x => (all.filter (· == x)).length ≥ 2))

/-- C17 (text half) on the implementation's outputs: `out` = a.Patch(ReadDiffString(Render(a.Diff(b, meta))))
    on fresh values, `implEq` = its result Equals b -/
def oracleC17T (m : V1.Metas) (a b : Json) (out : Outcome Json) (implEq : Bool) : String :=
  -- the classes that also break the in-memory half first (hash aliases, -0, precision, Setkeys precondition)
  let bad (why : String) : String :=
    let c := c17Class m a b why
    if c.startsWith "fail " && v1KeylessPathClass m (V1.diffM m a b) then "kf KF-C17-keyless " ++ why
    else if c.startsWith "fail " && v1KeyedPathClass m (V1.diffM m a b) then "kf KF-C17-keyedpath " ++ why
    else c
  match out with
  | .ok r =>
    if !implEq then bad "implementation: after Render and ReadDiffString the patched document does not Equal b"
    else if !(V1.equals m r b) then bad "model equals: after Render and ReadDiffString the patched document differs from b"
    else if !(equivB (v1ToOpts m) r b) then bad "spec Equiv: after Render and ReadDiffString the patched document is not equivalent to b"
    else "ok"
  | .err => bad "after Render and ReadDiffString, Patch returns an error on the library's own diff"
  | .panic => "fail panic"

/-! ### C18 oracles -/

/-- can the paths of a list-mode v1 diff be written as JSON Pointers: v1 refuses only the key "-" -/
def v1Expressible (d : V1.VDiff) : Bool :=
  d.all (fun h => h.path.all (fun e => match e with
    | .str k => k != "-"
    | .num _ => true
    | _ => false))

/-- C18 (JSON Patch): the rendered patch evaluated by the RFC 6902 evaluator on a gives b; reading it
    back with ReadPatchString and patching a gives b -/
def oracleC18P (nc : NumCodec) (a b : Json) (implText : Outcome String) (readBack : Outcome Json) : String :=
  match implText with
  | .panic => "fail RenderPatch panicked"
  | .err =>
    if v1Expressible (V1.diffM [] a b) then "fail RenderPatch refused a diff whose paths are expressible as JSON Pointers"
    else "ok refused-inexpressible (object key \"-\")"
  | .ok text =>
    match parseJson nc text with
    | none => "fail the rendered JSON Patch is not valid JSON"
    | some doc =>
      match opsOfJson doc with
      | none => "fail the rendered JSON Patch is not a well-formed RFC 6902 document"
      | some ops =>
        if !(ops.all (fun o => o.op == "test" || o.op == "remove" || o.op == "add")) then
          "fail unexpected operation in the rendered patch"
        else
          match eval a ops with
          | none => "fail RFC 6902 evaluation of the rendered patch on a fails"
          | some r =>
            if !(specEq r b) then "fail RFC 6902 evaluation of the rendered patch on a gives " ++ encNode r ++ ", not b"
            else
              match readBack with
              | .ok r2 =>
                if specEq r2 b && V1.equals [] r2 b then "ok"
                else "fail reading the rendered JSON Patch back and patching a gives " ++ encNode r2 ++ ", not b"
              | .err => "fail jd cannot read back and apply its own JSON Patch"
              | .panic => "fail panic while reading back or patching"

/-- C18 (JSON Merge Patch): RFC 7386 MergePatch(a, rendered patch) ≈ b; reading the text back with
    ReadMergeString and patching a gives a document ≈ b. Known-finding classes: the class predicate of
    C12 (root `null`; `{}` at the root over a non-object, or where the target holds an object), and
    hash aliases in the set modes. -/
def oracleC18M (nc : NumCodec) (m : V1.Metas) (a b : Json) (implText : Outcome String)
    (readBack : Outcome Json) : String :=
  let o := v1ToOpts m
  let alias := v1SetMode m && !(v1AliasFree m (hashedNodes a ++ hashedNodes b))
  match implText with
  | .panic => "fail RenderMerge panicked"
  | .err => if alias then "kf KF-C04-alias RenderMerge returned an error" else "fail RenderMerge returned an error"
  | .ok text =>
    match parseJson nc text with
    | none => "fail the rendered merge patch is not valid JSON"
    | some p =>
      let r := mergePatch a p
      if !(equivB o r b) then
        (if alias then "kf KF-C04-alias MergePatch(a, patch) is not b"
         else "fail MergePatch(a, patch) = " ++ encNode r ++ " is not b")
      else
        let cls (why : String) : String :=
          match p with
          | .null => "kf KF-C12-rootnull " ++ why
          | .obj [] => if !a.isObj then "kf KF-C12-emptyobj " ++ why else if alias then "kf KF-C04-alias " ++ why else "fail " ++ why
          | _ =>
            if emptyObjOverObj a p then "kf KF-C12-emptyobj " ++ why
            else if alias then "kf KF-C04-alias " ++ why
            else "fail " ++ why
        match readBack with
        | .ok r2 =>
          if equivB o r2 b then "ok"
          else cls ("reading the rendered merge patch back and patching a gives " ++ encNode r2 ++ ", not b")
        | .err => cls "jd cannot read back and apply its own merge patch"
        | .panic => "fail panic while reading back or patching"

/-! ### op table -/

def v1EncRender : Outcome (Option String) → String
  | .ok t => encOptText t
  | .err => "err"
  | .panic => "panic"

/-- insertion sort of strings -/
def v1SortStrings (l : List String) : List String :=
  l.foldr (fun h acc =>
    let rec ins (h : String) : List String → List String
      | [] => [h]
      | x :: r => if h < x then h :: x :: r else x :: ins h r
    ins h acc) []

def runV1 (op : String) : Option (P String) :=
  match op with
  | "v1hash" => some do
    let m ← pV1Metas; let n ← pNode
    pure ("h" ++ hex64 (V1.hashCode m n))
  | "v1ident" => some do
    let m ← pV1Metas; let n ← pNode
    pure ("h" ++ hex64 (V1.identOf m n))
  | "v1equals" => some do
    let m ← pV1Metas; let a ← pNode; let b ← pNode
    pure (v1EncBool (V1.equals m a b))
  | "v1diff" => some do
    let m ← pV1Metas; let a ← pNode; let b ← pNode
    pure (v1EncDiff (V1.diffM m a b))
  | "v1patch" => some do
    let n ← pNode; let d ← pV1Diff
    pure (encOutcome encNode (V1.patchP n d))
  | "v1diffpatch" => some do
    let m ← pV1Metas; let a ← pNode; let b ← pNode
    -- Diff then Patch on the same in-memory values (path objects alias members of a)
    let r := V1.diffPatchShared m a b
    if V1.hasSet m && v1KeyTwin m (subterms a ++ subterms b) then pure (v1EncDiff r.1 ++ " kfskip")  -- see Ops.lean "diffpatch"
    else pure (v1EncDiff r.1 ++ " " ++ encOutcome encNode r.2)
  | "v1echodiff" => some do
    let d ← pV1Diff
    pure (v1EncPDiff d)
  | "v1json" => some do
    let nc ← pNumDict; let n ← pNode
    pure (encOptText (V1.jsonM nc n))
  | "v1render" => some do
    let nc ← pNumDict; let d ← pV1Diff
    pure (v1EncRender (V1.renderM nc false d))
  | "v1renderc" => some do
    let nc ← pNumDict; let d ← pV1Diff
    pure (v1EncRender (V1.renderM nc true d))
  | "v1readdiff" => some do
    let nc ← pNumDict; let t ← pText
    pure (encOutcome v1EncDiff (V1.readDiffM nc t))
  | "v1renderpatch" => some do
    let nc ← pNumDict; let d ← pV1Diff
    pure (v1EncRender (V1.renderPatchM nc d))
  | "v1readpatch" => some do
    let nc ← pNumDict; let t ← pText
    pure (encOutcome v1EncPDiff (V1.readPatchM nc t))
  | "v1rendermerge" => some do
    let nc ← pNumDict; let d ← pV1Diff
    pure (v1EncRender (V1.renderMergeM nc d))
  | "v1readmerge" => some do
    let nc ← pNumDict; let t ← pText
    pure (match V1.readMergeM nc t with
      | .ok d => "ok <" ++ String.join ((v1SortStrings (d.map v1EncHunk)).map (fun h => " " ++ h)) ++ " >"
      | .err => "err"
      | .panic => "panic")
  | "c17t" => some do
    let m ← pV1Metas; let a ← pNode; let b ← pNode
    let out ← pOutcomeNode
    let eq ← next
    pure (oracleC17T m a b out (eq == "T"))
  | "c18p" => some do
    let nc ← pNumDict; let a ← pNode; let b ← pNode
    let txt ← pOutcomeText
    let rb ← pOutcomeNode
    pure (oracleC18P nc a b txt rb)
  | "c18m" => some do
    let nc ← pNumDict; let m ← pV1Metas; let a ← pNode; let b ← pNode
    let txt ← pOutcomeText
    let rb ← pOutcomeNode
    pure (oracleC18M nc m a b txt rb)
  | "c17" => some do
    let m ← pV1Metas; let a ← pNode; let b ← pNode
    let eq ← next
    let out ← pOutcomeNode
    let de ← next; let eqab ← next
    pure (oracleC17 m a b (eq == "T") out (de == "T") (eqab == "T"))
  | _ => none

end Jd.Driver
