/- Driver.OpsV1 — placeholder (replaced by the real op table) -/
import Driver.Wire

namespace Jd.Driver
open Jd Jd.Wire

def runV1 (_op : String) : Option (P String) := none

end Jd.Driver
