/-
  Driver.OpsV1 — driver operations for the model of the v1 library (JdModel/V1), the v1 wire
  encodings, and the C17 oracle.

    meta    m=<item>,<item>…   item: S (SET)  B (MULTISET)  M (MERGE)  P<16hex> (SetPrecision)
                               K<hexkey>/<hexkey>… (Setkeys; K alone: no keys)
    v1hunk  ( node* | node* | node* )        path elements | old values | new values
    v1diff  < v1hunk* >
  Path elements are nodes. Inside a metadata array of a path the token NIL (a nil interface value
  left behind by prependMetadataMerge) is read as `.void`, and `.void` is written as NIL.

    v1hash <meta> <node>            -> h<16hex>
    v1ident <meta> <node>           -> h<16hex>
    v1equals <meta> <a> <b>         -> T | F
    v1diff <meta> <a> <b>           -> <v1diff>
    v1patch <node> <v1diff>         -> ok <node> | err | panic
    v1diffpatch <meta> <a> <b>      -> <v1diff> <outcome>
    c17 <meta> <a> <b> <implEquals(r,b)> <impl patch outcome> <diffEmpty> <implEquals(a,b)>
-/
import Driver.Wire
import Driver.Oracles

namespace Jd.Driver
open Jd Jd.Wire Jd.Spec

def v1EncBool (b : Bool) : String := if b then "T" else "F"

/-! ### wire -/

def pV1Metas : P V1.Metas := do
  let t ← next
  if !t.startsWith "m=" then failure
  let body := sdrop t 2
  if body == "" then pure []
  else
    (body.splitOn ",").mapM (fun it =>
      if it == "S" then pure V1.Meta.set
      else if it == "B" then pure V1.Meta.mset
      else if it == "M" then pure V1.Meta.merge
      else if it.startsWith "P" then
        match parseHex64 (sdrop it 1) with
        | some b => pure (V1.Meta.prec b)
        | none => failure
      else if it.startsWith "K" then
        let ks := sdrop it 1
        if ks == "" then pure (V1.Meta.setkeys [])
        else do
          let l ← (ks.splitOn "/").mapM (fun h => (stringOfHex h : Option String))
          pure (V1.Meta.setkeys l)
      else failure)

/-- a path element; `.void` inside a metadata array stands for a nil interface value -/
def v1EncPathElem : Json → String
  | .arr .raw items =>
    "[r" ++ String.join (items.map (fun x => " " ++ (if x.isVoid then "NIL" else encNode x))) ++ " ]"
  | n => encNode n

def v1EncHunk (h : V1.Hunk) : String :=
  "(" ++ String.join (h.path.map (fun e => " " ++ v1EncPathElem e)) ++
  " |" ++ encNodes h.old ++ " |" ++ encNodes h.new ++ " )"

def v1EncDiff (d : V1.VDiff) : String :=
  "<" ++ String.join (d.map (fun h => " " ++ v1EncHunk h)) ++ " >"

partial def pV1MetaItemsUntil (stop : String) : P (List Json) := do
  let t ← peek
  if t == stop then
    let _ ← next
    pure []
  else if t == "NIL" then
    let _ ← next
    let r ← pV1MetaItemsUntil stop
    pure (.void :: r)
  else
    let x ← pNode
    let r ← pV1MetaItemsUntil stop
    pure (x :: r)

partial def pV1PathUntil (stop : String) : P (List Json) := do
  let t ← peek
  if t == stop then
    let _ ← next
    pure []
  else if t == "[r" then
    let _ ← next
    let items ← pV1MetaItemsUntil "]"
    let r ← pV1PathUntil stop
    pure (.arr .raw items :: r)
  else
    let x ← pNode
    let r ← pV1PathUntil stop
    pure (x :: r)

def pV1Hunk : P V1.Hunk := do
  expect "("
  let path ← pV1PathUntil "|"
  let old ← pNodesUntil "|"
  let new ← pNodesUntil ")"
  pure { path, old, new }

partial def pV1HunksUntilGt : P V1.VDiff := do
  if (← peek) == ">" then
    let _ ← next
    pure []
  else
    let h ← pV1Hunk
    let r ← pV1HunksUntilGt
    pure (h :: r)

def pV1Diff : P V1.VDiff := do
  expect "<"
  pV1HunksUntilGt

/-! ### C17 oracle -/

/-- the v2-style options naming the equivalence that v1 metadata advertise: SET before MULTISET,
    Setkeys alone does not change the equivalence, the first precision -/
def v1ToOpts (m : V1.Metas) : Opts :=
  (if V1.hasSet m then [Opt.set] else if V1.hasMset m then [Opt.mset] else []) ++ [Opt.prec (V1.precOf m)]

def v1SetMode (m : V1.Metas) : Bool := V1.dispatchTag m != .list

/-- `AliasFree` for v1 hash codes: among the given nodes, equal hash codes (and, for non-objects, equal
    identities) imply equivalence. Lists and objects carry no prefix bytes in v1, so e.g. `[]`, `{}`,
    `""` all collide. Only meaningful in set / multiset mode: list mode never hashes for equality. -/
def v1AliasFree (m : V1.Metas) (nodes : List Json) : Bool :=
  let o := v1ToOpts m
  let hs := nodes.map (fun n => (V1.hashCode m n, V1.identOf m n, n))
  hs.all (fun x => hs.all (fun y =>
    (x.1 != y.1 || equivB o x.2.2 y.2.2) &&
    (x.2.1 != y.2.1 || !(x.2.2.isObj == y.2.2.isObj) || x.2.2.isObj || equivB o x.2.2 y.2.2) &&
    -- keyed objects: equal identities imply equal key tuples (the identity combines the SORTED value
    -- hashes, so it forgets which key carries which value: {id:3,k:4} and {id:4,k:3} collide)
    (x.2.1 != y.2.1 || !(x.2.2.isObj && y.2.2.isObj) ||
      (match V1.keysOf m, x.2.2, y.2.2 with
       | some ks, .obj kx, .obj ky =>
         ks.all (fun k => match alookup k kx, alookup k ky with
           | some u, some v => equivB o u v
           | none, none => true
           | _, _ => false)
       | _, _, _ => true))))

def v1HasPrecisionPair (m : V1.Metas) (a b : Json) : Bool :=
  V1.precOf m != 0 &&
    (subterms a).any (fun x => (subterms b).any (fun y =>
      match x, y with
      | .num p, .num q => p != q && numWithin (V1.precOf m) p q
      | _, _ => false))

/-- Setkeys precondition: within every array of the inputs the object members have pairwise distinct
    identities (two members with the same identity are one entity listed twice) -/
def v1KeyedDistinct (m : V1.Metas) (nodes : List Json) : Bool :=
  nodes.all (fun n => match n with
    | .arr _ xs =>
      let ids := (xs.filter Json.isObj).map (V1.identOf m)
      ids.length == (hdedup ids).length
    | _ => true)

/-- C17 (in-memory half) on the implementation's outputs: `a.Patch(a.Diff(b, meta))` succeeded, its
    result Equals b (implementation's verdict, model `equals`, hash-free spec `equivB`), and the diff
    is empty exactly when the implementation says `a.Equals(b, meta)`. -/
def oracleC17 (m : V1.Metas) (a b : Json) (implEq : Bool) (out : Outcome Json)
    (diffEmpty implEqAB : Bool) : String :=
  let bad (why : String) : String :=
    if v1SetMode m && !(v1AliasFree m (subterms a ++ subterms b)) then "kf KF-C04-alias " ++ why
    else if V1.hasSet m && (V1.keysOf m).isSome && !(v1KeyedDistinct m (subterms a ++ subterms b)) then
      "ok skipped-setkeys-precondition (two members of one array share an identity): " ++ why
    else if (hasNegZero a || hasNegZero b) then "kf KF-C05-negzero " ++ why
    else if v1HasPrecisionPair m a b then "kf KF-C05-precision " ++ why
    else "fail " ++ why
  match out with
  | .ok r =>
    if !implEq then bad "implementation: patched document does not Equal b"
    else if !(V1.equals m r b) then bad "model equals: patched document differs from b"
    else if !(equivB (v1ToOpts m) r b) then bad "spec Equiv: patched document is not equivalent to b"
    else if diffEmpty != implEqAB then bad s!"diff empty={diffEmpty} but Equals(a,b)={implEqAB}"
    else "ok"
  | .err => bad "Patch returned an error on the library's own diff"
  | .panic => "fail Patch panicked"

/-! ### op table -/

def runV1 (op : String) : Option (P String) :=
  match op with
  | "v1hash" => some do
    let m ← pV1Metas; let n ← pNode
    pure ("h" ++ hex64 (V1.hashCode m n))
  | "v1ident" => some do
    let m ← pV1Metas; let n ← pNode
    pure ("h" ++ hex64 (V1.identOf m n))
  | "v1equals" => some do
    let m ← pV1Metas; let a ← pNode; let b ← pNode
    pure (v1EncBool (V1.equals m a b))
  | "v1diff" => some do
    let m ← pV1Metas; let a ← pNode; let b ← pNode
    pure (v1EncDiff (V1.diffM m a b))
  | "v1patch" => some do
    let n ← pNode; let d ← pV1Diff
    pure (encOutcome encNode (V1.patchM n d))
  | "v1diffpatch" => some do
    let m ← pV1Metas; let a ← pNode; let b ← pNode
    -- Diff then Patch on the same in-memory values (path objects alias members of a)
    let r := V1.diffPatchShared m a b
    pure (v1EncDiff r.1 ++ " " ++ encOutcome encNode r.2)
  | "v1echodiff" => some do
    let d ← pV1Diff
    pure (v1EncDiff d)
  | "c17" => some do
    let m ← pV1Metas; let a ← pNode; let b ← pNode
    let eq ← next
    let out ← pOutcomeNode
    let de ← next; let eqab ← next
    pure (oracleC17 m a b (eq == "T") out (de == "T") (eqab == "T"))
  | _ => none

end Jd.Driver
