/-
  Driver.OpsCli — driver operations of the CLI model (JdModel/Cli.lean).

    cliflags <binary>
        → name:Type:default,…                         the modelled flag declarations
    cliplan  <binary> <kv…>
        → none | mode=<diff|gitdiff|patch|translate> lib=<v1|v2> o=<opts> color=<0|1> src=<a<i>|stdin>,…
                                                       the library calls `main` makes for these flags
    cli      <binary> <kv…>
        → exit=<n> stdout=x<hex> outfile=<none|x<hex>> stderr=<none|oneLine|multiLine|usage> msg=<none|some>

  <binary>: v2jd | top | topV1.   <kv…>: key=value tokens in any order, absent = default.
    flags    color git mset p set version yaml v2 = 0|1    f o setkeys t = x<hex>    port = int
             prec = <16 hex float64 bits>    nargs = nat
    results  sv f1 f2 p1 p2 rd pt wr = ok | E:x<hex>        (unit results: ok or error message)
             rp rm tr = ok:x<hex> | E:x<hex>                (text results)
             rj pd = x<hex>   dl = nat
-/
import Driver.Wire
import JdModel.Cli

namespace Jd.Driver.CliOps
open Jd Jd.Wire Jd.Cli

abbrev KV := List (String × String)

def kvOfTokens (ts : List String) : Option KV :=
  ts.mapM (fun t =>
    match t.splitOn "=" with
    | [k, v] => some (k, v)
    | _ => none)

def pKV : P KV := do
  let ts ← get
  set ([] : List String)
  match kvOfTokens ts with
  | some kv => pure kv
  | none => failure

def kvBool (kv : KV) (k : String) (d : Bool) : Option Bool :=
  match kv.lookup k with
  | none => some d
  | some "1" => some true
  | some "0" => some false
  | some _ => none

def decText (v : String) : Option String :=
  if v.startsWith "x" then stringOfHex (sdrop v 1) else none

def kvText (kv : KV) (k : String) (d : String) : Option String :=
  match kv.lookup k with
  | none => some d
  | some v => decText v

def kvNat (kv : KV) (k : String) (d : Nat) : Option Nat :=
  match kv.lookup k with
  | none => some d
  | some v => v.toNat?

def kvInt (kv : KV) (k : String) (d : Int) : Option Int :=
  match kv.lookup k with
  | none => some d
  | some v => v.toInt?

def kvUnitRes (kv : KV) (k : String) : Option (Except String Unit) :=
  match kv.lookup k with
  | none => some uncomputed
  | some "ok" => some (.ok ())
  | some v => if v.startsWith "E:" then (decText (sdrop v 2)).map .error else none

def kvTextRes (kv : KV) (k : String) : Option (Except String String) :=
  match kv.lookup k with
  | none => some uncomputed
  | some v =>
    if v.startsWith "ok:" then (decText (sdrop v 3)).map .ok
    else if v.startsWith "E:" then (decText (sdrop v 2)).map .error
    else none

def flagsOfKV (kv : KV) : Option Flags := do
  let d : Flags := {}
  let color ← kvBool kv "color" d.color
  let f ← kvText kv "f" d.f
  let git ← kvBool kv "git" d.gitDiffDriver
  let mset ← kvBool kv "mset" d.mset
  let o ← kvText kv "o" d.o
  let p ← kvBool kv "p" d.p
  let port ← kvInt kv "port" d.port
  let prec ← match kv.lookup "prec" with
    | none => some d.precision
    | some v => parseHex64 v
  let set ← kvBool kv "set" d.set
  let setkeys ← kvText kv "setkeys" d.setkeys
  let t ← kvText kv "t" d.t
  let version ← kvBool kv "version" d.version
  let yaml ← kvBool kv "yaml" d.yaml
  let v2 ← kvBool kv "v2" d.v2
  let nargs ← kvNat kv "nargs" d.nargs
  pure { color, f, gitDiffDriver := git, mset, o, p, port, precision := prec, set, setkeys, t, version, yaml, v2, nargs }

def resultsOfKV (kv : KV) : Option LibResults := do
  let serve ← kvUnitRes kv "sv"
  let file1 ← kvUnitRes kv "f1"
  let file2 ← kvUnitRes kv "f2"
  let parse1 ← kvUnitRes kv "p1"
  let parse2 ← kvUnitRes kv "p2"
  let diffLen ← kvNat kv "dl" 0
  let renderJd ← kvText kv "rj" ""
  let renderPatch ← kvTextRes kv "rp"
  let renderMerge ← kvTextRes kv "rm"
  let readDiff ← kvUnitRes kv "rd"
  let patch ← kvUnitRes kv "pt"
  let patched ← kvText kv "pd" ""
  let translate ← kvTextRes kv "tr"
  let write ← kvUnitRes kv "wr"
  pure { serve, file1, file2, parse1, parse2, diffLen, renderJd, renderPatch, renderMerge, readDiff, patch, patched, translate, write }

def pBinary : P Binary := do
  let t ← next
  if t == "v2jd" then pure .v2jd
  else if t == "top" then pure .top
  else if t == "topV1" then pure .topV1
  else failure

def encOptItem : Opt → String
  | .merge => "M"
  | .set => "S"
  | .mset => "B"
  | .color => "C"
  | .prec e => "P" ++ hex64 e
  | .setKeys ks => "K" ++ String.intercalate "/" (ks.map hexOfString)

def encOpts (o : List Opt) : String := "o=" ++ String.intercalate "," (o.map encOptItem)

def encSrc : Src → String
  | .arg i => "a" ++ toString i
  | .stdin => "stdin"

def encPlan : Option Plan → String
  | none => "none"
  | some p =>
    "mode=" ++ p.mode ++ " lib=" ++ (if p.v1 then "v1" else "v2") ++ " " ++ encOpts p.opts ++
    " color=" ++ (if p.color then "1" else "0") ++ " src=" ++ String.intercalate "," (p.srcs.map encSrc)

def encClass : StderrClass → String
  | .none => "none"
  | .oneLine => "oneLine"
  | .multiLine => "multiLine"
  | .usage => "usage"

def encOutcomeCli (o : Cli.Outcome) : String :=
  "exit=" ++ toString o.exit ++ " stdout=" ++ encText o.stdout ++
  " outfile=" ++ (match o.outfile with | none => "none" | some s => encText s) ++
  -- the TEXT of an error message is no part of any property and is not a deterministic function of the inputs (a
  -- multiset hunk that removes two absent elements names whichever Go's map iteration meets first): only whether
  -- there is a message is compared
  " stderr=" ++ encClass o.stderrClass ++ " msg=" ++ (if o.stderr.isEmpty then "none" else "some")

end Jd.Driver.CliOps

namespace Jd.Driver
open Jd Jd.Wire Jd.Cli Jd.Driver.CliOps

def runCli (op : String) : Option (P String) :=
  match op with
  | "cliflags" => some do
    let b ← pBinary
    pure (String.intercalate "," ((flagTable b).map (fun e => e.1 ++ ":" ++ e.2.1 ++ ":" ++ e.2.2)))
  | "cliplan" => some do
    let b ← pBinary
    let kv ← pKV
    match flagsOfKV kv with
    | some fl => pure (encPlan (planOf b fl))
    | none => failure
  | "cli" => some do
    let b ← pBinary
    let kv ← pKV
    match flagsOfKV kv, resultsOfKV kv with
    | some fl, some r => pure (encOutcomeCli (cliM b fl r))
    | _, _ => failure
  | _ => none

end Jd.Driver
