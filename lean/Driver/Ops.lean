/-
  Driver.Ops — operation table of the model driver.
-/
import Driver.Wire
import Driver.Oracles

namespace Jd.Driver
open Jd Jd.Wire

def encBool (b : Bool) : String := if b then "T" else "F"

/-- outcome of `Patch` as the code behaves, marked when a keyed-member error was swallowed
    (the reference behaviour differs: known finding KF-C08-swallow) -/
def encPatchOutcome (n : Json) (d : Diff) : String :=
  match patchAll true n d, patchAll false n d with
  | .ok r, .ok _ => "ok " ++ encNode r
  | .ok r, _ => "okswallow " ++ encNode r
  | .err, _ => "err"
  | .panic, _ => "panic"

def run (op : String) : P String :=
  match op with
  | "hash" => do
    let o ← pOpts; let n ← pNode
    pure ("h" ++ hex64 (hashCode o n))
  | "ident" => do
    let o ← pOpts; let n ← pNode
    pure ("h" ++ hex64 (identOf o n))
  | "equals" => do
    let o ← pOpts; let a ← pNode; let b ← pNode
    pure (encBool (equals o a b))
  | "diff" => do
    let o ← pOpts; let a ← pNode; let b ← pNode
    pure (encDiff (diffM o a b))
  | "patch" => do
    let n ← pNode; let d ← pDiff
    pure (encPatchOutcome n d)
  | "diffpatch" => do
    let o ← pOpts; let a ← pNode; let b ← pNode
    let d := diffM o a b
    pure (encDiff d ++ " " ++ encPatchOutcome a d)
  | "c01" => do
    let o ← pOpts; let a ← pNode; let b ← pNode
    let eq ← next
    let out ← pOutcomeNode
    pure (oracleC01 o a b (eq == "T") out)
  | "echo" => do
    let n ← pNode
    pure (encNode n)
  | "echodiff" => do
    let d ← pDiff
    pure (encDiff d)
  | _ => pure "bad-op"

end Jd.Driver
