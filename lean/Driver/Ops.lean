/-
  Driver.Ops — operation table of the model driver.
-/
import Driver.Wire
import Driver.Oracles
import Driver.OpsV1
import Driver.OpsCli
import Driver.OpsYaml

namespace Jd.Driver
open Jd Jd.Wire

def encBool (b : Bool) : String := if b then "T" else "F"

/-- outcome of `Patch` as the code behaves, marked when a keyed-member error was swallowed
    (the reference behaviour differs: known finding KF-C08-swallow) -/
def encPatchOutcome (n : Json) (d : Diff) : String :=
  match patchAll true n d, patchAll false n d with
  | .ok r, .ok _ => "ok " ++ encNode r
  | .ok r, _ => "okswallow " ++ encNode r
  | .err, _ => "err"
  | .panic, _ => "panic"

def run (op : String) : P String :=
  match op with
  | "hash" => do
    let o ← pOpts; let n ← pNode
    pure ("h" ++ hex64 (hashCode o n))
  | "ident" => do
    let o ← pOpts; let n ← pNode
    pure ("h" ++ hex64 (identOf o n))
  | "equals" => do
    let o ← pOpts; let a ← pNode; let b ← pNode
    pure (encBool (equals o a b))
  | "diff" => do
    let o ← pOpts; let a ← pNode; let b ← pNode
    pure (encDiff (diffM o a b))
  | "readdiffclass" => do
    let nc ← pNumDict; let t ← pText
    pure (match readDiffM nc t with | .ok _ => "ok" | .err => "err" | .panic => "panic")
  | "readpatchclass" => do
    let nc ← pNumDict; let t ← pText
    pure (match readPatchM nc t with | .ok _ => "ok" | .err => "err" | .panic => "panic")
  | "readmergeclass" => do
    let nc ← pNumDict; let t ← pText
    pure (match readMergeM nc t with | .ok _ => "ok" | .err => "err" | .panic => "panic")
  | "readjsonclass" => do
    let nc ← pNumDict; let t ← pText
    pure (match readJsonM nc t with | .ok _ => "ok" | .err => "err" | .panic => "panic")
  | "diffempty" => do
    let o ← pOpts; let a ← pNode; let b ← pNode
    pure (encBool (diffM o a b).isEmpty)
  | "patchpanics" => do
    let n ← pNode; let d ← pDiff
    pure (match patchAll true n d with | .panic => "panic" | _ => "nopanic")
  | "patch" => do
    let n ← pNode; let d ← pDiff
    pure (encPatchOutcome n d)
  | "diffpatch" => do
    let o ← pOpts; let a ← pNode; let b ← pNode
    let d := diffM o a b
    -- in the classes KF-C01-keytwin / KF-C01-identperm a hunk can land in another member than the one it
    -- was made for; what happens next in Go depends on maps shared between the diff and the document
    -- (Patch mutates members in place), which this functional model does not carry: only the diff is tied
    if keyTwin o (subterms a ++ subterms b) || identPerm o (subterms a ++ subterms b) then
      pure (encDiff d ++ " kfskip")
    else pure (encDiff d ++ " " ++ encPatchOutcome a d)
  | "c01" => do
    let o ← pOpts; let a ← pNode; let b ← pNode
    let eq ← next
    let out ← pOutcomeNode
    pure (oracleC01 o a b (eq == "T") out)
  | "c04" => do
    let o ← pOpts; let a ← pNode; let b ← pNode
    let e1 ← next; let e2 ← next; let e3 ← next
    pure (oracleC04 o a b (e1 == "T") (e2 == "T") (e3 == "T"))
  | "c05" => do
    let o ← pOpts; let a ← pNode; let b ← pNode
    let e1 ← next; let e2 ← next
    pure (oracleC05 o a b (e1 == "T") (e2 == "T"))
  | "c03" => do
    let c ← pNode; let d ← pDiff; let out ← pOutcomeNode
    pure (oracleC03 c d out)
  | "c08" => do
    let c ← pNode; let d ← pDiff; let out ← pOutcomeNode
    pure (oracleC08 c d out)
  | "c06" => do
    let pre ← pNat; let a ← pNode; let b ← pNode; let d ← pDiff
    pure (oracleC06 pre a b d)
  | "c07" => do
    let o ← pOpts; let a ← pNode; let b ← pNode; let d ← pDiff
    let n ← pNat
    let mut outs : List (Outcome Json) := []
    for _ in [0:n] do
      outs := outs ++ [← pOutcomeNode]
    pure (oracleC07 o a b d outs)
  | "lcs" => do
    let a ← pNode; let b ← pNode
    match a, b with
    | .arr _ xs, .arr _ ys =>
      pure (toString (lcsLength (hashList [] xs) (hashList [] ys)) ++ " " ++
        String.intercalate "," ((lcsValues (hashList [] xs) (hashList [] ys)).map hex64))
    | _, _ => pure "bad-args"
  | "json" => do
    let nc ← pNumDict; let n ← pNode
    pure (encOptText (jsonM nc n))
  | "readjson" => do
    let nc ← pNumDict; let t ← pText
    pure (encOutcome encNode (readJsonM nc t))
  | "render" => do
    let nc ← pNumDict; let o ← pOpts; let d ← pDiff
    pure (encOptText (renderM nc o d))
  | "readdiff" => do
    let nc ← pNumDict; let t ← pText
    pure (encOutcome encDiff (readDiffM nc t))
  | "renderpatch" => do
    let nc ← pNumDict; let d ← pDiff
    pure (match renderPatchM nc d with
      | .ok t => encOptText t
      | .err => "err"
      | .panic => "panic")
  | "readpatch" => do
    let nc ← pNumDict; let t ← pText
    pure (encOutcome encDiff (readPatchM nc t))
  | "rendermerge" => do
    let nc ← pNumDict; let d ← pDiff
    pure (match renderMergeM nc d with
      | .ok t => encOptText t
      | .err => "err"
      | .panic => "panic")
  | "readmergesorted" => do
    let nc ← pNumDict; let t ← pText
    pure (match readMergeM nc t with
      | .ok d =>
        let hs := (d.map encHunk).foldr (fun h acc =>
          let rec ins (h : String) : List String → List String
            | [] => [h]
            | x :: r => if h < x then h :: x :: r else x :: ins h r
          ins h acc) []
        "ok <" ++ String.join (hs.map (fun h => " " ++ h)) ++ " >"
      | .err => "err"
      | .panic => "panic")
  | "readmerge" => do
    let nc ← pNumDict; let t ← pText
    pure (encOutcome encDiff (readMergeM nc t))
  | "c09" => do
    let nc ← pNumDict; let a ← pNode; let b ← pNode; let d ← pDiff
    let txt ← pOutcomeText
    let n ← pNat
    let mut ts : List (Json × Outcome Json) := []
    for _ in [0:n] do
      let c ← pNode
      let out ← pOutcomeNode
      ts := ts ++ [(c, out)]
    pure (oracleC09 nc a b d txt ts)
  | "c10" => do
    let nc ← pNumDict; let t ← pText; let c ← pNode
    let rd ← pOutcomeDiff; let po ← pOutcomeNode
    pure (oracleC10 nc t c rd po)
  | "c11" => do
    let nc ← pNumDict; let o ← pOpts; let a ← pNode; let b ← pNode
    let txt ← pOutcomeText
    pure (oracleC11 nc o a b txt)
  | "c12" => do
    let nc ← pNumDict; let t ← pNode; let txt ← pText; let out ← pOutcomeNode
    pure (oracleC12 nc t txt out)
  | "echo" => do
    let n ← pNode
    pure (encNode n)
  | "echodiff" => do
    let d ← pDiff
    pure (encDiff d)
  | other =>
    -- op tables of the other model parts, chained
    match runV1 other with
    | some p => p
    | none =>
      match runCli other with
      | some p => p
      | none =>
        match runYaml other with
        | some p => p
        | none => pure "bad-op"

end Jd.Driver
