/-
  Driver.OpsYaml — operations of the JSON/YAML glue model (JdModel.Yaml), property C16.

  Wire encoding of Go values (`Raw`), space-separated tokens, conventions of Driver.Wire:

    raw   ms{ ("<hex> raw)* }     map[string]interface{}       (printed sorted by key token)
        | mi{ (raw raw)* }        map[interface{}]interface{}  (printed sorted by the key's encoding)
        | sl[ raw* ]              []interface{}
        | #<16 hex>               float64 bits
        | i<int> | l<int> | u<nat>   int | int64 | uint64
        | "<hex of UTF-8>         string
        | T | F | N               bool, nil
        | o<hex of type name>     any other dynamic type
        | n node                  a value that already is a JsonNode (node in the Wire encoding)

    ops   newnode <raw>           → ok node | err | oknil      (NewJsonNode)
          rawof <node>            → raw                         (raw())
          yamlize <raw>           → raw                         (contract of yaml.Unmarshal ∘ yaml.Marshal)
          yamlrt <node>           → ok node | err | oknil       (ReadYamlString(n.Yaml()) through the contract)
          jsonrt <node>           → ok node | err | oknil       (ReadJsonString(n.Json()) on Go values)
          unmarshal <T|F> <raw | err>
                                  → ok node | err | oknil       (node_read.go `unmarshal`: T = the text is
                                    blank; then what the decoder returned)
          c16contract <node> <raw | err>
                                  → ok | kf KF-C16-mergekey … | fail …   (contract oracle with the
                                    class predicate of the known finding)
-/
import Driver.Wire
import JdModel.Yaml

namespace Jd.Driver
open Jd Jd.Wire Jd.Yaml

/-- insertion sort of (sort key, payload) pairs by the key string (small lists) -/
def yamlSortByKey (l : List (String × String)) : List (String × String) :=
  let ins (x : String × String) (acc : List (String × String)) : List (String × String) :=
    let rec go : List (String × String) → List (String × String)
      | [] => [x]
      | y :: r => if x.1 < y.1 then x :: y :: r else y :: go r
    go acc
  l.foldr ins []

mutual
partial def encRaw : Raw → String
  | .mapS kvs =>
    let items := yamlSortByKey (kvs.map (fun kv => ("\"" ++ hexOfString kv.1, encRaw kv.2)))
    "ms{" ++ String.join (items.map (fun p => " " ++ p.1 ++ " " ++ p.2)) ++ " }"
  | .mapI kvs =>
    let items := yamlSortByKey (kvs.map (fun kv => (encRaw kv.1, encRaw kv.2)))
    "mi{" ++ String.join (items.map (fun p => " " ++ p.1 ++ " " ++ p.2)) ++ " }"
  | .slice xs => "sl[" ++ String.join (xs.map (fun x => " " ++ encRaw x)) ++ " ]"
  | .f64 b => "#" ++ hex64 b
  | .int i => "i" ++ toString i
  | .int64 i => "l" ++ toString i
  | .uint64 n => "u" ++ toString n
  | .str s => "\"" ++ hexOfString s
  | .bool true => "T"
  | .bool false => "F"
  | .nil => "N"
  | .other t => "o" ++ hexOfString t
  | .node j => "n " ++ encNode j
end

mutual
partial def pRaw : P Raw := do
  let t ← next
  if t == "ms{" then pure (.mapS (← pRawKvsS))
  else if t == "mi{" then pure (.mapI (← pRawKvsI))
  else if t == "sl[" then pure (.slice (← pRawsUntil "]"))
  else if t == "T" then pure (.bool true)
  else if t == "F" then pure (.bool false)
  else if t == "N" then pure .nil
  else if t == "n" then pure (.node (← pNode))
  else if t.startsWith "#" then
    match parseHex64 (sdrop t 1) with
    | some b => pure (.f64 b)
    | none => failure
  else if t.startsWith "\"" then
    match stringOfHex (sdrop t 1) with
    | some s => pure (.str s)
    | none => failure
  else if t.startsWith "i" then
    match (sdrop t 1).toInt? with
    | some i => pure (.int i)
    | none => failure
  else if t.startsWith "l" then
    match (sdrop t 1).toInt? with
    | some i => pure (.int64 i)
    | none => failure
  else if t.startsWith "u" then
    match (sdrop t 1).toNat? with
    | some n => pure (.uint64 n)
    | none => failure
  else if t.startsWith "o" then
    match stringOfHex (sdrop t 1) with
    | some s => pure (.other s)
    | none => failure
  else failure
partial def pRawsUntil (stop : String) : P (List Raw) := do
  if (← peek) == stop then
    let _ ← next
    pure []
  else
    let x ← pRaw
    let r ← pRawsUntil stop
    pure (x :: r)
partial def pRawKvsS : P (List (String × Raw)) := do
  let t ← next
  if t == "}" then pure []
  else if t.startsWith "\"" then
    match stringOfHex (sdrop t 1) with
    | some k =>
      let v ← pRaw
      let r ← pRawKvsS
      pure ((k, v) :: r)
    | none => failure
  else failure
partial def pRawKvsI : P (List (Raw × Raw)) := do
  if (← peek) == "}" then
    let _ ← next
    pure []
  else
    let k ← pRaw
    let v ← pRaw
    let r ← pRawKvsI
    pure ((k, v) :: r)
end

def encGlue : Glue Json → String
  | .ok j => "ok " ++ encNode j
  | .error .unsupported => "err"
  | .error .nilElem => "oknil"

def oracleC16Contract (n : Json) (impl : String) : String :=
  let want := encRaw (yamlize (rawM n))
  if impl == want then "ok"
  else if hasMergeKey n then
    "kf KF-C16-mergekey yaml.v2 wrote the object key << unquoted and re-read it as a merge key: got " ++ impl
  else "fail yaml.Unmarshal(yaml.Marshal(raw)) differs from the contract: want " ++ want ++ " got " ++ impl

def runYaml (op : String) : Option (P String) :=
  match op with
  | "newnode" => some do
    let r ← pRaw
    pure (encGlue (newJsonNodeM r))
  | "rawof" => some do
    let n ← pNode
    pure (encRaw (rawM n))
  | "yamlize" => some do
    let r ← pRaw
    pure (encRaw (yamlize r))
  | "yamlrt" => some do
    let n ← pNode
    pure (encGlue (yamlRoundTripM n))
  | "jsonrt" => some do
    let n ← pNode
    pure (encGlue (jsonRoundTripM n))
  | "unmarshal" => some do
    let blank ← next
    if (← peek) == "err" then
      let _ ← next
      pure (encGlue (unmarshalM (blank == "T") none))
    else
      let r ← pRaw
      pure (encGlue (unmarshalM (blank == "T") (some r)))
  | "c16contract" => some do
    let n ← pNode
    let rest ← get
    set ([] : List String)
    pure (oracleC16Contract n (String.intercalate " " rest))
  | _ => none

end Jd.Driver
