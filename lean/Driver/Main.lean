/-
  Driver.Main — the model driver: one operation per input line, one result line per operation.
  Input line:  <id> <op> <args…>      Output line: <id> <result…>
  Operations are listed in `Jd.Driver.run` (Driver/Ops.lean).
-/
import Driver.Ops

open Jd Jd.Wire Jd.Driver

partial def loop (hin : IO.FS.Stream) (hout : IO.FS.Stream) : IO Unit := do
  let line ← hin.getLine
  if line.isEmpty then return ()
  let line := (line.trimAsciiEnd).toString
  if line.isEmpty then loop hin hout else
  match line.splitOn " " with
  | id :: op :: args =>
    let res := match (run op).run args with
      | some (r, []) => r
      | some (_, _ :: _) => "bad-args trailing"
      | none => "bad-args"
    hout.putStrLn (id ++ " " ++ res)
    loop hin hout
  | _ =>
    hout.putStrLn "? bad-line"
    loop hin hout

def main : IO Unit := do
  let hin ← IO.getStdin
  let hout ← IO.getStdout
  loop hin hout
  hout.flush
