/-!
DESIGN NOTE — not framework code. Feasibility prototype referenced by DESIGN.md §7 (C01/C06) and §11.

A cut-down model of jd v2's `jsonList.diffRest` for arrays of scalars (hash = value), the reference
splice semantics of a list hunk, and the C01 main lemma:

  c <+ a → c <+ b → applyAll (pre ++ a) (diffRest |pre| pre.getLast? a b c) = some (pre ++ b)

i.e. for ANY common subsequence `c` handed to it (golcs enters only through that contract), the hunks
emitted by the cursor walk, applied in order with their before/after context checked, turn `a` into `b`.
Core Lean 4.33 only; `#print axioms` = [propext, Quot.sound]. The two #eval'd diffs were compared with
the real implementation's `Render()` output and agree hunk for hunk.
Check with: lean diffrest_prototype.lean
-/
structure Hunk where
  idx : Nat
  before : Option Nat     -- none = "[" marker
  remove : List Nat
  add : List Nat
  after : Option Nat      -- none = "]" marker
deriving Repr, DecidableEq

/-- result of one accumulation pass of the Go loop -/
structure AccR where
  R : List Nat
  A : List Nat
  a' : List Nat
  b' : List Nat
  c' : List Nat
  closed : Option Nat   -- some c: loop left through the "both at common" branch
deriving Repr

def accum : (a b c : List Nat) → (R A : List Nat) → AccR
  | [], b, c, R, A => ⟨R, A ++ b, [], [], c, none⟩
  | a, [], c, R, A => ⟨R ++ a, A, [], [], c, none⟩
  | x :: a, y :: b, [], R, A => accum a b [] (R ++ [x]) (A ++ [y])
  | x :: a, y :: b, z :: c, R, A =>
    if x = z ∧ y = z then ⟨R, A, a, b, c, some z⟩
    else if x = z then accum (x :: a) b (z :: c) R (A ++ [y])
    else if y = z then accum a (y :: b) (z :: c) (R ++ [x]) A
    else accum a b (z :: c) (R ++ [x]) (A ++ [y])
termination_by a b _ _ _ => a.length + b.length

theorem accum_len (a b c R A : List Nat) :
    (accum a b c R A).a'.length + (accum a b c R A).b'.length ≤ a.length + b.length := by
  fun_induction accum a b c R A <;> simp_all <;> omega

theorem accum_closed_lt (a b c R A : List Nat) (z : Nat) (h : (accum a b c R A).closed = some z) :
    (accum a b c R A).a'.length + (accum a b c R A).b'.length < a.length + b.length := by
  fun_induction accum a b c R A <;> simp_all <;> omega

def diffRest (k : Nat) (prev : Option Nat) (a b c : List Nat) : List Hunk :=
  let r := accum a b c [] []
  let h : List Hunk := if r.R = [] ∧ r.A = [] then [] else [⟨k, prev, r.R, r.A, r.closed⟩]
  match hc : r.closed with
  | none => h
  | some z => if r.a' = [] ∧ r.b' = [] then h else h ++ diffRest (k + r.A.length + 1) (some z) r.a' r.b' r.c'
termination_by a.length + b.length
decreasing_by exact accum_closed_lt a b c [] [] z hc

/-- reference splice semantics of one list hunk (what Go's jsonList.patch does at a leaf, with bounds checks) -/
def applyHunk (l : List Nat) (h : Hunk) : Option (List Nat) :=
  let pre := l.take h.idx
  let rest := l.drop h.idx
  if h.idx ≤ l.length ∧ pre.getLast? = h.before ∧ h.remove.isPrefixOf rest ∧ (rest.drop h.remove.length).head? = h.after
  then some (pre ++ h.add ++ rest.drop h.remove.length) else none

def applyAll (l : List Nat) : List Hunk → Option (List Nat)
  | [] => some l
  | h :: hs => (applyHunk l h).bind (applyAll · hs)

#eval diffRest 0 none [1,2,2,3] [1,2,2,2,3] [1,2,2,3]
#eval applyAll [1,2,2,3] (diffRest 0 none [1,2,2,3] [1,2,2,2,3] [1,2,2,3])
#eval diffRest 0 none [0,1,2,9,3] [7,1,8,8,2,3,4] [1,2,3]
#eval applyAll [0,1,2,9,3] (diffRest 0 none [0,1,2,9,3] [7,1,8,8,2,3,4] [1,2,3])

open List

theorem applyHunk_splice (pre R A post : List Nat) :
    applyHunk (pre ++ R ++ post) ⟨pre.length, pre.getLast?, R, A, post.head?⟩ = some (pre ++ A ++ post) := by
  simp [applyHunk, List.isPrefixOf_iff_prefix]

/-- what one accumulation pass establishes -/
def AccOK (a b R A : List Nat) (r : AccR) : Prop :=
  ∃ ra rb, r.R = R ++ ra ∧ r.A = A ++ rb ∧
    (match r.closed with
     | none => a = ra ∧ b = rb ∧ r.a' = [] ∧ r.b' = []
     | some z => a = ra ++ z :: r.a' ∧ b = rb ++ z :: r.b' ∧ r.c' <+ r.a' ∧ r.c' <+ r.b')

theorem AccOK.consA {a b R A r} (x : Nat) (h : AccOK a b (R ++ [x]) A r) : AccOK (x :: a) b R A r := by
  obtain ⟨ra, rb, h1, h2, h3⟩ := h
  refine ⟨x :: ra, rb, by simp [h1], h2, ?_⟩
  split at h3 <;> simp_all

theorem AccOK.consB {a b R A r} (y : Nat) (h : AccOK a b R (A ++ [y]) r) : AccOK a (y :: b) R A r := by
  obtain ⟨ra, rb, h1, h2, h3⟩ := h
  refine ⟨ra, y :: rb, h1, by simp [h2], ?_⟩
  split at h3 <;> simp_all

theorem sublist_of_cons_ne {z x : Nat} {c a : List Nat} (h : z :: c <+ x :: a) (hne : ¬ x = z) : z :: c <+ a := by
  cases h with
  | cons _ h => exact h
  | cons_cons _ h => exact absurd rfl hne

theorem accum_spec (a b c R A : List Nat) (hca : c <+ a) (hcb : c <+ b) :
    AccOK a b R A (accum a b c R A) := by
  fun_induction accum a b c R A
  case case1 b c R A => exact ⟨[], b, by simp⟩
  case case2 a c R A hne => exact ⟨a, [], by simp⟩
  case case3 x a y b R A ih => exact (ih (by simp) (by simp)).consB y |>.consA x
  case case4 x a y b z c R A h =>
    obtain ⟨rfl, rfl⟩ := h
    exact ⟨[], [], by simp, by simp, by simpa using ⟨cons_sublist_cons.mp hca, cons_sublist_cons.mp hcb⟩⟩
  case case5 a y b z c R A h1 ih =>
    have hy : ¬ y = z := by intro h; exact h1 ⟨rfl, h⟩
    exact (ih hca (sublist_of_cons_ne hcb hy)).consB y
  case case6 x a b z c R A h1 h2 ih =>
    exact (ih (sublist_of_cons_ne hca h1) hcb).consA x
  case case7 x a y b z c R A h0 h1 h2 ih =>
    exact (ih (sublist_of_cons_ne hca h1) (sublist_of_cons_ne hcb h2)).consB y |>.consA x

theorem applyAll_append (l : List Nat) (hs hs' : List Hunk) :
    applyAll l (hs ++ hs') = (applyAll l hs).bind (applyAll · hs') := by
  induction hs generalizing l with
  | nil => simp [applyAll]
  | cons h hs ih =>
    simp only [List.cons_append, applyAll]
    cases applyHunk l h <;> simp [ih]

/-- applying the (possibly absent) accumulated hunk -/
theorem apply_acc_hunk (pre ra rb post : List Nat) (after : Option Nat) (hafter : post.head? = after) :
    applyAll (pre ++ ra ++ post)
      (if ra = [] ∧ rb = [] then [] else [⟨pre.length, pre.getLast?, ra, rb, after⟩]) = some (pre ++ rb ++ post) := by
  split
  · next h => obtain ⟨rfl, rfl⟩ := h; simp [applyAll]
  · subst hafter
    have := applyHunk_splice pre ra rb post
    simp only [List.append_assoc] at this ⊢
    simp [applyAll, this]

theorem diffRest_correct (a b c pre : List Nat) (hca : c <+ a) (hcb : c <+ b) :
    applyAll (pre ++ a) (diffRest pre.length pre.getLast? a b c) = some (pre ++ b) := by
  induction hn : a.length + b.length using Nat.strongRecOn generalizing a b c pre with
  | _ n ih =>
    have hs := accum_spec a b c [] [] hca hcb
    have hlt := accum_closed_lt a b c [] []
    unfold diffRest
    generalize accum a b c [] [] = r at hs hlt ⊢
    obtain ⟨R, A, a', b', c', closed⟩ := r
    obtain ⟨ra, rb, hR, hA, hm⟩ := hs
    simp only [List.nil_append] at hR hA hm hlt ⊢
    subst hR hA
    cases closed with
    | none =>
      obtain ⟨rfl, rfl, -, -⟩ := hm
      have := apply_acc_hunk pre a b [] none rfl
      simpa using this
    | some z =>
      obtain ⟨rfl, rfl, hc1, hc2⟩ := hm
      have hstep := apply_acc_hunk pre R A (z :: a') (some z) rfl
      simp only [List.append_assoc] at hstep
      simp only []
      split
      · next hnil =>
        obtain ⟨rfl, rfl⟩ := hnil
        simpa using hstep
      · rw [applyAll_append, hstep]
        simp only [Option.bind_some]
        have := ih (a'.length + b'.length) (by simp only [List.length_append, List.length_cons] at hn; omega) a' b' c' (pre ++ A ++ [z]) hc1 hc2 rfl
        simpa [Nat.add_assoc] using this

#print axioms diffRest_correct
