package main

import (
	"fmt"
	jd "github.com/josephburnett/jd/v2"
)

func rd(s string) jd.JsonNode { n, _ := jd.ReadJsonString(s); return n }

func try(as, bs string, opts ...jd.Option) {
	a, b := rd(as), rd(bs)
	d := a.Diff(b, opts...)
	fmt.Printf("%s -> %s\n%s", as, bs, d.Render())
	r, err := rd(as).Patch(d)
	if err != nil { fmt.Println("  ERR", err) } else { fmt.Println("  =>", r.Json(), "equals b:", r.Equals(b, opts...)) }
}

func main() {
	try(`[{"id":[1,2],"x":1}]`, `[{"id":[1,2],"x":2}]`, jd.SetKeys("id"))
	try(`[{"id":{"k":[1,2]},"x":1}]`, `[{"id":{"k":[1,2]},"x":2}]`, jd.SetKeys("id"))
	try(`[{"id":1,"x":[1,2]}]`, `[{"id":1,"x":[2,1,3]}]`, jd.SetKeys("id"))
	try(`{"a":[{"id":1,"x":[{"id":2,"y":1}]}]}`, `{"a":[{"id":1,"x":[{"id":2,"y":2}]}]}`, jd.SetKeys("id"))
	try(`[{"id":1,"n":"a","x":1}]`, `[{"id":1,"n":"a","x":2}]`, jd.SetKeys("id", "n"))
	try(`[{"id":null,"x":1}]`, `[{"id":null,"x":2}]`, jd.SetKeys("id"))
	try(`[{"x":1}]`, `[{"x":2}]`, jd.SetKeys("id"))
	try(`[{"id":1,"x":1},{"id":1,"x":2}]`, `[{"id":1,"x":1}]`, jd.SetKeys("id"))
	// SET + SetKeys both
	try(`[{"id":1,"x":1},3]`, `[{"id":1,"x":2},4]`, jd.SET, jd.SetKeys("id"))
	try(`[{"id":1,"x":1},3]`, `[{"id":1,"x":2},4]`, jd.MULTISET, jd.SetKeys("id"))
}
