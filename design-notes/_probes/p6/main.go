package main

import (
	"encoding/json"
	"fmt"
	"math/rand"

	jd "github.com/josephburnett/jd/v2"
)

var rng = rand.New(rand.NewSource(3))

// arrays: object members all carry "id" with distinct scalar values; other members scalars/arrays
func genArr(depth int) []interface{} {
	n := rng.Intn(5)
	a := []interface{}{}
	used := map[int]bool{}
	for i := 0; i < n; i++ {
		if rng.Intn(2) == 0 {
			id := rng.Intn(5)
			if used[id] { continue }
			used[id] = true
			m := genObj(depth-1)
			m["id"] = float64(id)
			a = append(a, m)
		} else if depth > 0 && rng.Intn(4) == 0 {
			a = append(a, genArr(depth-1))
		} else {
			a = append(a, scalar())
		}
	}
	return a
}
func scalar() interface{} {
	switch rng.Intn(4) {
	case 0: return nil
	case 1: return float64(rng.Intn(3))
	case 2: return []string{"", "a", "b"}[rng.Intn(3)]
	default: return rng.Intn(2) == 0
	}
}
func genObj(depth int) map[string]interface{} {
	m := map[string]interface{}{}
	n := rng.Intn(3)
	for i := 0; i < n; i++ {
		k := []string{"x", "y", "z"}[rng.Intn(3)]
		if depth > 0 && rng.Intn(3) == 0 { m[k] = genArr(depth-1) } else if depth > 0 && rng.Intn(4) == 0 { m[k] = genObj(depth-1) } else { m[k] = scalar() }
	}
	return m
}
func mutArr(a []interface{}, depth int) []interface{} {
	out := []interface{}{}
	used := map[float64]bool{}
	for _, e := range a {
		switch rng.Intn(6) {
		case 0: continue
		case 1:
			if m, ok := e.(map[string]interface{}); ok { e = mutObj(m, depth) } else if s, ok := e.([]interface{}); ok { e = mutArr(s, depth-1) } else { e = scalar() }
		}
		if m, ok := e.(map[string]interface{}); ok { used[m["id"].(float64)] = true }
		out = append(out, e)
	}
	if rng.Intn(3) == 0 {
		id := float64(rng.Intn(6))
		if !used[id] { m := genObj(depth-1); m["id"] = id; out = append(out, m) }
	}
	if rng.Intn(3) == 0 { out = append(out, scalar()) }
	if rng.Intn(4) == 0 { rng.Shuffle(len(out), func(i, j int) { out[i], out[j] = out[j], out[i] }) }
	return out
}
func mutObj(m map[string]interface{}, depth int) map[string]interface{} {
	out := map[string]interface{}{}
	for k, v := range m {
		if k == "id" { out[k] = v; continue }
		switch rng.Intn(4) {
		case 0:
		case 1:
			if s, ok := v.([]interface{}); ok { out[k] = mutArr(s, depth-1) } else if o, ok := v.(map[string]interface{}); ok { out[k] = mutObj(o, depth-1) } else { out[k] = scalar() }
		default: out[k] = v
		}
	}
	if rng.Intn(3) == 0 { out[[]string{"x", "y", "z", "w"}[rng.Intn(4)]] = scalar() }
	return out
}
func js(v interface{}) string { b, _ := json.Marshal(v); return string(b) }
func rd(s string) jd.JsonNode  { n, _ := jd.ReadJsonString(s); return n }

func main() {
	fails := map[string]int{}; ex := map[string]string{}
	note := func(k, e string) { fails[k]++; if _, ok := ex[k]; !ok { ex[k] = e } }
	opts := []jd.Option{jd.SetKeys("id")}
	for i := 0; i < 40000; i++ {
		av := genArr(3); bv := mutArr(av, 3); as, bs := js(av), js(bv)
		func() {
			defer func() { if r := recover(); r != nil { note("panic", as+" -> "+bs+fmt.Sprint(r)) } }()
			a, b := rd(as), rd(bs)
			d := a.Diff(b, opts...)
			eq := a.Equals(b, opts...)
			if (len(d) == 0) != eq { note(fmt.Sprintf("C05 empty=%v eq=%v", len(d) == 0, eq), as+" -> "+bs+" diff:"+d.Render()) }
			r, err := rd(as).Patch(d)
			if err != nil { note("C01 err", as+" -> "+bs+" err:"+err.Error()+" diff:"+d.Render()); return }
			if !r.Equals(b, opts...) { note("C01 neq", as+" -> "+bs+" got:"+r.Json()+" diff:"+d.Render()) }
			if len(d) > 1 {
				for j := range d {
					sub := append(append(jd.Diff{}, d[:j]...), d[j+1:]...)
					sub2, err := jd.ReadDiffString(sub.Render()); if err != nil { continue }
					r, err := rd(as).Patch(sub2)
					if err == nil && r.Equals(b, opts...) { note("C07 redundant", as+" -> "+bs+" diff:"+d.Render()+fmt.Sprintf(" drop %d", j)) }
				}
			}
		}()
	}
	fmt.Println(fails)
	for k, v := range ex { fmt.Printf("  %s: %s\n", k, v) }
}
