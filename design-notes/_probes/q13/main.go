package main

// C11 under SET+MERGE / MULTISET+MERGE, and v1 Setkeys (C17) inside its precondition.
import (
	"encoding/json"
	"fmt"
	"math/rand"

	v1 "github.com/josephburnett/jd/lib"
	jd "github.com/josephburnett/jd/v2"
)

var rng = rand.New(rand.NewSource(31337))

func gen(depth int) interface{} {
	k := rng.Intn(10)
	if depth <= 0 && k >= 5 { k = rng.Intn(5) }
	switch k {
	case 0, 1, 2: return float64(rng.Intn(3))
	case 3: return []string{"p", "a", "b"}[rng.Intn(3)]
	case 4: return rng.Intn(2) == 0
	case 5, 6, 7:
		n := rng.Intn(5); a := make([]interface{}, n)
		for i := range a { a[i] = gen(depth - 1) }
		return a
	default:
		n := rng.Intn(3); m := map[string]interface{}{}
		for i := 0; i < n; i++ { m[[]string{"x", "y", "z"}[rng.Intn(3)]] = gen(depth - 1) }
		return m
	}
}
func mutate(v interface{}) interface{} {
	if rng.Intn(6) == 0 { return gen(2) }
	switch t := v.(type) {
	case []interface{}:
		out := []interface{}{}
		for _, e := range t { switch rng.Intn(6) { case 0: ; case 1: out = append(out, mutate(e)); case 2: out = append(out, e, e); default: out = append(out, e) } }
		if rng.Intn(4) == 0 { out = append(out, gen(1)) }
		if rng.Intn(3) == 0 { rng.Shuffle(len(out), func(i, j int) { out[i], out[j] = out[j], out[i] }) }
		return out
	case map[string]interface{}:
		out := map[string]interface{}{}
		for k, e := range t { switch rng.Intn(5) { case 0: ; case 1: out[k] = mutate(e); default: out[k] = e } }
		if rng.Intn(4) == 0 { out[[]string{"x", "y", "z", "w"}[rng.Intn(4)]] = gen(1) }
		return out
	}
	return v
}
func js(v interface{}) string { b, _ := json.Marshal(v); return string(b) }
func merge7386(target, patch interface{}) interface{} {
	pm, ok := patch.(map[string]interface{})
	if !ok { return patch }
	tm, ok := target.(map[string]interface{})
	out := map[string]interface{}{}
	if ok { for k, v := range tm { out[k] = v } }
	for k, v := range pm { if v == nil { delete(out, k) } else { out[k] = merge7386(out[k], v) } }
	return out
}

func main() {
	cls := map[string]int{}; ex := map[string]string{}
	note := func(k, e string) { cls[k]++; if _, ok := ex[k]; !ok { ex[k] = e } }
	for _, c := range []struct{ name string; o []jd.Option }{{"set+merge", []jd.Option{jd.SET, jd.MERGE}}, {"mset+merge", []jd.Option{jd.MULTISET, jd.MERGE}}} {
		n := 0
		for it := 0; it < 30000; it++ {
			av := gen(3); bv := mutate(av); as, bs := js(av), js(bv)
			a, _ := jd.ReadJsonString(as); b, _ := jd.ReadJsonString(bs)
			if a.Equals(b, c.o...) { continue }
			n++
			d := a.Diff(b, c.o...)
			m, err := d.RenderMerge()
			if err != nil { note(c.name+" render err", as+" -> "+bs); continue }
			var mi interface{}; json.Unmarshal([]byte(m), &mi)
			r, _ := jd.ReadJsonString(js(merge7386(av, mi)))
			if !r.Equals(b, c.o...) { note(c.name+" C11 ref result not Equal b", as+" -> "+bs+" merge:"+m+" got:"+r.Json()) }
		}
		fmt.Println(c.name, "unequal pairs:", n)
	}
	// v1 setkeys inside precondition: arrays of objects with unique ids + scalars
	for it := 0; it < 30000; it++ {
		mk := func() []interface{} {
			n := rng.Intn(5); out := []interface{}{}; used := map[int]bool{}
			for i := 0; i < n; i++ {
				if rng.Intn(3) == 0 { out = append(out, float64(rng.Intn(3))); continue }
				id := rng.Intn(6); if used[id] { continue }; used[id] = true
				m := map[string]interface{}{"id": float64(id)}
				if rng.Intn(2) == 0 { m["x"] = float64(rng.Intn(3)) }
				if rng.Intn(3) == 0 { m["y"] = []interface{}{float64(rng.Intn(2))} }
				out = append(out, m)
			}
			return out
		}
		av := mk(); bv := mk(); as, bs := js(av), js(bv)
		md := []v1.Metadata{v1.Setkeys("id")}
		func() {
			defer func() { if r := recover(); r != nil { note("v1 setkeys panic", as+" -> "+bs+fmt.Sprint(r)) } }()
			a, _ := v1.ReadJsonString(as); b, _ := v1.ReadJsonString(bs)
			d := a.Diff(b, md...)
			if (len(d) == 0) != a.Equals(b, md...) { note("v1 setkeys empty-iff-eq", as+" -> "+bs+" "+d.Render()) }
			a1, _ := v1.ReadJsonString(as)
			r, err := a1.Patch(d)
			if err != nil { note("v1 setkeys direct err", as+" -> "+bs+" "+d.Render()+err.Error()); return }
			if !r.Equals(b, md...) { note("v1 setkeys direct neq", as+" -> "+bs+" "+d.Render()+" got:"+r.Json()) }
			d2, err := v1.ReadDiffString(d.Render())
			if err != nil { note("v1 setkeys reread", d.Render()); return }
			a2, _ := v1.ReadJsonString(as)
			r, err = a2.Patch(d2)
			if err != nil { note("v1 setkeys text err", as+" -> "+bs+" "+d.Render()+err.Error()); return }
			if !r.Equals(b, md...) { note("v1 setkeys text neq", as+" -> "+bs+" "+d.Render()+" got:"+r.Json()) }
		}()
	}
	fmt.Println(cls)
	for k, v := range ex { fmt.Printf("  %s: %s\n", k, v) }
}
