package main

// C15 probe: histories of read-only calls on the same values; snapshot everything after each call.
import (
	"encoding/json"
	"fmt"
	"math/rand"
	"strings"

	jd "github.com/josephburnett/jd/v2"
)

var rng = rand.New(rand.NewSource(123))

func gen(depth int, nullFree bool) interface{} {
	k := rng.Intn(10)
	if depth <= 0 && k >= 5 { k = rng.Intn(5) }
	switch k {
	case 0: if nullFree { return 7.0 }; return nil
	case 1, 2: return float64(rng.Intn(3))
	case 3: return []string{"", "a", "b"}[rng.Intn(3)]
	case 4: return rng.Intn(2) == 0
	case 5, 6:
		n := rng.Intn(5); a := make([]interface{}, n)
		for i := range a { a[i] = gen(depth-1, nullFree) }
		return a
	default:
		n := rng.Intn(4); m := map[string]interface{}{}
		for i := 0; i < n; i++ { m[[]string{"x", "y", "z", "w"}[rng.Intn(4)]] = gen(depth-1, nullFree) }
		return m
	}
}
func mutate(v interface{}, nf bool) interface{} {
	if rng.Intn(6) == 0 { return gen(2, nf) }
	switch t := v.(type) {
	case []interface{}:
		out := []interface{}{}
		for _, e := range t {
			switch rng.Intn(6) {
			case 0:
			case 1: out = append(out, mutate(e, nf))
			case 2: out = append(out, e, gen(1, nf), gen(1, nf))
			default: out = append(out, e)
			}
		}
		if rng.Intn(3) == 0 { out = append(out, gen(1, nf), gen(1, nf)) }
		return out
	case map[string]interface{}:
		out := map[string]interface{}{}
		for k, e := range t {
			switch rng.Intn(5) {
			case 0:
			case 1: out[k] = mutate(e, nf)
			default: out[k] = e
			}
		}
		return out
	}
	return v
}
func js(v interface{}) string { b, _ := json.Marshal(v); return string(b) }
func rd(s string) jd.JsonNode  { n, _ := jd.ReadJsonString(s); return n }
func dump(d jd.Diff) string {
	var b strings.Builder
	for _, e := range d {
		fmt.Fprintf(&b, "{m=%v p=%s", e.Metadata.Merge, e.Path.JsonNode().Json())
		for _, part := range [][]jd.JsonNode{e.Before, e.Remove, e.Add, e.After} {
			b.WriteString(" [")
			for _, x := range part { fmt.Fprintf(&b, "%T:%s,", x, func() string { bs, _ := json.Marshal(x); return string(bs) }()) }
			b.WriteString("]")
		}
		b.WriteString("}")
	}
	return b.String()
}

func main() {
	cls := map[string]int{}; ex := map[string]string{}
	note := func(k, e string) { cls[k]++; if _, ok := ex[k]; !ok { ex[k] = e } }
	names := []string{"Render", "RenderColor", "RenderPatch", "RenderMerge", "Json", "Yaml", "Equals", "Diff"}
	for it := 0; it < 20000; it++ {
		merge := rng.Intn(3) == 0
		var opts []jd.Option
		if merge { opts = append(opts, jd.MERGE) } else { switch rng.Intn(3) { case 1: opts = append(opts, jd.SET); case 2: opts = append(opts, jd.MULTISET) } }
		av := gen(3, merge); bv := mutate(av, merge)
		a, b := rd(js(av)), rd(js(bv))
		d := a.Diff(b, opts...)
		snapA, snapB, snapD := a.Json(), b.Json(), dump(d)
		firstOut := map[string]string{}
		hist := []string{}
		for step := 0; step < 5; step++ {
			c := names[rng.Intn(len(names))]
			hist = append(hist, c)
			var out string
			func() {
				defer func() { if r := recover(); r != nil { out = fmt.Sprint("PANIC ", r) } }()
				switch c {
				case "Render": out = d.Render()
				case "RenderColor": out = d.Render(jd.COLOR)
				case "RenderPatch": s, err := d.RenderPatch(); out = s + fmt.Sprint(err)
				case "RenderMerge": s, err := d.RenderMerge(); out = s + fmt.Sprint(err)
				case "Json": out = a.Json() + b.Json()
				case "Yaml": out = a.Yaml() + b.Yaml()
				case "Equals": out = fmt.Sprint(a.Equals(b, opts...), b.Equals(a, opts...))
				case "Diff": out = dump(a.Diff(b, opts...))
				}
			}()
			if prev, ok := firstOut[c]; ok && prev != out { note("output changed on repeat: "+c, strings.Join(hist, ",")+" | "+js(av)+" -> "+js(bv)+fmt.Sprint(opts)+" | "+prev+" VS "+out) }
			firstOut[c] = out
			if a.Json() != snapA { note("a mutated by "+c, js(av)+" -> "+js(bv)) ; snapA = a.Json() }
			if b.Json() != snapB { note("b mutated by "+c, js(av)+" -> "+js(bv)) ; snapB = b.Json() }
			if dd := dump(d); dd != snapD { note("diff mutated by "+c, js(av)+" -> "+js(bv)+fmt.Sprint(opts)+" | "+snapD+" => "+dd); snapD = dd }
		}
		// patch after renderings
		r, err := rd(js(av)).Patch(d)
		if err != nil { note("patch after history: err", strings.Join(hist, ",")+" | "+js(av)+" -> "+js(bv)+fmt.Sprint(opts)+" "+err.Error()) } else if !r.Equals(b, opts...) { note("patch after history: wrong", strings.Join(hist, ",")+" | "+js(av)+" -> "+js(bv)+fmt.Sprint(opts)+" got "+r.Json()) }
	}
	fmt.Println(cls)
	for k, v := range ex { fmt.Printf("  %s: %s\n", k, v) }
}
