package fz

import (
	"testing"

	jd "github.com/josephburnett/jd/v2"
)

var docs = []string{`[1,[2,null],"b"]`, `{"a":[1,2,3],"b":{"c":[{"id":1,"x":1}]}}`, `1`, ``, `[]`, `{}`}

func use(d jd.Diff) {
	_ = d.Render()
	_, _ = d.RenderPatch()
	_, _ = d.RenderMerge()
	for _, s := range docs {
		n, _ := jd.ReadJsonString(s)
		r, err := n.Patch(d)
		if err == nil && r != nil {
			_ = r.Json()
			_ = r.Yaml()
		}
	}
}

func FuzzDiff(f *testing.F) {
	f.Add("@ [0]\n[\n- 1\n+ 2\n  3\n")
	f.Add("^ {\"Merge\":true}\n@ [\"a\"]\n+\n")
	f.Add("@ [{\"id\":1},\"x\"]\n- 1\n+ 2\n@ [{}]\n- 1\n+ 2\n")
	f.Fuzz(func(t *testing.T, s string) {
		d, err := jd.ReadDiffString(s)
		if err == nil { use(d) }
	})
}
func FuzzPatch(f *testing.F) {
	f.Add(`[{"op":"test","path":"/0","value":1},{"op":"test","path":"/2","value":3},{"op":"test","path":"/1","value":2},{"op":"remove","path":"/1","value":2},{"op":"add","path":"/1","value":5}]`)
	f.Fuzz(func(t *testing.T, s string) {
		d, err := jd.ReadPatchString(s)
		if err == nil { use(d) }
	})
}
func FuzzMerge(f *testing.F) {
	f.Add(`{"a":{"b":null,"c":{}},"d":[1]}`)
	f.Fuzz(func(t *testing.T, s string) {
		d, err := jd.ReadMergeString(s)
		if err == nil { use(d) }
	})
}
func FuzzYaml(f *testing.F) {
	f.Add("a: 1\nb: [1, 2]\n")
	f.Add("a: .inf\n")
	f.Fuzz(func(t *testing.T, s string) {
		n, err := jd.ReadYamlString(s)
		if err == nil && n != nil { _ = n.Json(); _ = n.Yaml(); _ = n.Diff(n) }
	})
}
