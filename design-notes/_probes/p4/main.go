package main

import (
	"encoding/json"
	"fmt"
	"math/rand"
	"strings"

	v1 "github.com/josephburnett/jd/lib"
	jd "github.com/josephburnett/jd/v2"
)

var rng = rand.New(rand.NewSource(11))

var strs = []string{"", "a", "true", "1", "1e3", "~", "null", "- x", "a: b", "#", "line1\nline2", "é", "😀", "0x1F", "yes", "no", "on", "y", "n", "<<", "1_000", "2001-12-14", "1:30", ".5", "+1", " lead", "trail ", "\t", "a\u0000b", "\u0085", " ", "'", "\"", "\\", "[x]", "{x}", "*a", "&a", "!t", "%", "@", "`", "|", ">", "?", "-", "---", "...", "=", "0o7", "07", "1e", ".inf", ".nan", "-.inf", "NaN", "Null", "~x", "a #b", "a\rb", "\ufeff", "\u001b[0m", "0.0", "-0", "1.", "1e400"}
var nums = []float64{0, 1, -1, 0.5, 1e21, 1e-7, 123456789012, 1e15, 1e16, 1.5e300, 9007199254740993, 3.14159, -0.0, 1e19, 18446744073709551615, 9223372036854775807, 9223372036854775808}

func gen(depth int, nullFree bool) interface{} {
	k := rng.Intn(10)
	if depth <= 0 && k >= 6 {
		k = rng.Intn(6)
	}
	switch k {
	case 0:
		if nullFree { return 1.0 }
		return nil
	case 1, 2:
		return nums[rng.Intn(len(nums))]
	case 3, 5:
		return strs[rng.Intn(len(strs))]
	case 4:
		return rng.Intn(2) == 0
	case 6, 7:
		n := rng.Intn(4)
		a := make([]interface{}, n)
		for i := range a { a[i] = gen(depth-1, nullFree) }
		return a
	default:
		n := rng.Intn(4)
		m := map[string]interface{}{}
		for i := 0; i < n; i++ { m[strs[rng.Intn(len(strs))]] = gen(depth-1, nullFree) }
		return m
	}
}
func js(v interface{}) string { b, _ := json.Marshal(v); return string(b) }

func main() {
	fails := map[string]int{}
	ex := map[string]string{}
	note := func(k, e string) { fails[k]++; if _, ok := ex[k]; !ok { ex[k] = e } }
	for i := 0; i < 30000; i++ {
		v := gen(2, false)
		s := js(v)
		func() {
			defer func() { if r := recover(); r != nil { note("panic "+fmt.Sprint(r), s) } }()
			n, err := jd.ReadJsonString(s)
			if err != nil { note("json read err", s); return }
			y := n.Yaml()
			n2, err := jd.ReadYamlString(y)
			if err != nil { note("C16 yaml reread err "+strings.SplitN(err.Error(), ":", 2)[0], s+" yaml:"+fmt.Sprintf("%q", y)); return }
			if !n2.Equals(n) { note("C16 yaml roundtrip neq", s+" yaml:"+fmt.Sprintf("%q", y)+" got:"+n2.Json()) }
			// JSON text is also YAML?
			n3, err := jd.ReadYamlString(s)
			if err != nil { note("C16 json-as-yaml err", s+" "+err.Error()); return }
			if !n3.Equals(n) { note("C16 json-as-yaml neq", s+" got:"+n3.Json()) }
			n4, err := jd.ReadJsonString(n.Json())
			if err != nil || !n4.Equals(n) { note("C16 json roundtrip", s) }
		}()
	}
	// v1 C17
	type cfg struct{ name string; md []v1.Metadata; nullFree bool }
	for _, c := range []cfg{{"list", nil, false}, {"set", []v1.Metadata{v1.SET}, false}, {"mset", []v1.Metadata{v1.MULTISET}, false}, {"merge", []v1.Metadata{v1.MERGE}, true}} {
		for i := 0; i < 20000; i++ {
			av := gen2(3, c.nullFree); bv := mut2(av, c.nullFree)
			as, bs := js(av), js(bv)
			func() {
				defer func() { if r := recover(); r != nil { note("v1 "+c.name+" panic "+strings.SplitN(fmt.Sprint(r), "[", 2)[0], as+" -> "+bs) } }()
				a, _ := v1.ReadJsonString(as); b, _ := v1.ReadJsonString(bs)
				d := a.Diff(b, c.md...)
				eq := a.Equals(b, c.md...)
				if (len(d) == 0) != eq { note("C17 "+c.name+" empty-iff-eq", as+" -> "+bs+" diff:"+d.Render()) }
				txt := d.Render()
				a1, _ := v1.ReadJsonString(as)
				r, err := a1.Patch(d)
				if err != nil { note("C17 "+c.name+" direct err", as+" -> "+bs+" diff:"+txt+" err:"+err.Error()) } else if !r.Equals(b, c.md...) { note("C17 "+c.name+" direct neq", as+" -> "+bs+" diff:"+txt+" got:"+r.Json()) }
				d2, err := v1.ReadDiffString(txt)
				if err != nil { note("C17 "+c.name+" reread err", txt); return }
				a2, _ := v1.ReadJsonString(as)
				r, err = a2.Patch(d2)
				if err != nil { note("C17 "+c.name+" text err", as+" -> "+bs+" diff:"+txt+" err:"+err.Error()) } else if !r.Equals(b, c.md...) { note("C17 "+c.name+" text neq", as+" -> "+bs+" diff:"+txt+" got:"+r.Json()) }
			}()
		}
	}
	for k, v := range fails { fmt.Printf("%6d %s\n       e.g. %s\n", v, k, ex[k]) }
}

func gen2(depth int, nullFree bool) interface{} {
	k := rng.Intn(10)
	if depth <= 0 && k >= 6 { k = rng.Intn(6) }
	switch k {
	case 0:
		if nullFree { return 1.0 }
		return nil
	case 1, 2, 5: return float64(rng.Intn(3))
	case 3: return []string{"", "a", "b"}[rng.Intn(3)]
	case 4: return rng.Intn(2) == 0
	case 6, 7:
		n := rng.Intn(5); a := make([]interface{}, n)
		for i := range a { a[i] = gen2(depth-1, nullFree) }
		return a
	default:
		n := rng.Intn(4); m := map[string]interface{}{}
		for i := 0; i < n; i++ { m[[]string{"x", "y", "z", "1"}[rng.Intn(4)]] = gen2(depth-1, nullFree) }
		return m
	}
}
func mut2(v interface{}, nullFree bool) interface{} {
	if rng.Intn(5) == 0 { return gen2(2, nullFree) }
	switch t := v.(type) {
	case []interface{}:
		out := []interface{}{}
		for _, e := range t {
			switch rng.Intn(6) {
			case 0:
			case 1: out = append(out, mut2(e, nullFree))
			case 2: out = append(out, e, gen2(1, nullFree))
			default: out = append(out, e)
			}
		}
		if rng.Intn(4) == 0 { out = append(out, gen2(1, nullFree)) }
		return out
	case map[string]interface{}:
		out := map[string]interface{}{}
		for k, e := range t {
			switch rng.Intn(5) {
			case 0:
			case 1: out[k] = mut2(e, nullFree)
			default: out[k] = e
			}
		}
		if rng.Intn(4) == 0 { out[[]string{"x", "y", "z", "w"}[rng.Intn(4)]] = gen2(1, nullFree) }
		return out
	}
	return v
}
