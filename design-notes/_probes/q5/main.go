package main

// C10 probe: variations of jd's own JSON Patch output, jd read+apply vs reference RFC 6902 evaluation.
import (
	"encoding/json"
	"fmt"
	"math/rand"
	"reflect"
	"strconv"
	"strings"

	jd "github.com/josephburnett/jd/v2"
)

var rng = rand.New(rand.NewSource(4242))
var _ = reflect.DeepEqual
var _ = strconv.Atoi

func gen(depth int) interface{} {
	k := rng.Intn(10)
	if depth <= 0 && k >= 5 { k = rng.Intn(5) }
	switch k {
	case 0: return nil
	case 1, 2: return float64(rng.Intn(3))
	case 3: return []string{"", "a", "b"}[rng.Intn(3)]
	case 4: return rng.Intn(2) == 0
	case 5, 6, 7:
		n := rng.Intn(5); a := make([]interface{}, n)
		for i := range a { a[i] = gen(depth - 1) }
		return a
	default:
		n := rng.Intn(3); m := map[string]interface{}{}
		for i := 0; i < n; i++ { m[[]string{"x", "y", "z"}[rng.Intn(3)]] = gen(depth - 1) }
		return m
	}
}
func mutate(v interface{}, p int) interface{} {
	if rng.Intn(p) == 0 { return gen(2) }
	switch t := v.(type) {
	case []interface{}:
		out := []interface{}{}
		for _, e := range t {
			switch rng.Intn(6) {
			case 0:
			case 1: out = append(out, mutate(e, p))
			case 2: out = append(out, e, gen(1))
			default: out = append(out, e)
			}
		}
		if rng.Intn(4) == 0 { out = append(out, gen(1)) }
		return out
	case map[string]interface{}:
		out := map[string]interface{}{}
		for k, e := range t {
			switch rng.Intn(5) {
			case 0:
			case 1: out[k] = mutate(e, p)
			default: out[k] = e
			}
		}
		return out
	}
	return v
}
func js(v interface{}) string { b, _ := json.Marshal(v); return string(b) }
func rd(s string) jd.JsonNode  { n, _ := jd.ReadJsonString(s); return n }

type op = map[string]interface{}

func lastTok(p string) (string, string) { i := strings.LastIndex(p, "/"); if i < 0 { return "", "\x00" }; return p[:i], p[i+1:] }

func main() {
	cls := map[string]int{}; ex := map[string]string{}
	note := func(k, e string) { cls[k]++; if _, ok := ex[k]; !ok { ex[k] = e } }
	both, jdOnlyRej, neither := 0, 0, 0
	for it := 0; it < 250000; it++ {
		av := gen(3); bv := mutate(av, 6)
		a, b := rd(js(av)), rd(js(bv))
		d := a.Diff(b)
		if len(d) == 0 { continue }
		// per-hunk op groups
		var groups [][]op
		okr := true
		for _, h := range d {
			s, err := jd.Diff{h}.RenderPatch()
			if err != nil { okr = false; break }
			var g []op
			json.Unmarshal([]byte(s), &g)
			groups = append(groups, g)
		}
		if !okr { continue }
		// re-diff since RenderPatch mutates (D11) -- groups already captured
		varName := "none"
		switch rng.Intn(6) {
		case 0: // drop a hunk
			if len(groups) > 1 { i := rng.Intn(len(groups)); groups = append(groups[:i:i], groups[i+1:]...); varName = "drophunk" }
		case 1: // drop context tests of one hunk: tests not followed by remove with same path
			i := rng.Intn(len(groups)); g := groups[i]; var ng []op
			for j, o := range g {
				if o["op"] == "test" && !(j+1 < len(g) && g[j+1]["op"] == "remove" && g[j+1]["path"] == o["path"]) { if rng.Intn(2) == 0 { continue } }
				ng = append(ng, o)
			}
			groups[i] = ng; varName = "dropctx"
		case 2: // shift all array indices of one hunk consistently
			i := rng.Intn(len(groups)); delta := rng.Intn(3) - 1; if delta == 0 { delta = 1 }
			ok := true; var ng []op
			for _, o := range groups[i] {
				pre, tok := lastTok(o["path"].(string)+"")
				n, err := strconv.Atoi(tok)
				if o["path"].(string) == "" || err != nil || n+delta < 0 { ok = false; break }
				c := op{}; for k, v := range o { c[k] = v }; c["path"] = pre + "/" + strconv.Itoa(n+delta); ng = append(ng, c)
			}
			if ok { groups[i] = ng; varName = "shift" }
		case 3: // change value in a matching test/remove pair
			i := rng.Intn(len(groups)); g := groups[i]
			for j := 0; j+1 < len(g); j++ {
				if g[j]["op"] == "test" && g[j+1]["op"] == "remove" && g[j]["path"] == g[j+1]["path"] {
					v := gen(1); c1 := op{}; c2 := op{}; for k, x := range g[j] { c1[k] = x }; for k, x := range g[j+1] { c2[k] = x }
					c1["value"] = v; c2["value"] = v; g[j] = c1; g[j+1] = c2; varName = "chgval"; break
				}
			}
		case 4: // '-' append: replace last add path index by -
			i := rng.Intn(len(groups)); g := groups[i]
			if len(g) == 1 && g[0]["op"] == "add" { pre, tok := lastTok(g[0]["path"].(string) + ""); if _, err := strconv.Atoi(tok); err == nil && g[0]["path"] != "" { c := op{}; for k, x := range g[0] { c[k] = x }; c["path"] = pre + "/-"; g[0] = c; varName = "dash" } }
		}
		var ops []op
		for _, g := range groups { ops = append(ops, g...) }
		if len(ops) == 0 { continue }
		ptxt := js(ops)
		// target
		var cv interface{}
		switch rng.Intn(3) { case 0: cv = av; case 1: cv = bv; default: cv = mutate(av, 12) }
		var ci interface{}; json.Unmarshal([]byte(js(cv)), &ci)
		want, werr := apply6902(ci, ptxt)
		d2, rerr := jd.ReadPatchString(ptxt)
		if rerr != nil { if werr == nil { jdOnlyRej++ } else { neither++ }; cls["jd-read-reject/"+varName]++; continue }
		var got jd.JsonNode; var gerr error
		func() { defer func() { if r := recover(); r != nil { gerr = fmt.Errorf("PANIC %v", r) } }(); got, gerr = rd(js(cv)).Patch(d2); if gerr == nil { _ = got.Json() } }()
		if gerr != nil && strings.HasPrefix(gerr.Error(), "PANIC") { note("panic/"+varName, js(cv)+" <- "+ptxt+" "+gerr.Error()); continue }
		switch {
		case gerr == nil && werr == nil:
			both++
			w := ""; if _, ab := want.(absent); !ab { w = js(want) }
			if got.Json() != w { note("DIFFERENT RESULT/"+varName, js(cv)+" <- "+ptxt+" jd:"+got.Json()+" rfc:"+w) }
		case gerr == nil && werr != nil:
			note("JD MORE PERMISSIVE/"+varName+" ("+strings.SplitN(werr.Error(), " at", 2)[0]+")", js(cv)+" <- "+ptxt+" jd:"+got.Json())
		case gerr != nil && werr == nil: jdOnlyRej++
		default: neither++
		}
	}
	fmt.Println("both apply:", both, "jd stricter:", jdOnlyRej, "both reject:", neither)
	for k, v := range cls { fmt.Printf("%6d %s\n", v, k); if e, ok := ex[k]; ok { fmt.Printf("       e.g. %s\n", e) } }
}
// ---- reference RFC 6902 (test/remove/add/replace) over interface{} with "absent" root
type absent struct{}

func ptrTokens(p string) ([]string, error) {
	if p == "" {
		return nil, nil
	}
	if p[0] != '/' {
		return nil, fmt.Errorf("bad pointer")
	}
	parts := strings.Split(p[1:], "/")
	for i, s := range parts {
		s = strings.ReplaceAll(s, "~1", "/")
		s = strings.ReplaceAll(s, "~0", "~")
		parts[i] = s
	}
	return parts, nil
}

func arrIdx(tok string, n int, allowEnd bool) (int, error) {
	if tok == "-" {
		if allowEnd {
			return n, nil
		}
		return 0, fmt.Errorf("- not allowed")
	}
	if tok == "" || (len(tok) > 1 && tok[0] == '0') {
		return 0, fmt.Errorf("bad index")
	}
	for _, c := range tok {
		if c < '0' || c > '9' {
			return 0, fmt.Errorf("bad index")
		}
	}
	i, err := strconv.Atoi(tok)
	if err != nil {
		return 0, err
	}
	if i > n || (!allowEnd && i >= n) {
		return 0, fmt.Errorf("oob")
	}
	return i, nil
}

func get(doc interface{}, toks []string) (interface{}, error) {
	if _, ok := doc.(absent); ok {
		return nil, fmt.Errorf("absent")
	}
	if len(toks) == 0 {
		return doc, nil
	}
	switch t := doc.(type) {
	case map[string]interface{}:
		v, ok := t[toks[0]]
		if !ok {
			return nil, fmt.Errorf("missing key")
		}
		return get(v, toks[1:])
	case []interface{}:
		i, err := arrIdx(toks[0], len(t), false)
		if err != nil {
			return nil, err
		}
		return get(t[i], toks[1:])
	}
	return nil, fmt.Errorf("not container")
}

func add(doc interface{}, toks []string, v interface{}) (interface{}, error) {
	if len(toks) == 0 {
		return v, nil
	}
	switch t := doc.(type) {
	case map[string]interface{}:
		out := map[string]interface{}{}
		for k, e := range t {
			out[k] = e
		}
		if len(toks) == 1 {
			out[toks[0]] = v
			return out, nil
		}
		c, ok := t[toks[0]]
		if !ok {
			return nil, fmt.Errorf("missing parent")
		}
		n, err := add(c, toks[1:], v)
		if err != nil {
			return nil, err
		}
		out[toks[0]] = n
		return out, nil
	case []interface{}:
		if len(toks) == 1 {
			i, err := arrIdx(toks[0], len(t), true)
			if err != nil {
				return nil, err
			}
			out := append([]interface{}{}, t[:i]...)
			out = append(out, v)
			out = append(out, t[i:]...)
			return out, nil
		}
		i, err := arrIdx(toks[0], len(t), false)
		if err != nil {
			return nil, err
		}
		n, err := add(t[i], toks[1:], v)
		if err != nil {
			return nil, err
		}
		out := append([]interface{}{}, t...)
		out[i] = n
		return out, nil
	}
	return nil, fmt.Errorf("not container")
}

func remove(doc interface{}, toks []string) (interface{}, error) {
	if _, ok := doc.(absent); ok {
		return nil, fmt.Errorf("absent")
	}
	if len(toks) == 0 {
		return absent{}, nil
	}
	switch t := doc.(type) {
	case map[string]interface{}:
		c, ok := t[toks[0]]
		if !ok {
			return nil, fmt.Errorf("missing")
		}
		out := map[string]interface{}{}
		for k, e := range t {
			out[k] = e
		}
		if len(toks) == 1 {
			delete(out, toks[0])
			return out, nil
		}
		n, err := remove(c, toks[1:])
		if err != nil {
			return nil, err
		}
		out[toks[0]] = n
		return out, nil
	case []interface{}:
		i, err := arrIdx(toks[0], len(t), false)
		if err != nil {
			return nil, err
		}
		if len(toks) == 1 {
			out := append([]interface{}{}, t[:i]...)
			return append(out, t[i+1:]...), nil
		}
		n, err := remove(t[i], toks[1:])
		if err != nil {
			return nil, err
		}
		out := append([]interface{}{}, t...)
		out[i] = n
		return out, nil
	}
	return nil, fmt.Errorf("not container")
}

func apply6902(doc interface{}, patch string) (interface{}, error) {
	var ops []map[string]interface{}
	if err := json.Unmarshal([]byte(patch), &ops); err != nil {
		return nil, err
	}
	for _, op := range ops {
		p, _ := op["path"].(string)
		toks, err := ptrTokens(p)
		if err != nil {
			return nil, err
		}
		switch op["op"] {
		case "test":
			v, err := get(doc, toks)
			if err != nil {
				return nil, fmt.Errorf("test: %v", err)
			}
			if !reflect.DeepEqual(v, op["value"]) {
				return nil, fmt.Errorf("test failed at %s", p)
			}
		case "remove":
			doc, err = remove(doc, toks)
			if err != nil {
				return nil, fmt.Errorf("remove: %v", err)
			}
		case "add":
			if _, ok := doc.(absent); ok && len(toks) > 0 {
				return nil, fmt.Errorf("add to absent")
			}
			doc, err = add(doc, toks, op["value"])
			if err != nil {
				return nil, fmt.Errorf("add: %v", err)
			}
		default:
			return nil, fmt.Errorf("op %v", op["op"])
		}
	}
	return doc, nil
}

