package main

import (
	"fmt"
	jd "github.com/josephburnett/jd/v2"
)

func try(name string, f func()) {
	defer func() {
		if r := recover(); r != nil {
			fmt.Printf("[%s] PANIC: %v\n", name, r)
		}
	}()
	f()
}

func rj(s string) jd.JsonNode { n, err := jd.ReadJsonString(s); if err != nil { panic(err) }; return n }

func patchText(name, doc, diff string) {
	try(name, func() {
		d, err := jd.ReadDiffString(diff)
		if err != nil { fmt.Printf("[%s] read err: %v\n", name, err); return }
		r, err := rj(doc).Patch(d)
		if err != nil { fmt.Printf("[%s] patch err: %v\n", name, err); return }
		fmt.Printf("[%s] result: %s\n", name, r.Json())
	})
}

func main() {
	// C13 candidates
	patchText("idx-beyond-add", `[1]`, "@ [5]\n+ 2\n")
	patchText("idx-beyond-before", `[1]`, "@ [5]\n  1\n+ 2\n")
	patchText("neg-idx-remove", `[1]`, "@ [-2]\n- 1\n")
	patchText("neg-idx-recursive", `[{"a":1}]`, "@ [-1,\"a\"]\n- 1\n+ 2\n")
	patchText("neg-idx-recursive2", `[{"a":1}]`, "@ [-5,\"a\"]\n- 1\n+ 2\n")
	patchText("frac-idx", `[1,2]`, "@ [0.5]\n- 1\n+ 3\n")
	patchText("huge-idx", `[1,2]`, "@ [1e30]\n+ 3\n")
	patchText("set-on-nonarray", `{"a":1}`, "@ [{}]\n+ 3\n")
	patchText("mset-on-nonarray", `1`, "@ [[]]\n+ 3\n")
	patchText("msetkeys", `[1]`, "@ [[{\"a\":1}],\"b\"]\n+ 3\n")
	patchText("list-root-remove-missing", `[1]`, "@ []\n+ 3\n")
	// C03 nested context
	patchText("nested-ctx-wrong", `{"a":[1,2,3]}`, "@ [\"a\",1]\n  9\n- 2\n+ 5\n  9\n")
	patchText("root-ctx-wrong", `[1,2,3]`, "@ [1]\n  9\n- 2\n+ 5\n  9\n")
	patchText("nested-list-ctx-wrong", `[[1,2,3]]`, "@ [0,1]\n  9\n- 2\n+ 5\n  9\n")
	// C08 keyed member error swallowed
	patchText("setkeys-nested-fail", `[{"id":1,"x":1}]`, "@ [{\"id\":1},\"x\"]\n- 2\n+ 3\n")
	patchText("setkeys-nested-ok", `[{"id":1,"x":1}]`, "@ [{\"id\":1},\"x\"]\n- 1\n+ 3\n")
	// C02 after-context then metadata
	try("c02", func() {
		txt := "@ [0]\n[\n- 1\n+ 2\n]\n^ {\"Merge\":true}\n@ [\"a\"]\n+ 3\n"
		d, err := jd.ReadDiffString(txt)
		fmt.Printf("[c02] hunks=%d err=%v rerender=%q\n", len(d), err, d.Render())
	})
	// C04 hash aliasing
	try("c04", func() {
		fmt.Println("[c04] [[]] vs [\"\"] SET:", rj(`[[]]`).Equals(rj(`[""]`), jd.SET), " MSET:", rj(`[[]]`).Equals(rj(`[""]`), jd.MULTISET))
		fmt.Println("[c04] [\"AAAAAAAA\"] vs [2261634.5098039214] SET:", rj(`["AAAAAAAA"]`).Equals(rj(`[2261634.5098039214]`), jd.SET))
		fmt.Println("[c04] diff:", rj(`[[]]`).Diff(rj(`[""]`), jd.SET).Render())
		fmt.Println("[c04] [0] vs [-0] list:", rj(`[0]`).Equals(rj(`[-0]`)), " set:", rj(`[0]`).Equals(rj(`[-0]`), jd.SET))
	})
	// C05 precision
	try("c05", func() {
		a, b := rj(`[1.0]`), rj(`[1.00001]`)
		fmt.Println("[c05] equals:", a.Equals(b, jd.Precision(0.001)), "diff:", a.Diff(b, jd.Precision(0.001)).Render())
		a, b = rj(`1.0`), rj(`1.00001`)
		fmt.Println("[c05] scalar equals:", a.Equals(b, jd.Precision(0.001)), "diff:", a.Diff(b, jd.Precision(0.001)).Render())
	})
	// C15 render mutation
	try("c15", func() {
		a, b := rj(`[1]`), rj(`[1,2,3]`)
		d := a.Diff(b)
		p1, _ := d.RenderPatch()
		p2, _ := d.RenderPatch()
		fmt.Println("[c15] patch1:", p1)
		fmt.Println("[c15] patch2:", p2)
		r, err := a.Patch(d)
		fmt.Println("[c15] patched after render:", r.Json(), err)
		a, b = rj(`{"a":1,"b":2}`), rj(`{"b":2}`)
		d = a.Diff(b, jd.MERGE)
		fmt.Printf("[c15] before: %q\n", d.Render())
		m, _ := d.RenderMerge()
		fmt.Printf("[c15] merge: %s after: %q\n", m, d.Render())
		r, err = a.Patch(d)
		fmt.Println("[c15] patched after rendermerge:", r.Json(), err)
	})
	// C12
	try("c12", func() {
		for _, c := range [][2]string{{`1`, `{}`}, {`{"a":{"b":1}}`, `{"a":{}}`}, {`{"a":1}`, `null`}, {`{"a":1}`, `{"a":{"b":null}}`}, {`[1]`, `{"a":null}`}} {
			d, err := jd.ReadMergeString(c[1])
			if err != nil { fmt.Println("[c12] read err", err); continue }
			r, err := rj(c[0]).Patch(d)
			if err != nil { fmt.Println("[c12]", c, "patch err", err); continue }
			fmt.Printf("[c12] target=%s patch=%s -> %q\n", c[0], c[1], r.Json())
		}
	})
	// yaml nan
	try("yaml-nan", func() {
		n, err := jd.ReadYamlString("a: .nan\n")
		fmt.Println("[yaml-nan]", err)
		fmt.Println("[yaml-nan]", n.Json())
	})
}
