package main

import (
	"encoding/json"
	"fmt"
	"math/rand"
	"os"
	"strings"

	jd "github.com/josephburnett/jd/v2"
)

var rng = rand.New(rand.NewSource(1))

func gen(depth int, nullFree bool, keyed bool) interface{} {
	k := rng.Intn(10)
	if depth <= 0 && k >= 6 {
		k = rng.Intn(6)
	}
	switch k {
	case 0:
		if nullFree {
			return float64(rng.Intn(3))
		}
		return nil
	case 1, 2:
		return float64(rng.Intn(3))
	case 3:
		return []string{"", "a", "b"}[rng.Intn(3)]
	case 4:
		return rng.Intn(2) == 0
	case 5:
		return float64(rng.Intn(3))
	case 6, 7:
		n := rng.Intn(5)
		a := make([]interface{}, n)
		for i := range a {
			if keyed && rng.Intn(2) == 0 {
				o := gen(depth-1, nullFree, keyed)
				m, ok := o.(map[string]interface{})
				if !ok {
					m = map[string]interface{}{}
				}
				m["id"] = float64(rng.Intn(3))
				a[i] = m
			} else {
				a[i] = gen(depth-1, nullFree, keyed)
			}
		}
		return a
	default:
		n := rng.Intn(4)
		m := map[string]interface{}{}
		for i := 0; i < n; i++ {
			m[[]string{"x", "y", "z", "id"}[rng.Intn(4)]] = gen(depth-1, nullFree, keyed)
		}
		return m
	}
}

func mutate(v interface{}, nullFree, keyed bool) interface{} {
	if rng.Intn(4) == 0 {
		return gen(2, nullFree, keyed)
	}
	switch t := v.(type) {
	case []interface{}:
		out := []interface{}{}
		for _, e := range t {
			switch rng.Intn(6) {
			case 0: // drop
			case 1:
				out = append(out, mutate(e, nullFree, keyed))
			case 2:
				out = append(out, e, gen(1, nullFree, keyed))
			default:
				out = append(out, e)
			}
		}
		if rng.Intn(4) == 0 {
			out = append(out, gen(1, nullFree, keyed))
		}
		if rng.Intn(8) == 0 {
			rng.Shuffle(len(out), func(i, j int) { out[i], out[j] = out[j], out[i] })
		}
		return out
	case map[string]interface{}:
		out := map[string]interface{}{}
		for k, e := range t {
			switch rng.Intn(5) {
			case 0:
			case 1:
				out[k] = mutate(e, nullFree, keyed)
			default:
				out[k] = e
			}
		}
		if rng.Intn(4) == 0 {
			out[[]string{"x", "y", "z", "w"}[rng.Intn(4)]] = gen(1, nullFree, keyed)
		}
		return out
	}
	return v
}

func js(v interface{}) string { b, _ := json.Marshal(v); return string(b) }
func rd(s string) jd.JsonNode  { n, err := jd.ReadJsonString(s); if err != nil { panic(err) }; return n }

type cfg struct {
	name     string
	opts     []jd.Option
	nullFree bool
	keyed    bool
}

func main() {
	cfgs := []cfg{
		{"list", nil, false, false},
		{"set", []jd.Option{jd.SET}, false, false},
		{"mset", []jd.Option{jd.MULTISET}, false, false},
		{"setkeys", []jd.Option{jd.SetKeys("id")}, false, true},
		{"merge", []jd.Option{jd.MERGE}, true, false},
		{"set+merge", []jd.Option{jd.SET, jd.MERGE}, true, false},
		{"mset+merge", []jd.Option{jd.MULTISET, jd.MERGE}, true, false},
	}
	N := 20000
	for _, c := range cfgs {
		fails := map[string]int{}
		ex := map[string]string{}
		for i := 0; i < N; i++ {
			av := gen(3, c.nullFree, c.keyed)
			bv := mutate(av, c.nullFree, c.keyed)
			as, bs := js(av), js(bv)
			func() {
				defer func() {
					if r := recover(); r != nil {
						k := "panic:" + strings.SplitN(fmt.Sprint(r), "[", 2)[0]
						fails[k]++
						if _, ok := ex[k]; !ok { ex[k] = as + " -> " + bs }
					}
				}()
				a, b := rd(as), rd(bs)
				d := a.Diff(b, c.opts...)
				eq := a.Equals(b, c.opts...)
				if (len(d) == 0) != eq {
					k := fmt.Sprintf("C05 empty=%v eq=%v", len(d) == 0, eq)
					fails[k]++
					if _, ok := ex[k]; !ok { ex[k] = as + " -> " + bs + " diff:" + d.Render() }
				}
				r, err := rd(as).Patch(d)
				if err != nil {
					k := "C01 err"
					fails[k]++
					if _, ok := ex[k]; !ok { ex[k] = as + " -> " + bs + " err:" + err.Error() + " diff:" + d.Render() }
					return
				}
				if !r.Equals(b, c.opts...) {
					k := "C01 neq"
					fails[k]++
					if _, ok := ex[k]; !ok { ex[k] = as + " -> " + bs + " got:" + r.Json() + " diff:" + d.Render() }
				}
				// leave-one-out
				if len(d) > 1 {
					for j := range d {
						sub := append(append(jd.Diff{}, d[:j]...), d[j+1:]...)
						// re-read to get fresh copy
						sub2, err := jd.ReadDiffString(sub.Render())
						if err != nil { continue }
						r, err := func() (n jd.JsonNode, e error) { defer func(){ if x:=recover(); x!=nil { e = fmt.Errorf("panic %v", x)} }(); return rd(as).Patch(sub2) }()
						if err == nil && r.Equals(b, c.opts...) {
							k := "C07 redundant"
							fails[k]++
							if _, ok := ex[k]; !ok { ex[k] = as + " -> " + bs + " diff:" + d.Render() + fmt.Sprintf(" drop %d", j) }
						}
					}
				}
			}()
		}
		fmt.Printf("== %s: %v\n", c.name, fails)
		for k, v := range ex {
			fmt.Printf("   %s: %s\n", k, v)
		}
	}
	_ = os.Stdout
}
