package main

// C13 probe: hostile structurally-valid diffs (text) x targets; any panic is a finding.
import (
	"encoding/json"
	"fmt"
	"math/rand"
	"strings"

	jd "github.com/josephburnett/jd/v2"
)

var rng = rand.New(rand.NewSource(555))

func gen(depth int) interface{} {
	k := rng.Intn(10)
	if depth <= 0 && k >= 5 { k = rng.Intn(5) }
	switch k {
	case 0: return nil
	case 1, 2: return float64(rng.Intn(3))
	case 3: return []string{"", "a", "b"}[rng.Intn(3)]
	case 4: return rng.Intn(2) == 0
	case 5, 6, 7:
		n := rng.Intn(4); a := make([]interface{}, n)
		for i := range a { a[i] = gen(depth - 1) }
		return a
	default:
		n := rng.Intn(3); m := map[string]interface{}{}
		for i := 0; i < n; i++ { m[[]string{"x", "y", "id"}[rng.Intn(3)]] = gen(depth - 1) }
		return m
	}
}
func js(v interface{}) string { b, _ := json.Marshal(v); return string(b) }

var idxs = []string{"0", "1", "2", "5", "-1", "-2", "-7", "0.5", "1.9", "-0.5", "1e3", "1e30", "-1e30", "9223372036854775807", "1e19"}

func pathElem() string {
	switch rng.Intn(9) {
	case 0, 1: return idxs[rng.Intn(len(idxs))]
	case 2, 3: return js([]string{"x", "y", "id", ""}[rng.Intn(4)])
	case 4: return "{}"
	case 5: return "[]"
	case 6: return `{"id":` + js(gen(1)) + `}`
	case 7: return `[{"id":` + js(gen(0)) + `}]`
	default: return js(gen(0))
	}
}
func hunk() string {
	var b strings.Builder
	if rng.Intn(5) == 0 { b.WriteString("^ {\"Merge\":true}\n") }
	n := rng.Intn(4)
	es := []string{}
	for i := 0; i < n; i++ { es = append(es, pathElem()) }
	b.WriteString("@ [" + strings.Join(es, ",") + "]\n")
	if rng.Intn(3) == 0 { b.WriteString("[\n") }
	for i := rng.Intn(3); i > 0; i-- { if rng.Intn(2) == 0 { b.WriteString("  " + js(gen(1)) + "\n") } }
	for i := rng.Intn(3); i > 0; i-- { b.WriteString("- " + js(gen(1)) + "\n") }
	for i := rng.Intn(3); i > 0; i-- { if rng.Intn(6) == 0 { b.WriteString("+\n") } else { b.WriteString("+ " + js(gen(1)) + "\n") } }
	for i := rng.Intn(3); i > 0; i-- { if rng.Intn(2) == 0 { b.WriteString("  " + js(gen(1)) + "\n") } }
	if rng.Intn(3) == 0 { b.WriteString("]\n") }
	return b.String()
}

func main() {
	cls := map[string]int{}; ex := map[string]string{}
	read, applied, errs := 0, 0, 0
	for it := 0; it < 300000; it++ {
		txt := ""
		for i := 1 + rng.Intn(2); i > 0; i-- { txt += hunk() }
		doc := js(gen(3))
		func() {
			defer func() {
				if r := recover(); r != nil {
					k := fmt.Sprint(r); if i := strings.Index(k, "["); i > 0 { k = k[:i] }
					cls[k]++; if _, ok := ex[k]; !ok { ex[k] = doc + " <- " + txt }
				}
			}()
			d, err := jd.ReadDiffString(txt)
			if err != nil { return }
			read++
			_ = d.Render(); _, _ = d.RenderPatch(); _, _ = d.RenderMerge()
			d, _ = jd.ReadDiffString(txt)
			n, _ := jd.ReadJsonString(doc)
			r, err := n.Patch(d)
			if err != nil { errs++; return }
			applied++
			_ = r.Json(); _ = r.Yaml()
		}()
	}
	fmt.Println("read", read, "applied", applied, "errors", errs, cls)
	for k, v := range ex { fmt.Printf("  %s: %s\n", k, strings.ReplaceAll(v, "\n", "\\n")) }
}
