package main

import (
	"encoding/json"
	"fmt"
	"math/rand"
	"reflect"
	"strconv"
	"strings"

	jd "github.com/josephburnett/jd/v2"
)

var rng = rand.New(rand.NewSource(7))

var keys = []string{"x", "y", "a/b", "m~n", "", "-", "1", "~1", "k"}

func gen(depth int, nullFree bool) interface{} {
	k := rng.Intn(10)
	if depth <= 0 && k >= 6 {
		k = rng.Intn(6)
	}
	switch k {
	case 0:
		if nullFree {
			return float64(rng.Intn(3))
		}
		return nil
	case 1, 2, 5:
		return float64(rng.Intn(3))
	case 3:
		return []string{"", "a", "b"}[rng.Intn(3)]
	case 4:
		return rng.Intn(2) == 0
	case 6, 7:
		n := rng.Intn(5)
		a := make([]interface{}, n)
		for i := range a {
			a[i] = gen(depth-1, nullFree)
		}
		return a
	default:
		n := rng.Intn(4)
		m := map[string]interface{}{}
		for i := 0; i < n; i++ {
			m[keys[rng.Intn(len(keys))]] = gen(depth-1, nullFree)
		}
		return m
	}
}

func mutate(v interface{}, nullFree bool) interface{} {
	if rng.Intn(5) == 0 {
		return gen(2, nullFree)
	}
	switch t := v.(type) {
	case []interface{}:
		out := []interface{}{}
		for _, e := range t {
			switch rng.Intn(6) {
			case 0:
			case 1:
				out = append(out, mutate(e, nullFree))
			case 2:
				out = append(out, e, gen(1, nullFree))
			default:
				out = append(out, e)
			}
		}
		if rng.Intn(4) == 0 {
			out = append(out, gen(1, nullFree))
		}
		return out
	case map[string]interface{}:
		out := map[string]interface{}{}
		for k, e := range t {
			switch rng.Intn(5) {
			case 0:
			case 1:
				out[k] = mutate(e, nullFree)
			default:
				out[k] = e
			}
		}
		if rng.Intn(4) == 0 {
			out[keys[rng.Intn(len(keys))]] = gen(1, nullFree)
		}
		return out
	}
	return v
}

func js(v interface{}) string { b, _ := json.Marshal(v); return string(b) }
func rd(s string) jd.JsonNode  { n, err := jd.ReadJsonString(s); if err != nil { panic(err) }; return n }

// ---- reference RFC 6902 (test/remove/add/replace) over interface{} with "absent" root
type absent struct{}

func ptrTokens(p string) ([]string, error) {
	if p == "" {
		return nil, nil
	}
	if p[0] != '/' {
		return nil, fmt.Errorf("bad pointer")
	}
	parts := strings.Split(p[1:], "/")
	for i, s := range parts {
		s = strings.ReplaceAll(s, "~1", "/")
		s = strings.ReplaceAll(s, "~0", "~")
		parts[i] = s
	}
	return parts, nil
}

func arrIdx(tok string, n int, allowEnd bool) (int, error) {
	if tok == "-" {
		if allowEnd {
			return n, nil
		}
		return 0, fmt.Errorf("- not allowed")
	}
	if tok == "" || (len(tok) > 1 && tok[0] == '0') {
		return 0, fmt.Errorf("bad index")
	}
	for _, c := range tok {
		if c < '0' || c > '9' {
			return 0, fmt.Errorf("bad index")
		}
	}
	i, err := strconv.Atoi(tok)
	if err != nil {
		return 0, err
	}
	if i > n || (!allowEnd && i >= n) {
		return 0, fmt.Errorf("oob")
	}
	return i, nil
}

func get(doc interface{}, toks []string) (interface{}, error) {
	if _, ok := doc.(absent); ok {
		return nil, fmt.Errorf("absent")
	}
	if len(toks) == 0 {
		return doc, nil
	}
	switch t := doc.(type) {
	case map[string]interface{}:
		v, ok := t[toks[0]]
		if !ok {
			return nil, fmt.Errorf("missing key")
		}
		return get(v, toks[1:])
	case []interface{}:
		i, err := arrIdx(toks[0], len(t), false)
		if err != nil {
			return nil, err
		}
		return get(t[i], toks[1:])
	}
	return nil, fmt.Errorf("not container")
}

func add(doc interface{}, toks []string, v interface{}) (interface{}, error) {
	if len(toks) == 0 {
		return v, nil
	}
	switch t := doc.(type) {
	case map[string]interface{}:
		out := map[string]interface{}{}
		for k, e := range t {
			out[k] = e
		}
		if len(toks) == 1 {
			out[toks[0]] = v
			return out, nil
		}
		c, ok := t[toks[0]]
		if !ok {
			return nil, fmt.Errorf("missing parent")
		}
		n, err := add(c, toks[1:], v)
		if err != nil {
			return nil, err
		}
		out[toks[0]] = n
		return out, nil
	case []interface{}:
		if len(toks) == 1 {
			i, err := arrIdx(toks[0], len(t), true)
			if err != nil {
				return nil, err
			}
			out := append([]interface{}{}, t[:i]...)
			out = append(out, v)
			out = append(out, t[i:]...)
			return out, nil
		}
		i, err := arrIdx(toks[0], len(t), false)
		if err != nil {
			return nil, err
		}
		n, err := add(t[i], toks[1:], v)
		if err != nil {
			return nil, err
		}
		out := append([]interface{}{}, t...)
		out[i] = n
		return out, nil
	}
	return nil, fmt.Errorf("not container")
}

func remove(doc interface{}, toks []string) (interface{}, error) {
	if _, ok := doc.(absent); ok {
		return nil, fmt.Errorf("absent")
	}
	if len(toks) == 0 {
		return absent{}, nil
	}
	switch t := doc.(type) {
	case map[string]interface{}:
		c, ok := t[toks[0]]
		if !ok {
			return nil, fmt.Errorf("missing")
		}
		out := map[string]interface{}{}
		for k, e := range t {
			out[k] = e
		}
		if len(toks) == 1 {
			delete(out, toks[0])
			return out, nil
		}
		n, err := remove(c, toks[1:])
		if err != nil {
			return nil, err
		}
		out[toks[0]] = n
		return out, nil
	case []interface{}:
		i, err := arrIdx(toks[0], len(t), false)
		if err != nil {
			return nil, err
		}
		if len(toks) == 1 {
			out := append([]interface{}{}, t[:i]...)
			return append(out, t[i+1:]...), nil
		}
		n, err := remove(t[i], toks[1:])
		if err != nil {
			return nil, err
		}
		out := append([]interface{}{}, t...)
		out[i] = n
		return out, nil
	}
	return nil, fmt.Errorf("not container")
}

func apply6902(doc interface{}, patch string) (interface{}, error) {
	var ops []map[string]interface{}
	if err := json.Unmarshal([]byte(patch), &ops); err != nil {
		return nil, err
	}
	for _, op := range ops {
		p, _ := op["path"].(string)
		toks, err := ptrTokens(p)
		if err != nil {
			return nil, err
		}
		switch op["op"] {
		case "test":
			v, err := get(doc, toks)
			if err != nil {
				return nil, fmt.Errorf("test: %v", err)
			}
			if !reflect.DeepEqual(v, op["value"]) {
				return nil, fmt.Errorf("test failed at %s", p)
			}
		case "remove":
			doc, err = remove(doc, toks)
			if err != nil {
				return nil, fmt.Errorf("remove: %v", err)
			}
		case "add":
			if _, ok := doc.(absent); ok && len(toks) > 0 {
				return nil, fmt.Errorf("add to absent")
			}
			doc, err = add(doc, toks, op["value"])
			if err != nil {
				return nil, fmt.Errorf("add: %v", err)
			}
		default:
			return nil, fmt.Errorf("op %v", op["op"])
		}
	}
	return doc, nil
}

func merge7386(target, patch interface{}) interface{} {
	pm, ok := patch.(map[string]interface{})
	if !ok {
		return patch
	}
	tm, ok := target.(map[string]interface{})
	out := map[string]interface{}{}
	if ok {
		for k, v := range tm {
			out[k] = v
		}
	}
	for k, v := range pm {
		if v == nil {
			delete(out, k)
		} else {
			out[k] = merge7386(out[k], v)
		}
	}
	return out
}

func lcsLen(a, b []interface{}) int {
	t := make([][]int, len(a)+1)
	for i := range t {
		t[i] = make([]int, len(b)+1)
	}
	for i := 1; i <= len(a); i++ {
		for j := 1; j <= len(b); j++ {
			if reflect.DeepEqual(a[i-1], b[j-1]) {
				t[i][j] = t[i-1][j-1] + 1
			} else if t[i-1][j] > t[i][j-1] {
				t[i][j] = t[i-1][j]
			} else {
				t[i][j] = t[i][j-1]
			}
		}
	}
	return t[len(a)][len(b)]
}

func main() {
	fails := map[string]int{}
	ex := map[string]string{}
	note := func(k, e string) {
		fails[k]++
		if _, ok := ex[k]; !ok {
			ex[k] = e
		}
	}
	N := 30000
	for i := 0; i < N; i++ {
		av := gen(3, false)
		bv := mutate(av, false)
		as, bs := js(av), js(bv)
		func() {
			defer func() {
				if r := recover(); r != nil {
					note("panic "+fmt.Sprint(r), as+" -> "+bs)
				}
			}()
			a, b := rd(as), rd(bs)
			d := a.Diff(b)
			p, err := d.RenderPatch()
			if err != nil {
				note("C09 refuse: "+strings.SplitN(err.Error(), ":", 2)[0], as+" -> "+bs)
				return
			}
			var ai interface{}
			json.Unmarshal([]byte(as), &ai)
			r, err := apply6902(ai, p)
			if err != nil {
				note("C09 ref err "+err.Error(), as+" -> "+bs+" patch:"+p)
			} else if !reflect.DeepEqual(r, bv) && js(r) != bs {
				note("C09 ref neq", as+" -> "+bs+" patch:"+p+" got:"+js(r))
			}
			// C10 read back
			d2, err := jd.ReadPatchString(p)
			if err != nil {
				note("C10 read err "+err.Error(), as+" -> "+bs+" patch:"+p)
				return
			}
			r2, err := rd(as).Patch(d2)
			if err != nil {
				note("C10 patch err", as+" -> "+bs+" patch:"+p+" err:"+err.Error())
			} else if !r2.Equals(b) {
				note("C10 neq", as+" -> "+bs+" patch:"+p+" got:"+r2.Json())
			}
			// C06 minimality for arrays of scalars at top level
			aa, ok1 := av.([]interface{})
			ba, ok2 := bv.([]interface{})
			if ok1 && ok2 {
				scal := true
				for _, e := range append(append([]interface{}{}, aa...), ba...) {
					switch e.(type) {
					case []interface{}, map[string]interface{}:
						scal = false
					}
				}
				if scal {
					rm, ad := 0, 0
					for _, h := range d {
						rm += len(h.Remove)
						ad += len(h.Add)
						if len(h.Before) != 1 || len(h.After) != 1 {
							note("C06 ctx count", as+" -> "+bs+" diff:"+d.Render())
						}
					}
					l := lcsLen(aa, ba)
					if rm != len(aa)-l || ad != len(ba)-l {
						note("C06 nonminimal", as+" -> "+bs+" diff:"+d.Render())
					}
				}
			}
		}()
	}
	// merge
	for i := 0; i < N; i++ {
		av := gen(3, true)
		bv := mutate(av, true)
		as, bs := js(av), js(bv)
		func() {
			defer func() {
				if r := recover(); r != nil {
					note("panic "+fmt.Sprint(r), as+" -> "+bs)
				}
			}()
			a, b := rd(as), rd(bs)
			if a.Equals(b) {
				return
			}
			d := a.Diff(b, jd.MERGE)
			m, err := d.RenderMerge()
			if err != nil {
				note("C11 render err", as+" -> "+bs)
				return
			}
			var mi interface{}
			json.Unmarshal([]byte(m), &mi)
			r := merge7386(av, mi)
			if js(r) != bs {
				note("C11 neq", as+" -> "+bs+" merge:"+m+" got:"+js(r))
			}
		}()
	}
	// C12: arbitrary target x patch
	for i := 0; i < N; i++ {
		tv := gen(3, false)
		pv := gen(3, false)
		ts, ps := js(tv), js(pv)
		func() {
			defer func() {
				if r := recover(); r != nil {
					note("panic "+fmt.Sprint(r), ts+" <- "+ps)
				}
			}()
			d, err := jd.ReadMergeString(ps)
			if err != nil {
				note("C12 read err", ps)
				return
			}
			r, err := rd(ts).Patch(d)
			want := js(merge7386(tv, pv))
			if err != nil {
				note("C12 patch err", ts+" <- "+ps+" err:"+err.Error())
				return
			}
			if r.Json() != want {
				cls := "other"
				if ps == "null" {
					cls = "rootnull"
				} else if strings.Contains(ps, "{}") {
					cls = "emptyobj"
				}
				note("C12 neq "+cls, ts+" <- "+ps+" got:"+r.Json()+" want:"+want)
			}
		}()
	}
	for k, v := range fails {
		fmt.Printf("%6d %s\n       e.g. %s\n", v, k, ex[k])
	}
}
