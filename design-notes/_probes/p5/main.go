package main

import (
	"encoding/json"
	"fmt"
	"math/rand"

	jd "github.com/josephburnett/jd/v2"
)

var rng = rand.New(rand.NewSource(5))

func gen(depth int) interface{} {
	k := rng.Intn(10)
	if depth <= 0 && k >= 5 { k = rng.Intn(5) }
	switch k {
	case 0: return nil
	case 1, 2: return float64(rng.Intn(3))
	case 3: return []string{"", "a", "b"}[rng.Intn(3)]
	case 4: return rng.Intn(2) == 0
	case 5, 6, 7:
		n := rng.Intn(6); a := make([]interface{}, n)
		for i := range a { a[i] = gen(depth - 1) }
		return a
	default:
		n := rng.Intn(3); m := map[string]interface{}{}
		for i := 0; i < n; i++ { m[[]string{"x", "y", "z"}[rng.Intn(3)]] = gen(depth - 1) }
		return m
	}
}
func mutate(v interface{}) interface{} {
	if rng.Intn(6) == 0 { return gen(2) }
	switch t := v.(type) {
	case []interface{}:
		out := []interface{}{}
		for _, e := range t {
			switch rng.Intn(6) {
			case 0:
			case 1: out = append(out, mutate(e))
			case 2: out = append(out, e, gen(1))
			default: out = append(out, e)
			}
		}
		if rng.Intn(4) == 0 { out = append(out, gen(1)) }
		return out
	case map[string]interface{}:
		out := map[string]interface{}{}
		for k, e := range t {
			switch rng.Intn(5) {
			case 0:
			case 1: out[k] = mutate(e)
			default: out[k] = e
			}
		}
		return out
	}
	return v
}
func js(v interface{}) string { b, _ := json.Marshal(v); return string(b) }

func at(doc interface{}, p jd.Path) (interface{}, bool) {
	for _, e := range p {
		switch e := e.(type) {
		case jd.PathKey:
			m, ok := doc.(map[string]interface{}); if !ok { return nil, false }
			doc, ok = m[string(e)]; if !ok { return nil, false }
		case jd.PathIndex:
			a, ok := doc.([]interface{}); if !ok || int(e) >= len(a) || int(e) < 0 { return nil, false }
			doc = a[int(e)]
		default: return nil, false
		}
	}
	return doc, true
}

func main() {
	fails := map[string]int{}; ex := map[string]string{}
	note := func(k, e string) { fails[k]++; if _, ok := ex[k]; !ok { ex[k] = e } }
	hunks, listHunks := 0, 0
	for i := 0; i < 40000; i++ {
		av := gen(3); bv := mutate(av); as, bs := js(av), js(bv)
		a, _ := jd.ReadJsonString(as); b, _ := jd.ReadJsonString(bs)
		d := a.Diff(b)
		// walk: apply hunks one at a time tracking current doc as interface{}
		cur := a
		for hi, h := range d {
			hunks++
			var curI interface{}
			json.Unmarshal([]byte(cur.Json()), &curI)
			if len(h.Path) > 0 {
				if idx, ok := h.Path[len(h.Path)-1].(jd.PathIndex); ok {
					listHunks++
					if len(h.Before) != 1 || len(h.After) != 1 { note("C06 ctx len", as+" -> "+bs+" "+d.Render()); continue }
					parent, ok := at(curI, h.Path[:len(h.Path)-1])
					arr, ok2 := parent.([]interface{})
					if !ok || !ok2 { note("C06 parent not array", as+" -> "+bs+" "+d.Render()); continue }
					// before
					if int(idx) == 0 { if h.Before[0].Json() != "" { note("C06 before not boundary", as+" -> "+bs+" "+d.Render()) } } else {
						if int(idx)-1 >= len(arr) || h.Before[0].Json() != js(arr[int(idx)-1]) { note("C06 before wrong", as+" -> "+bs+" "+d.Render()) } }
					ai := int(idx) + len(h.Remove)
					if ai >= len(arr) { if h.After[0].Json() != "" { note("C06 after not boundary", as+" -> "+bs+" "+d.Render()) } } else {
						if h.After[0].Json() != js(arr[ai]) { note("C06 after wrong", as+" -> "+bs+" "+d.Render()) } }
					for j, r := range h.Remove { if int(idx)+j >= len(arr) || r.Json() != js(arr[int(idx)+j]) { note("C07 remove not present", as+" -> "+bs+" "+d.Render()) } }
					// remove != add
					if len(h.Remove) == len(h.Add) {
						same := true
						for j := range h.Remove { if !h.Remove[j].Equals(h.Add[j]) { same = false } }
						if same { note("C07 noop hunk", as+" -> "+bs+" "+d.Render()) }
					}
					// replacing same-kind containers instead of recursing?
					if len(h.Remove) > 0 && len(h.Add) > 0 {
						_ = hi
					}
				} else {
					if len(h.Before) != 0 || len(h.After) != 0 { note("C06 ctx on non-list hunk", d.Render()) }
				}
			}
			var err error
			cur, err = cur.Patch(jd.Diff{h})
			if err != nil { note("step err", as+" -> "+bs+" "+d.Render()+err.Error()); break }
		}
	}
	fmt.Println("hunks", hunks, "listHunks", listHunks)
	for k, v := range fails { fmt.Printf("%6d %s\n       e.g. %s\n", v, k, ex[k]) }
}
