package main

// C02 probe: exhaustive hunk shapes -> Render -> ReadDiffString -> compare
import (
	"fmt"
	"strings"

	jd "github.com/josephburnett/jd/v2"
)

func rd(s string) jd.JsonNode { n, err := jd.ReadJsonString(s); if err != nil { panic(err) }; return n }

var void = rd("")

func dump(d jd.Diff) string {
	var b strings.Builder
	for _, e := range d {
		fmt.Fprintf(&b, "{m=%v p=%s", e.Metadata.Merge, e.Path.JsonNode().Json())
		for _, part := range []struct{ n string; v []jd.JsonNode }{{"B", e.Before}, {"R", e.Remove}, {"A", e.Add}, {"F", e.After}} {
			fmt.Fprintf(&b, " %s[", part.n)
			for _, x := range part.v {
				if x.Json() == "" { b.WriteString("VOID,") } else { b.WriteString(x.Json() + ",") }
			}
			b.WriteString("]")
		}
		b.WriteString("}")
	}
	return b.String()
}

func main() {
	paths := []jd.Path{
		{}, {jd.PathKey("a")}, {jd.PathIndex(1)}, {jd.PathKey("a"), jd.PathIndex(0)}, {jd.PathSet{}}, {jd.PathKey("a"), jd.PathSet{}},
		{jd.PathMultiset{}}, {jd.PathSetKeys{"id": rd("1")}, jd.PathKey("x")}, {jd.PathMultisetKeys{"id": rd("1")}, jd.PathKey("x")},
	}
	ctxs := [][]jd.JsonNode{nil, {void}, {rd(`"c\n<>& 😀"`)}, {rd("1"), rd("2")}}
	vals := [][]jd.JsonNode{nil, {rd(`"v\"\\ \u0001"`)}, {rd("1"), rd(`{"k":[null]}`)}, {void}}
	var hunks []jd.DiffElement
	for _, p := range paths {
		for _, bf := range ctxs {
			for _, af := range ctxs {
				for _, rm := range vals {
					for _, ad := range vals {
						for _, m := range []bool{false, true} {
							hunks = append(hunks, jd.DiffElement{Metadata: jd.Metadata{Merge: m}, Path: p, Before: bf, Remove: rm, Add: ad, After: af})
						}
					}
				}
			}
		}
	}
	fmt.Println("hunk shapes:", len(hunks))
	cls := map[string]int{}; ex := map[string]string{}
	note := func(k, e string) { cls[k]++; if _, ok := ex[k]; !ok { ex[k] = e } }
	check := func(d jd.Diff) {
		defer func() { if r := recover(); r != nil { note("panic "+fmt.Sprint(r), dump(d)) } }()
		txt := d.Render()
		d2, err := jd.ReadDiffString(txt)
		if err != nil { note("reread err: "+strings.SplitN(err.Error(), ". ", 2)[1], dump(d)+" txt="+fmt.Sprintf("%q", txt)); return }
		if d2.Render() != txt { note("rerender differs", dump(d)+" txt="+fmt.Sprintf("%q", txt)+" re="+fmt.Sprintf("%q", d2.Render())); return }
		if len(d2) != len(d) { note("hunk count differs", dump(d)+" txt="+fmt.Sprintf("%q", txt)); return }
		note("ok", "")
	}
	// well-formedness filter (the C02 domain)
	isVoid := func(n jd.JsonNode) bool { return n.Json() == "" }
	wf := func(h jd.DiffElement) bool {
		arrayLike := false
		isIndex := false
		if len(h.Path) > 0 {
			switch h.Path[len(h.Path)-1].(type) {
			case jd.PathIndex: arrayLike = true; isIndex = true
			case jd.PathSet, jd.PathMultiset, jd.PathSetKeys, jd.PathMultisetKeys: arrayLike = true
			}
		}
		for _, r := range h.Remove { if isVoid(r) { return false } }
		lines := len(h.Remove)
		for _, a := range h.Add {
			if isVoid(a) { if !(h.Metadata.Merge && len(h.Add) == 1) { return false } }
			lines++
		}
		if lines == 0 { return false }
		if (len(h.Remove) > 1 || len(h.Add) > 1) && !arrayLike { return false }
		if (len(h.Before) > 0 || len(h.After) > 0) && !isIndex { return false }
		for i, b := range h.Before { if isVoid(b) && i != 0 { return false } }
		for i, a := range h.After { if isVoid(a) && i != len(h.After)-1 { return false } }
		return true
	}
	var wfh []jd.DiffElement
	for _, h := range hunks { if wf(h) { wfh = append(wfh, h) } }
	hunks = wfh
	fmt.Println("well-formed shapes:", len(hunks))
	// singles
	for _, h := range hunks { check(jd.Diff{h}) }
	fmt.Println("singles:", cls)
	for k, v := range ex { if k != "ok" { fmt.Printf("  %s: %s\n", k, v) } }
	// pairs over a reduced set: only those singles that round-trip
	var good []jd.DiffElement
	for _, h := range hunks {
		func() {
			defer func() { recover() }()
			d := jd.Diff{h}
			txt := d.Render()
			d2, err := jd.ReadDiffString(txt)
			if err == nil && d2.Render() == txt && len(d2) == 1 { good = append(good, h) }
		}()
	}
	fmt.Println("good singles:", len(good))
	cls = map[string]int{}; ex = map[string]string{}
	step := 1
	for i := 0; i < len(good); i += step {
		for j := 0; j < len(good); j += step {
			// strict->merge allowed, merge->strict excluded by property
			if good[i].Metadata.Merge && !good[j].Metadata.Merge { continue }
			if len(good[i].After) > 0 && good[j].Metadata.Merge { continue } // D2 class
			check(jd.Diff{good[i], good[j]})
		}
	}
	fmt.Println("pairs:", cls)
	for k, v := range ex { if k != "ok" { fmt.Printf("  %s: %s\n", k, v) } }
}
