package main

// C18/C17 probe: v1 RenderPatch/RenderMerge vs reference evaluators; read back; setkeys.
import (
	"encoding/json"
	"fmt"
	"math/rand"
	"reflect"
	"strconv"
	"strings"

	v1 "github.com/josephburnett/jd/lib"
)

var rng = rand.New(rand.NewSource(808))
var _ = reflect.DeepEqual
var _ = strconv.Atoi

var keys = []string{"x", "y", "1", "0", "10", "a/b", "m~n", "", "01", "-1"}

func gen(depth int, nf bool) interface{} {
	k := rng.Intn(10)
	if depth <= 0 && k >= 5 { k = rng.Intn(5) }
	switch k {
	case 0: if nf { return 7.0 }; return nil
	case 1, 2: return float64(rng.Intn(3))
	case 3: return []string{"", "a", "b"}[rng.Intn(3)]
	case 4: return rng.Intn(2) == 0
	case 5, 6, 7:
		n := rng.Intn(5); a := make([]interface{}, n)
		for i := range a { a[i] = gen(depth-1, nf) }
		return a
	default:
		n := rng.Intn(3); m := map[string]interface{}{}
		for i := 0; i < n; i++ { m[keys[rng.Intn(len(keys))]] = gen(depth-1, nf) }
		return m
	}
}
func mutate(v interface{}, nf bool) interface{} {
	if rng.Intn(6) == 0 { return gen(2, nf) }
	switch t := v.(type) {
	case []interface{}:
		out := []interface{}{}
		for _, e := range t { switch rng.Intn(6) { case 0: ; case 1: out = append(out, mutate(e, nf)); case 2: out = append(out, e, gen(1, nf)); default: out = append(out, e) } }
		if rng.Intn(4) == 0 { out = append(out, gen(1, nf)) }
		return out
	case map[string]interface{}:
		out := map[string]interface{}{}
		for k, e := range t { switch rng.Intn(5) { case 0: ; case 1: out[k] = mutate(e, nf); default: out[k] = e } }
		if rng.Intn(4) == 0 { out[keys[rng.Intn(len(keys))]] = gen(1, nf) }
		return out
	}
	return v
}
func js(v interface{}) string { b, _ := json.Marshal(v); return string(b) }
func rd(s string) v1.JsonNode  { n, _ := v1.ReadJsonString(s); return n }

func main() {
	cls := map[string]int{}; ex := map[string]string{}
	note := func(k, e string) { cls[k]++; if _, ok := ex[k]; !ok { ex[k] = e } }
	for it := 0; it < 30000; it++ {
		av := gen(3, false); bv := mutate(av, false); as, bs := js(av), js(bv)
		func() {
			defer func() { if r := recover(); r != nil { note("panic(list) "+strings.SplitN(fmt.Sprint(r), "[", 2)[0], as+" -> "+bs) } }()
			a, b := rd(as), rd(bs)
			d := a.Diff(b)
			p, err := d.RenderPatch()
			if err != nil { note("v1 RenderPatch refuses: "+err.Error(), as+" -> "+bs); return }
			var ai interface{}; json.Unmarshal([]byte(as), &ai)
			r, err := apply6902(ai, p)
			if err != nil { note("C18 patch: ref err "+strings.SplitN(err.Error(), " at", 2)[0], as+" -> "+bs+" patch:"+p) } else {
				w := ""; if _, ab := r.(absent); !ab { w = js(r) }
				if w != b.Json() { note("C18 patch: ref result differs", as+" -> "+bs+" patch:"+p+" got:"+w) }
			}
			d2, err := v1.ReadPatchString(p)
			if err != nil { note("C18 patch reread err", p); return }
			r2, err := rd(as).Patch(d2)
			if err != nil { note("C18 patch readback err", as+" -> "+bs+" patch:"+p+" "+err.Error()) } else if !r2.Equals(b) { note("C18 patch readback wrong", as+" -> "+bs+" patch:"+p+" got:"+r2.Json()) }
		}()
	}
	for it := 0; it < 30000; it++ {
		av := gen(3, true); bv := mutate(av, true); as, bs := js(av), js(bv)
		func() {
			defer func() { if r := recover(); r != nil { note("panic(merge) "+strings.SplitN(fmt.Sprint(r), "[", 2)[0], as+" -> "+bs) } }()
			a, b := rd(as), rd(bs)
			if a.Equals(b) { return }
			d := a.Diff(b, v1.MERGE)
			m, err := d.RenderMerge()
			if err != nil { note("v1 RenderMerge err "+err.Error(), as+" -> "+bs+" diff:"+d.Render()); return }
			var mi interface{}; json.Unmarshal([]byte(m), &mi)
			if js(merge7386(av, mi)) != bs { note("C18 merge: ref result differs", as+" -> "+bs+" merge:"+m) }
			a2, b2 := rd(as), rd(bs)
			d2 := a2.Diff(b2, v1.MERGE) // fresh (RenderMerge mutates)
			_ = d2
			d3, err := v1.ReadMergeString(m)
			if err != nil { note("C18 merge reread err", m); return }
			r, err := rd(as).Patch(d3)
			if err != nil { note("C18 merge readback err", as+" -> "+bs+" merge:"+m+" "+err.Error()) } else if !r.Equals(b) {
				c := "other"; if strings.Contains(m, "{}") { c = "emptyobj" }
				note("C18 merge readback wrong ("+c+")", as+" -> "+bs+" merge:"+m+" got:"+r.Json())
			}
		}()
	}
	for k, v := range cls { fmt.Printf("%6d %s\n       e.g. %s\n", v, k, ex[k]) }
}
// ---- reference RFC 6902 (test/remove/add/replace) over interface{} with "absent" root
type absent struct{}

func ptrTokens(p string) ([]string, error) {
	if p == "" {
		return nil, nil
	}
	if p[0] != '/' {
		return nil, fmt.Errorf("bad pointer")
	}
	parts := strings.Split(p[1:], "/")
	for i, s := range parts {
		s = strings.ReplaceAll(s, "~1", "/")
		s = strings.ReplaceAll(s, "~0", "~")
		parts[i] = s
	}
	return parts, nil
}

func arrIdx(tok string, n int, allowEnd bool) (int, error) {
	if tok == "-" {
		if allowEnd {
			return n, nil
		}
		return 0, fmt.Errorf("- not allowed")
	}
	if tok == "" || (len(tok) > 1 && tok[0] == '0') {
		return 0, fmt.Errorf("bad index")
	}
	for _, c := range tok {
		if c < '0' || c > '9' {
			return 0, fmt.Errorf("bad index")
		}
	}
	i, err := strconv.Atoi(tok)
	if err != nil {
		return 0, err
	}
	if i > n || (!allowEnd && i >= n) {
		return 0, fmt.Errorf("oob")
	}
	return i, nil
}

func get(doc interface{}, toks []string) (interface{}, error) {
	if _, ok := doc.(absent); ok {
		return nil, fmt.Errorf("absent")
	}
	if len(toks) == 0 {
		return doc, nil
	}
	switch t := doc.(type) {
	case map[string]interface{}:
		v, ok := t[toks[0]]
		if !ok {
			return nil, fmt.Errorf("missing key")
		}
		return get(v, toks[1:])
	case []interface{}:
		i, err := arrIdx(toks[0], len(t), false)
		if err != nil {
			return nil, err
		}
		return get(t[i], toks[1:])
	}
	return nil, fmt.Errorf("not container")
}

func add(doc interface{}, toks []string, v interface{}) (interface{}, error) {
	if len(toks) == 0 {
		return v, nil
	}
	switch t := doc.(type) {
	case map[string]interface{}:
		out := map[string]interface{}{}
		for k, e := range t {
			out[k] = e
		}
		if len(toks) == 1 {
			out[toks[0]] = v
			return out, nil
		}
		c, ok := t[toks[0]]
		if !ok {
			return nil, fmt.Errorf("missing parent")
		}
		n, err := add(c, toks[1:], v)
		if err != nil {
			return nil, err
		}
		out[toks[0]] = n
		return out, nil
	case []interface{}:
		if len(toks) == 1 {
			i, err := arrIdx(toks[0], len(t), true)
			if err != nil {
				return nil, err
			}
			out := append([]interface{}{}, t[:i]...)
			out = append(out, v)
			out = append(out, t[i:]...)
			return out, nil
		}
		i, err := arrIdx(toks[0], len(t), false)
		if err != nil {
			return nil, err
		}
		n, err := add(t[i], toks[1:], v)
		if err != nil {
			return nil, err
		}
		out := append([]interface{}{}, t...)
		out[i] = n
		return out, nil
	}
	return nil, fmt.Errorf("not container")
}

func remove(doc interface{}, toks []string) (interface{}, error) {
	if _, ok := doc.(absent); ok {
		return nil, fmt.Errorf("absent")
	}
	if len(toks) == 0 {
		return absent{}, nil
	}
	switch t := doc.(type) {
	case map[string]interface{}:
		c, ok := t[toks[0]]
		if !ok {
			return nil, fmt.Errorf("missing")
		}
		out := map[string]interface{}{}
		for k, e := range t {
			out[k] = e
		}
		if len(toks) == 1 {
			delete(out, toks[0])
			return out, nil
		}
		n, err := remove(c, toks[1:])
		if err != nil {
			return nil, err
		}
		out[toks[0]] = n
		return out, nil
	case []interface{}:
		i, err := arrIdx(toks[0], len(t), false)
		if err != nil {
			return nil, err
		}
		if len(toks) == 1 {
			out := append([]interface{}{}, t[:i]...)
			return append(out, t[i+1:]...), nil
		}
		n, err := remove(t[i], toks[1:])
		if err != nil {
			return nil, err
		}
		out := append([]interface{}{}, t...)
		out[i] = n
		return out, nil
	}
	return nil, fmt.Errorf("not container")
}

func apply6902(doc interface{}, patch string) (interface{}, error) {
	var ops []map[string]interface{}
	if err := json.Unmarshal([]byte(patch), &ops); err != nil {
		return nil, err
	}
	for _, op := range ops {
		p, _ := op["path"].(string)
		toks, err := ptrTokens(p)
		if err != nil {
			return nil, err
		}
		switch op["op"] {
		case "test":
			v, err := get(doc, toks)
			if err != nil {
				return nil, fmt.Errorf("test: %v", err)
			}
			if !reflect.DeepEqual(v, op["value"]) {
				return nil, fmt.Errorf("test failed at %s", p)
			}
		case "remove":
			doc, err = remove(doc, toks)
			if err != nil {
				return nil, fmt.Errorf("remove: %v", err)
			}
		case "add":
			if _, ok := doc.(absent); ok && len(toks) > 0 {
				return nil, fmt.Errorf("add to absent")
			}
			doc, err = add(doc, toks, op["value"])
			if err != nil {
				return nil, fmt.Errorf("add: %v", err)
			}
		default:
			return nil, fmt.Errorf("op %v", op["op"])
		}
	}
	return doc, nil
}

func merge7386(target, patch interface{}) interface{} {
	pm, ok := patch.(map[string]interface{})
	if !ok {
		return patch
	}
	tm, ok := target.(map[string]interface{})
	out := map[string]interface{}{}
	if ok {
		for k, v := range tm {
			out[k] = v
		}
	}
	for k, v := range pm {
		if v == nil {
			delete(out, k)
		} else {
			out[k] = merge7386(out[k], v)
		}
	}
	return out
}

