package main

// C03 probe: jd.Patch vs an independent reference interpreter of strict list-mode hunks, on arbitrary targets.
import (
	"encoding/json"
	"fmt"
	"math/rand"
	"reflect"

	jd "github.com/josephburnett/jd/v2"
)

var rng = rand.New(rand.NewSource(21))

func gen(depth int) interface{} {
	k := rng.Intn(10)
	if depth <= 0 && k >= 5 { k = rng.Intn(5) }
	switch k {
	case 0: return nil
	case 1, 2: return float64(rng.Intn(3))
	case 3: return []string{"", "a", "b"}[rng.Intn(3)]
	case 4: return rng.Intn(2) == 0
	case 5, 6, 7:
		n := rng.Intn(5); a := make([]interface{}, n)
		for i := range a { a[i] = gen(depth - 1) }
		return a
	default:
		n := rng.Intn(3); m := map[string]interface{}{}
		for i := 0; i < n; i++ { m[[]string{"x", "y", "z"}[rng.Intn(3)]] = gen(depth - 1) }
		return m
	}
}
func mutate(v interface{}, p int) interface{} {
	if rng.Intn(p) == 0 { return gen(2) }
	switch t := v.(type) {
	case []interface{}:
		out := []interface{}{}
		for _, e := range t {
			switch rng.Intn(6) {
			case 0:
			case 1: out = append(out, mutate(e, p))
			case 2: out = append(out, e, gen(1))
			default: out = append(out, e)
			}
		}
		if rng.Intn(4) == 0 { out = append(out, gen(1)) }
		if rng.Intn(10) == 0 { rng.Shuffle(len(out), func(i, j int) { out[i], out[j] = out[j], out[i] }) }
		return out
	case map[string]interface{}:
		out := map[string]interface{}{}
		for k, e := range t {
			switch rng.Intn(5) {
			case 0:
			case 1: out[k] = mutate(e, p)
			default: out[k] = e
			}
		}
		return out
	}
	return v
}
func js(v interface{}) string { b, _ := json.Marshal(v); return string(b) }
func rd(s string) jd.JsonNode  { n, _ := jd.ReadJsonString(s); return n }
func raw(n jd.JsonNode) interface{} { if n.Json() == "" { return voidT{} }; var v interface{}; json.Unmarshal([]byte(n.Json()), &v); return v }

type voidT struct{}

func deepCopy(v interface{}) interface{} { var o interface{}; json.Unmarshal([]byte(js(v)), &o); return o }

// reference: apply one strict hunk whose path has only keys/indices
func refApply(doc interface{}, h jd.DiffElement) (interface{}, error) {
	return refAt(doc, h.Path, h)
}
func single(ns []jd.JsonNode) interface{} { if len(ns) == 0 { return voidT{} }; return raw(ns[0]) }
func refAt(doc interface{}, p jd.Path, h jd.DiffElement) (interface{}, error) {
	if len(p) == 0 {
		if len(h.Remove) > 1 || len(h.Add) > 1 { return nil, fmt.Errorf("multi on non-set") }
		if _, isArr := doc.([]interface{}); isArr && len(h.Remove) == 0 { return nil, fmt.Errorf("must declare list") }
		if !reflect.DeepEqual(doc, single(h.Remove)) { return nil, fmt.Errorf("expect") }
		return single(h.Add), nil
	}
	switch e := p[0].(type) {
	case jd.PathKey:
		m, ok := doc.(map[string]interface{})
		if !ok { return nil, fmt.Errorf("not object") }
		child, ok := m[string(e)]
		if !ok { child = voidT{} }
		n, err := refAt(child, p[1:], h)
		if err != nil { return nil, err }
		out := map[string]interface{}{}
		for k, v := range m { out[k] = v }
		if _, isVoid := n.(voidT); isVoid { delete(out, string(e)) } else { out[string(e)] = n }
		return out, nil
	case jd.PathIndex:
		a, ok := doc.([]interface{})
		if !ok { return nil, fmt.Errorf("not array") }
		i := int(e)
		if len(p) > 1 {
			if i < 0 || i >= len(a) { return nil, fmt.Errorf("oob") }
			n, err := refAt(a[i], p[1:], h)
			if err != nil { return nil, err }
			out := append([]interface{}{}, a...)
			out[i] = n
			return out, nil
		}
		if i == -1 { if len(h.Remove) > 0 { return nil, fmt.Errorf("append with remove") }; out := append([]interface{}{}, a...); for _, x := range h.Add { out = append(out, raw(x)) }; return out, nil }
		if i < 0 || i > len(a) { return nil, fmt.Errorf("oob") }
		pre, rest := a[:i], a[i:]
		// before
		for j, b := range h.Before {
			bi := i - (len(h.Before) - j)
			if bi < 0 { if bi == -1 && b.Json() == "" { continue }; return nil, fmt.Errorf("before oob") }
			if bi >= len(a) { return nil, fmt.Errorf("before oob") }
			if !reflect.DeepEqual(raw(b), a[bi]) { return nil, fmt.Errorf("before mismatch") }
		}
		if len(h.Remove) > len(rest) { return nil, fmt.Errorf("remove oob") }
		for j, r := range h.Remove { if !reflect.DeepEqual(raw(r), rest[j]) { return nil, fmt.Errorf("remove mismatch") } }
		post := rest[len(h.Remove):]
		for j, af := range h.After {
			if j >= len(post) { if j == len(post) && af.Json() == "" { continue }; return nil, fmt.Errorf("after oob") }
			if !reflect.DeepEqual(raw(af), post[j]) { return nil, fmt.Errorf("after mismatch") }
		}
		out := append([]interface{}{}, pre...)
		for _, x := range h.Add { out = append(out, raw(x)) }
		out = append(out, post...)
		return out, nil
	}
	return nil, fmt.Errorf("unsupported path")
}

func main() {
	cls := map[string]int{}; ex := map[string]string{}
	note := func(k, e string) { cls[k]++; if _, ok := ex[k]; !ok { ex[k] = e } }
	applied, rejected := 0, 0
	for it := 0; it < 30000; it++ {
		av := gen(3); bv := mutate(av, 6)
		a, b := rd(js(av)), rd(js(bv))
		d := a.Diff(b)
		if len(d) == 0 { continue }
		// sub-sequence
		var sub jd.Diff
		for _, h := range d { if rng.Intn(4) != 0 { sub = append(sub, h) } }
		if len(sub) == 0 { sub = d }
		// target
		var cv interface{}
		switch rng.Intn(4) {
		case 0: cv = av
		case 1: cv = bv
		default: cv = mutate(av, 12)
		}
		cs := js(cv)
		// reference
		var want interface{} = deepCopy(cv); var werr error
		for _, h := range sub { want, werr = refApply(want, h); if werr != nil { break } }
		// jd (fresh copies, diff re-read from text to avoid aliasing)
		sub2, err := jd.ReadDiffString(sub.Render()); if err != nil { note("reread", sub.Render()); continue }
		var got jd.JsonNode; var gerr error
		func() {
			defer func() { if r := recover(); r != nil { gerr = fmt.Errorf("PANIC %v", r) } }()
			got, gerr = rd(cs).Patch(sub2)
		}()
		if gerr != nil && len(gerr.Error()) > 5 && gerr.Error()[:5] == "PANIC" { note("panic", cs+" <- "+sub.Render()+gerr.Error()); continue }
		switch {
		case werr == nil && gerr == nil:
			applied++
			w := want; if _, v := w.(voidT); v { if got.Json() != "" { note("result differs(void)", cs+" <- "+sub.Render()) }; continue }
			if got.Json() != js(w) { note("result differs", cs+" <- "+sub.Render()+" got:"+got.Json()+" want:"+js(w)) }
		case werr != nil && gerr != nil: rejected++
		case werr != nil && gerr == nil: note("jd applies, reference rejects ("+werr.Error()+")", cs+" <- "+sub.Render()+" got:"+got.Json())
		default: note("jd rejects, reference applies", cs+" <- "+sub.Render()+" err:"+gerr.Error())
		}
	}
	fmt.Println("applied", applied, "rejected", rejected, cls)
	for k, v := range ex { fmt.Printf("  %s: %s\n", k, v) }
}
