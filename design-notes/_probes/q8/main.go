package main

// C14 probe: both binaries vs in-process library, flag matrix.
import (
	"bytes"
	"encoding/json"
	"fmt"
	"math/rand"
	"os"
	"os/exec"
	"path/filepath"
	"strings"

	v1 "github.com/josephburnett/jd/lib"
	jd "github.com/josephburnett/jd/v2"
)

var rng = rand.New(rand.NewSource(2024))

func gen(depth int, nf bool) interface{} {
	k := rng.Intn(10)
	if depth <= 0 && k >= 5 { k = rng.Intn(5) }
	switch k {
	case 0: if nf { return 7.0 }; return nil
	case 1, 2: return float64(rng.Intn(3))
	case 3: return []string{"", "a", "true", "1"}[rng.Intn(4)]
	case 4: return rng.Intn(2) == 0
	case 5, 6:
		n := rng.Intn(4); a := make([]interface{}, n)
		for i := range a { a[i] = gen(depth-1, nf) }
		return a
	default:
		n := rng.Intn(3); m := map[string]interface{}{}
		for i := 0; i < n; i++ { m[[]string{"x", "y", "id"}[rng.Intn(3)]] = gen(depth-1, nf) }
		return m
	}
}
func mutate(v interface{}, nf bool) interface{} {
	if rng.Intn(5) == 0 { return gen(2, nf) }
	switch t := v.(type) {
	case []interface{}:
		out := []interface{}{}
		for _, e := range t { switch rng.Intn(5) { case 0: ; case 1: out = append(out, mutate(e, nf)); default: out = append(out, e) } }
		if rng.Intn(3) == 0 { out = append(out, gen(1, nf)) }
		return out
	case map[string]interface{}:
		out := map[string]interface{}{}
		for k, e := range t { switch rng.Intn(5) { case 0: ; case 1: out[k] = mutate(e, nf); default: out[k] = e } }
		return out
	}
	return v
}
func js(v interface{}) string { b, _ := json.Marshal(v); return string(b) }

type res struct{ code int; out, errs string }

func run(bin string, stdin string, args ...string) res {
	cmd := exec.Command(bin, args...)
	var o, e bytes.Buffer
	cmd.Stdout, cmd.Stderr = &o, &e
	if stdin != "\x00" { cmd.Stdin = strings.NewReader(stdin) }
	err := cmd.Run()
	code := 0
	if err != nil { if ee, ok := err.(*exec.ExitError); ok { code = ee.ExitCode() } else { code = -1 } }
	return res{code, o.String(), e.String()}
}

func main() {
	dir, _ := os.MkdirTemp("", "c14")
	defer os.RemoveAll(dir)
	bins := []struct{ name, path string; extra []string; v1 bool }{
		{"v2", os.Args[1], nil, false}, {"top", os.Args[2], nil, false}, {"top-v1", os.Args[2], []string{"-v2=false"}, true}}
	cls := map[string]int{}; ex := map[string]string{}
	note := func(k, e string) { cls[k]++; if _, ok := ex[k]; !ok { ex[k] = e } }
	runs := 0
	for it := 0; it < 400; it++ {
		format := []string{"", "jd", "patch", "merge"}[rng.Intn(4)]
		nf := format == "merge"
		av := gen(2, nf); bv := mutate(av, nf); if rng.Intn(6) == 0 { bv = av }
		yaml := rng.Intn(4) == 0
		arr := []string{"", "", "-set", "-mset", "-setkeys"}[rng.Intn(5)]
		if format == "patch" { arr = "" }
		color := format != "patch" && format != "merge" && rng.Intn(5) == 0
		prec := arr == "" && rng.Intn(8) == 0
		var aText, bText string
		an, _ := jd.ReadJsonString(js(av)); bn, _ := jd.ReadJsonString(js(bv))
		if yaml { aText, bText = an.Yaml(), bn.Yaml() } else { aText, bText = js(av), js(bv) }
		af, bf := filepath.Join(dir, "a"), filepath.Join(dir, "b")
		os.WriteFile(af, []byte(aText), 0644); os.WriteFile(bf, []byte(bText), 0644)
		var flags []string
		var opts []jd.Option; var md []v1.Metadata
		switch arr {
		case "-set": flags = append(flags, "-set"); opts = append(opts, jd.SET); md = append(md, v1.SET)
		case "-mset": flags = append(flags, "-mset"); opts = append(opts, jd.MULTISET); md = append(md, v1.MULTISET)
		case "-setkeys": flags = append(flags, "-setkeys", "id"); opts = append(opts, jd.SetKeys("id")); md = append(md, v1.Setkeys("id"))
		}
		if format != "" { flags = append(flags, "-f", format) }
		if format == "merge" { opts = append(opts, jd.MERGE); md = append(md, v1.MERGE) }
		if yaml { flags = append(flags, "-yaml") }
		if color { flags = append(flags, "-color") }
		p := 0.0
		if prec { flags = append(flags, "-precision", "0.5"); p = 0.5 }
		opts = append(opts, jd.Precision(p)); md = append(md, v1.SetPrecision(p))
		for _, b := range bins {
			// library expectation
			var want string; var wantErr bool; var eq bool
			func() {
				defer func() { if r := recover(); r != nil { wantErr = true; want = fmt.Sprint("PANIC ", r) } }()
				if !b.v1 {
					var x, y jd.JsonNode; var err error
					if yaml { x, err = jd.ReadYamlString(aText); y, _ = jd.ReadYamlString(bText) } else { x, err = jd.ReadJsonString(aText); y, _ = jd.ReadJsonString(bText) }
					if err != nil { wantErr = true; return }
					d := x.Diff(y, opts...); eq = x.Equals(y, opts...)
					switch format {
					case "", "jd": if color { want = d.Render(jd.COLOR) } else { want = d.Render() }
					case "patch": want, err = d.RenderPatch(); wantErr = err != nil
					case "merge": want, err = d.RenderMerge(); wantErr = err != nil
					}
				} else {
					var x, y v1.JsonNode; var err error
					if yaml { x, err = v1.ReadYamlString(aText); y, _ = v1.ReadYamlString(bText) } else { x, err = v1.ReadJsonString(aText); y, _ = v1.ReadJsonString(bText) }
					if err != nil { wantErr = true; return }
					d := x.Diff(y, md...); eq = x.Equals(y, md...)
					switch format {
					case "", "jd": if color { want = d.Render(v1.COLOR) } else { want = d.Render() }
					case "patch": want, err = d.RenderPatch(); wantErr = err != nil
					case "merge": want, err = d.RenderMerge(); wantErr = err != nil
					}
				}
			}()
			args := append(append([]string{}, b.extra...), flags...)
			r1 := run(b.path, "\x00", append(args, af, bf)...); runs++
			tag := b.name + " " + strings.Join(flags, " ")
			if strings.Contains(r1.errs, "goroutine") { note("stack trace", tag+" | "+aText+" | "+bText); continue }
			if wantErr { if r1.code != 2 { note("lib error but exit != 2", tag+" | "+aText+" | "+bText) }; continue }
			if r1.out != want { note("stdout != library rendering ("+b.name+")", tag+" | "+aText+" | "+bText+" | cli:"+r1.out+" lib:"+want); continue }
			wantCode := 1; if eq { wantCode = 0 }
			if r1.code != wantCode { note(fmt.Sprintf("exit %d but Equals=%v (%s)", r1.code, eq, b.name), tag+" | "+aText+" | "+bText+" | "+r1.out) }
			// stdin
			r2 := run(b.path, bText, append(args, af)...); runs++
			if r2.out != r1.out || r2.code != r1.code { note("stdin differs from file", tag) }
			// -o
			of := filepath.Join(dir, "o"); os.Remove(of)
			r3 := run(b.path, "\x00", append(append(args, "-o", of), af, bf)...); runs++
			ob, _ := os.ReadFile(of)
			if r3.out != "" || string(ob) != r1.out || r3.code != r1.code { note("-o differs", tag+fmt.Sprintf(" out=%q file=%q want=%q code=%d/%d", r3.out, ob, r1.out, r3.code, r1.code)) }
			// -p round trip
			if r1.code == 1 && !color {
				df := filepath.Join(dir, "d"); os.WriteFile(df, []byte(r1.out), 0644)
				r4 := run(b.path, "\x00", append(append(args, "-p"), df, af)...); runs++
				if r4.code != 0 { note("-p round trip failed ("+b.name+" "+format+" "+arr+")", tag+" | "+aText+" | "+bText+" | "+r1.out+" | "+r4.errs) } else {
					var ok bool
					if !b.v1 {
						var got, y jd.JsonNode
						if yaml { got, _ = jd.ReadYamlString(r4.out); y, _ = jd.ReadYamlString(bText) } else { got, _ = jd.ReadJsonString(r4.out); y, _ = jd.ReadJsonString(bText) }
						ok = got != nil && got.Equals(y, opts...)
					} else {
						var got, y v1.JsonNode
						if yaml { got, _ = v1.ReadYamlString(r4.out); y, _ = v1.ReadYamlString(bText) } else { got, _ = v1.ReadJsonString(r4.out); y, _ = v1.ReadJsonString(bText) }
						ok = got != nil && got.Equals(y, md...)
					}
					if !ok { note("-p round trip wrong ("+b.name+" "+format+" "+arr+")", tag+" | "+aText+" | "+bText+" | "+r1.out+" | got:"+r4.out) }
				}
			}
		}
	}
	fmt.Println("process runs:", runs)
	for k, v := range cls { fmt.Printf("%5d %s\n      e.g. %s\n", v, k, strings.ReplaceAll(ex[k], "\n", "\\n")) }
}
