package main

// C08 probe: set / multiset / keyed hunks vs reference set/bag interpreter on perturbed targets.
import (
	"encoding/json"
	"fmt"
	"math/rand"
	"sort"
	"strings"

	jd "github.com/josephburnett/jd/v2"
)

var rng = rand.New(rand.NewSource(33))

func scalar() interface{} {
	switch rng.Intn(4) {
	case 0: return nil
	case 1: return float64(rng.Intn(4))
	case 2: return []string{"p", "a", "b"}[rng.Intn(3)]
	default: return rng.Intn(2) == 0
	}
}
func genElem(depth int, keyed bool, used map[int]bool) interface{} {
	switch rng.Intn(4) {
	case 0:
		m := map[string]interface{}{}
		for i := 0; i < rng.Intn(3); i++ { m[[]string{"x", "y"}[rng.Intn(2)]] = scalar() }
		if keyed { id := rng.Intn(6); if used[id] { return scalar() }; used[id] = true; m["id"] = float64(id) }
		return m
	case 1:
		if depth > 0 { return genArr(depth-1, keyed) }
		return scalar()
	default: return scalar()
	}
}
func genArr(depth int, keyed bool) []interface{} {
	n := rng.Intn(5); used := map[int]bool{}; a := []interface{}{}
	for i := 0; i < n; i++ { a = append(a, genElem(depth, keyed, used)) }
	if !keyed && rng.Intn(3) == 0 && len(a) > 0 { a = append(a, a[rng.Intn(len(a))]) } // duplicates
	return a
}
func mutArr(a []interface{}, keyed bool) []interface{} {
	out := []interface{}{}
	used := map[int]bool{}
	for _, e := range a { if m, ok := e.(map[string]interface{}); ok { if id, ok := m["id"].(float64); ok { used[int(id)] = true } } }
	for _, e := range a {
		switch rng.Intn(6) {
		case 0: continue
		case 1:
			if m, ok := e.(map[string]interface{}); ok {
				c := map[string]interface{}{}; for k, v := range m { c[k] = v }
				c[[]string{"x", "y", "w"}[rng.Intn(3)]] = scalar(); e = c
			} else { e = scalar() }
		}
		out = append(out, e)
	}
	if rng.Intn(2) == 0 { out = append(out, genElem(1, keyed, used)) }
	rng.Shuffle(len(out), func(i, j int) { out[i], out[j] = out[j], out[i] })
	return out
}
func js(v interface{}) string { b, _ := json.Marshal(v); return string(b) }
func rd(s string) jd.JsonNode  { n, _ := jd.ReadJsonString(s); return n }

// canonical form: mode 0 list, 1 set, 2 bag (recursive)
func canon(v interface{}, mode int) string {
	switch t := v.(type) {
	case []interface{}:
		cs := []string{}
		for _, e := range t { cs = append(cs, canon(e, mode)) }
		if mode != 0 { sort.Strings(cs) }
		if mode == 1 { d := []string{}; for i, c := range cs { if i == 0 || c != cs[i-1] { d = append(d, c) } }; cs = d }
		return "[" + strings.Join(cs, ",") + "]"
	case map[string]interface{}:
		ks := []string{}; for k := range t { ks = append(ks, k) }; sort.Strings(ks)
		ps := []string{}; for _, k := range ks { ps = append(ps, js(k)+":"+canon(t[k], mode)) }
		return "{" + strings.Join(ps, ",") + "}"
	}
	return js(v)
}
func rawOf(n jd.JsonNode) interface{} { var v interface{}; json.Unmarshal([]byte(n.Json()), &v); return v }

func main() {
	cls := map[string]int{}; ex := map[string]string{}
	note := func(k, e string) { cls[k]++; if _, ok := ex[k]; !ok { ex[k] = e } }
	ok, rej := 0, 0
	for it := 0; it < 40000; it++ {
		mode := 1 + rng.Intn(2)
		opt := []jd.Option{jd.SET}; if mode == 2 { opt = []jd.Option{jd.MULTISET} }
		av := genArr(2, false); bv := mutArr(av, false)
		d := rd(js(av)).Diff(rd(js(bv)), opt...)
		if len(d) != 1 { continue }
		h := d[0]
		if len(h.Path) != 1 { continue }
		var cv []interface{}
		switch rng.Intn(3) { case 0: cv = append([]interface{}{}, av...); rng.Shuffle(len(cv), func(i, j int) { cv[i], cv[j] = cv[j], cv[i] }); default: cv = mutArr(av, false) }
		// reference
		counts := map[string]int{}; order := []string{}
		for _, e := range cv { c := canon(e, mode); if counts[c] == 0 { order = append(order, c) }; counts[c]++; if mode == 1 { counts[c] = 1 } }
		var werr error
		for _, r := range h.Remove { c := canon(rawOf(r), mode); if counts[c] <= 0 { werr = fmt.Errorf("absent %s", c); break }; counts[c]-- }
		if werr == nil { for _, x := range h.Add { c := canon(rawOf(x), mode); counts[c]++; if mode == 1 { counts[c] = 1 } } }
		want := []string{}; for c, n := range counts { for i := 0; i < n; i++ { want = append(want, c) } }; sort.Strings(want)
		d2, _ := jd.ReadDiffString(d.Render())
		var got jd.JsonNode; var gerr error
		func() { defer func() { if r := recover(); r != nil { gerr = fmt.Errorf("PANIC %v", r) } }(); got, gerr = rd(js(cv)).Patch(d2) }()
		switch {
		case werr == nil && gerr == nil:
			ok++
			g := []string{}; for _, e := range rawOf(got).([]interface{}) { g = append(g, canon(e, mode)) }; sort.Strings(g)
			if strings.Join(g, ";") != strings.Join(want, ";") { note(fmt.Sprintf("mode%d result differs", mode), js(cv)+" <- "+d.Render()+" got:"+got.Json()+" want:"+strings.Join(want, ";")) }
		case werr != nil && gerr != nil: rej++
		case werr != nil: note(fmt.Sprintf("mode%d jd applies, ref rejects", mode), js(cv)+" <- "+d.Render()+" got:"+got.Json()+" "+werr.Error())
		default: note(fmt.Sprintf("mode%d jd rejects, ref applies", mode), js(cv)+" <- "+d.Render()+" err:"+gerr.Error())
		}
	}
	fmt.Println("set/bag: ok", ok, "rejected", rej, cls)
	for k, v := range ex { fmt.Printf("  %s: %s\n", k, v) }
}
